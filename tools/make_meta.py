#!/usr/bin/env python3
"""tools/make_meta.py: write seeded/<id>/meta.json from the agent's notes.md, my confirmation (confirm.json) and detect.json."""
import glob
import json
import os
import re

ROOT = os.path.dirname(os.path.dirname(os.path.abspath(__file__)))


def bullet(notes, *words):
    for para in re.split(r"\n(?=- )", notes):
        head = para[:60].lower()
        if any(w in head for w in words):
            return re.sub(r"\s+", " ", para.lstrip("- ").strip())[:600]
    return ""


for d in sorted(glob.glob(os.path.join(ROOT, "seeded", "*"))):
    sid = os.path.basename(d)
    notes = open(os.path.join(d, "notes.md")).read() if os.path.exists(os.path.join(d, "notes.md")) else ""
    title = (notes.splitlines() or [""])[0].lstrip("# ").strip()
    prop = re.sub(r"^own-", "", sid)[:3]
    patch = open(os.path.join(d, "patch.diff")).read()
    files = sorted(set(re.findall(r"^\+\+\+ b/(\S+)", patch, re.M)))
    confirm = json.load(open(os.path.join(d, "confirm.json"))) if os.path.exists(os.path.join(d, "confirm.json")) else None
    detect = json.load(open(os.path.join(d, "detect.json"))) if os.path.exists(os.path.join(d, "detect.json")) else None
    meta = {
        "id": sid, "property": prop, "title": title, "files": files,
        "change": bullet(notes, "change"),
        "clause_broken": bullet(notes, "clause"),
        "needs": bullet(notes, "need"),
        "origin": "own" if sid.startswith("own-") else "fresh sub-agent given only the property text and a scratch worktree of the pinned commit",
        "what_i_ran": {
            "confirmation": ("tools/confirm_seed.sh " + sid + ": scratch worktree of the pinned commit; demo.py without the patch, demo.py with it, the repository's full suite with it") if confirm else "not confirmed by me",
            "confirmation_result": confirm,
            "detection": detect,
        },
    }
    json.dump(meta, open(os.path.join(d, "meta.json"), "w"), indent=1)
    print(sid, "confirmed" if confirm else "UNCONFIRMED", "detected" if detect and detect.get("detected") else ("MISSED" if detect else "not run"))
