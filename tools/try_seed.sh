#!/bin/sh
# tools/try_seed.sh <patch.diff> <PROP> [--sub x ...]: apply a seeded defect to /repo, run the check, ALWAYS revert.
patch="$1"; shift
cd /repo || exit 2
if [ -n "$(git status --porcelain --untracked-files=no)" ]; then echo "refusing: /repo has uncommitted changes"; exit 2; fi
git apply "$patch" || { echo "patch does not apply"; exit 2; }
cd /verif && ./check "$@" --no-evidence; rc=$?
git -C /repo checkout -- . 
echo "try_seed rc=$rc (1 = detected)"
exit $rc
