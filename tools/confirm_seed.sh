#!/bin/sh
# tools/confirm_seed.sh <ID> : independent confirmation of a seeded defect in a scratch worktree (pinned commit).
# demo must fail with the patch and pass without; the repo's own suite must give the baseline failing set with the patch.
ID="$1"; S=/tmp/seed/$ID; WT=/tmp/wt/confirm-$ID
PIN=${PIN:-1ff3f1f4}
git -C /repo worktree add -q --detach "$WT" $PIN || exit 2
cd "$WT" || exit 2
PYTHONPATH=$WT /venv/bin/python $S/demo.py > $S/confirm_demo_without.log 2>&1; without=$?
git apply $S/patch.diff || { echo "{\"id\":\"$ID\",\"error\":\"patch does not apply\"}" > $S/confirm.json; git -C /repo worktree remove --force "$WT"; exit 2; }
PYTHONPATH=$WT /venv/bin/python $S/demo.py > $S/confirm_demo_with.log 2>&1; with=$?
/venv/bin/python -m pytest -q -p no:cacheprovider --no-cov --timeout=900 --continue-on-collection-errors -q -rfE > $S/confirm_suite.log 2>&1
grep -E "^(FAILED|ERROR) " $S/confirm_suite.log | sed -E 's/ - .*//' | sort -u > $S/confirm_failset.txt
cat > /tmp/seed/baseline_failset.txt <<EOB
ERROR tests/script/sig_hash_taproot_test.py
ERROR tests/script/taproot_test.py
ERROR tests/script_engine/python_path_test.py
ERROR tests/script_engine/transactions_test.py
FAILED tests/block/block_test.py::test_dataclasses_json_dict
FAILED tests/imports_test.py::test_the_codec_does_not_pay_for_the_rpc_package
FAILED tests/keyword_only_test.py::test_the_recorded_surface_is_the_whole_of_it
EOB
if cmp -s $S/confirm_failset.txt /tmp/seed/baseline_failset.txt; then suite=baseline; else suite=DIFFERS; fi
tailline=$(grep -E "passed|failed" $S/confirm_suite.log | tail -1 | tr -d '"')
echo "{\"id\":\"$ID\",\"demo_exit_without\":$without,\"demo_exit_with\":$with,\"suite_failing_set\":\"$suite\",\"suite_summary\":\"$tailline\"}" > $S/confirm.json
cd /; git -C /repo worktree remove --force "$WT"
cat $S/confirm.json
