#!/usr/bin/env python3
"""tools/report.py: regenerate the generated tables of DESIGN.md (between the BEGIN/END GENERATED markers) from
evidence/*.json, known_findings.json and seeded/*/{meta,detect}.json.  Nothing here decides anything."""
import glob
import json
import os
import re

ROOT = os.path.dirname(os.path.dirname(os.path.abspath(__file__)))


def coverage_table():
    rows = ["| property | level | sub-checks (evaluations) | states / transitions / traces replayed | distinct outcomes | known findings seen | wall (quick, 16 cores) |", "|---|---|---|---|---|---|---|"]
    for f in sorted(glob.glob(os.path.join(ROOT, "evidence", "C*.json"))):
        e = json.load(open(f))
        c = e["coverage"]
        sc = c.get("sub_checks", {})
        subs = "; ".join(f"{k} ({v.get('evaluations', 0):,})" for k, v in sc.items()) if isinstance(sc, dict) else str(sc)
        stt = f"{c.get('states', '-'):,} / {c.get('transitions', '-'):,} / {c.get('traces_validated_against_impl', '-'):,}" if "states" in c else "-"
        rows.append(f"| {e['property_id']} | {e['level']} | {subs} | {stt} | {c.get('distinct_outcomes', '-')} | {len(c.get('known_findings_observed', []))} | {e['wall_s']:.0f} s |")
    return "\n".join(rows)


def findings_table():
    d = json.load(open(os.path.join(ROOT, "known_findings.json")))
    rows = ["| property | status | commit | finding key | what failed |", "|---|---|---|---|---|"]
    for x in d["findings"]:
        rows.append(f"| {x['property']} | {x['status']} | {x.get('commit', '')} | `{x['key']}` | {x['what']} |")
    return "\n".join(rows)


def _short(t, n=230):
    t = t.replace('|', '/').replace('**', '')
    return t if len(t) <= n else t[:n].rsplit(' ', 1)[0] + ' ...'


def seeds_table():
    rows = ["| seed | property | change (file) | needs | detected by `./check <P>` (quick) | violation keys (first) |", "|---|---|---|---|---|---|"]
    for d in sorted(glob.glob(os.path.join(ROOT, "seeded", "*"))):
        sid = os.path.basename(d)
        meta = json.load(open(os.path.join(d, "meta.json"))) if os.path.exists(os.path.join(d, "meta.json")) else {}
        det = json.load(open(os.path.join(d, "detect.json"))) if os.path.exists(os.path.join(d, "detect.json")) else {}
        keys = ", ".join(f"`{k}`" for k in det.get("violation_keys", [])[:2])
        rows.append(f"| {sid} | {meta.get('property', det.get('property', ''))} | {_short(meta.get('change', ''))} | {_short(meta.get('needs', ''))} | {'yes' if det.get('detected') else ('NO' if det else 'not run')} ({det.get('wall_s', '?')} s) | {keys} |")
    return "\n".join(rows)


def main():
    p = os.path.join(ROOT, "DESIGN.md")
    s = open(p).read()
    for name, fn in (("COVERAGE", coverage_table), ("FINDINGS", findings_table), ("SEEDS", seeds_table)):
        pat = re.compile(rf"(<!-- BEGIN GENERATED {name} -->\n).*?(<!-- END GENERATED {name} -->)", re.S)
        if pat.search(s):
            s = pat.sub(lambda m: m.group(1) + fn() + "\n" + m.group(2), s)
    open(p, "w").write(s)


if __name__ == "__main__":
    main()
