#!/bin/sh
# tools/seed_matrix.sh [ID ...]: run each kept seed against its property's full quick check; writes seeded/<ID>/detect.json
cd /verif
ids="$@"
[ -z "$ids" ] && ids=$(ls seeded)
for id in $ids; do
  d=seeded/$id
  [ -f $d/patch.diff ] || continue
  prop=$(echo $id | sed -e 's/^own-//' -e 's/^\(C[0-9][0-9]\).*/\1/')
  s=$(date +%s)
  tools/try_seed.sh /verif/$d/patch.diff $prop > /root/scratch/seed_$id.log 2>&1
  rc=$?
  keys=$(grep -o 'key=[^ ]*' /root/scratch/seed_$id.log | sort -u | head -12 | sed 's/key=//' | tr '\n' ' ')
  python3 - "$id" "$prop" "$rc" "$(( $(date +%s) - s ))" "$keys" <<'PY'
import json,sys
id,prop,rc,wall,keys=sys.argv[1:6]
json.dump({"seed":id,"property":prop,"command":f"tools/try_seed.sh seeded/{id}/patch.diff {prop}","exit_code":int(rc),"detected":rc=="1","wall_s":int(wall),"violation_keys":keys.split()},open(f"/verif/seeded/{id}/detect.json","w"),indent=1)
PY
  echo "$id prop=$prop rc=$rc $(( $(date +%s) - s ))s $keys" | cut -c1-300
done
