#!/bin/sh
# tools/try_seed_scratch.sh <abs patch.diff> <PROP> [--sub x ...]: like try_seed.sh but on a scratch worktree of /repo's HEAD
# (VERIF_REPO), so that /repo itself stays untouched while other runs use it.  The worktree is removed afterwards.
patch="$1"; shift
WT=/tmp/wt/seedtest-$$
git -C /repo worktree add -q --detach "$WT" HEAD || exit 2
( cd "$WT" && git apply "$patch" ) || { echo "patch does not apply"; git -C /repo worktree remove --force "$WT"; exit 2; }
cd /verif && VERIF_REPO="$WT" ./check "$@" --no-evidence; rc=$?
git -C /repo worktree remove --force "$WT"
echo "try_seed_scratch rc=$rc (1 = detected)"
exit $rc
