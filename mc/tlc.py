"""E4: run TLC on a spec, read the labelled state graph it dumps, and give the checks what they need to
replay every edge on the implementation (nodes, labelled edges, a shortest path to every node)."""
from __future__ import annotations

import collections
import os
import re
import shutil
import subprocess

ROOT = os.path.dirname(os.path.dirname(os.path.abspath(__file__)))


class Graph:
    def __init__(self, nodes, edges, init, stats):
        self.nodes, self.edges, self.init, self.stats = nodes, edges, init, stats
        adj = collections.defaultdict(list)
        for s, t, l in edges:
            adj[s].append((t, l))
        self.path = {i: [] for i in init}
        q = collections.deque(init)
        while q:
            s = q.popleft()
            for t, l in adj[s]:
                if t not in self.path:
                    self.path[t] = self.path[s] + [l]
                    q.append(t)


def run_tlc(spec, cfg=None, constants=None, deadlock_ok=True, timeout=600):
    """-> Graph.  spec: file name under /verif/specs.  Raises RuntimeError when TLC reports a violated invariant
    (the MODEL is wrong or the property does not hold of it: a harness error, not a finding about btclib)."""
    work = os.path.join(ROOT, ".work", f"tlc-{os.getpid()}-{spec.replace('.', '_')}")
    shutil.rmtree(work, ignore_errors=True)
    os.makedirs(work)
    try:
        src = os.path.join(ROOT, "specs", spec)
        shutil.copy(src, work)
        cfgsrc = os.path.join(ROOT, "specs", cfg or spec.replace(".tla", ".cfg"))
        text = open(cfgsrc).read()
        for k, v in (constants or {}).items():
            text = re.sub(rf"^{k} = .*$", f"{k} = {v}", text, flags=re.M)
        with open(os.path.join(work, spec.replace(".tla", ".cfg")), "w") as f:
            f.write(text)
        cmd = ["tlc", "-workers", "1", "-noGenerateSpecTE", "-metadir", os.path.join(work, "meta"), "-dump", "dot,actionlabels", os.path.join(work, "g.dot")]
        if deadlock_ok:
            cmd.append("-deadlock")
        cmd.append(spec)
        r = subprocess.run(cmd, cwd=work, capture_output=True, text=True, timeout=timeout)
        out = r.stdout + r.stderr
        if "Invariant" in out and "is violated" in out or "Error:" in out:
            raise RuntimeError("TLC reports an error in the model:\n" + out[-3000:])
        m = re.search(r"(\d+) states generated, (\d+) distinct states found", out)
        stats = {"generated": int(m.group(1)), "distinct": int(m.group(2))} if m else {}
        dot = open(os.path.join(work, "g.dot")).read()
    finally:
        shutil.rmtree(work, ignore_errors=True)
    nodes = {}
    edges = []
    for m in re.finditer(r'^(-?\d+) \[label="(.*?)"(.*)\]', dot, re.M):
        nodes[m.group(1)] = m.group(2).replace("\\n", "\n").replace('\\"', '"')
    for m in re.finditer(r'^(-?\d+) -> (-?\d+) \[label="(.*?)"', dot, re.M):
        edges.append((m.group(1), m.group(2), m.group(3).replace('\\"', '"')))
    init = [m.group(1) for m in re.finditer(r'^(-?\d+) \[label=".*?",style = filled\]', dot, re.M)]
    if not init:
        init = [k for k in nodes if k not in {t for _, t, _ in edges}] or list(nodes)[:1]
    return Graph(nodes, edges, init, stats)
