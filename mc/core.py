"""Core of the /verif machinery: statistics, parallel sharding, backend switch, seams.

Every sub-check is a function ``fn(ctx) -> Stats``.  Enumerations are sharded
deterministically over a process pool; each shard returns a Stats which the
runner merges.  Nothing here samples: shards partition a finite ordered space.
"""
from __future__ import annotations

import collections
import contextlib
import functools
import json
import os
import sys
import time
from concurrent.futures import ProcessPoolExecutor

MAX_KEPT_PER_KEY = 4
MAX_SAMPLES = 8


def jsonable(x, depth=0):
    """Turn an arbitrary case description into something json.dump accepts."""
    if depth > 8:
        return repr(x)[:200]
    if x is None or isinstance(x, (bool, str)):
        return x
    if isinstance(x, int):
        return x if abs(x) < 2**53 else hex(x)
    if isinstance(x, float):
        return x
    if isinstance(x, (bytes, bytearray, memoryview)):
        return "hex:" + bytes(x).hex()
    if isinstance(x, dict):
        return {str(k): jsonable(v, depth + 1) for k, v in x.items()}
    if isinstance(x, (list, tuple, set, frozenset)):
        return [jsonable(v, depth + 1) for v in x]
    return repr(x)[:300]


class Stats:
    """What one sub-check (or one shard of it) covered and found."""

    def __init__(self):
        self.evals = 0          # cases executed against the implementation
        self.nontrivial = 0     # distinct cases non-trivial by the sub-check's rule
        self.states = 0         # E2/E4: distinct canonical states
        self.transitions = 0    # E2/E4: transitions executed on the implementation
        self.traces = 0         # E4: model edges/traces replayed against the implementation
        self.outcomes = collections.Counter()   # observed outcome classes
        self.viol = {}          # key -> {"count": n, "cases": [...]}
        self.samples = []
        self.notes = {}         # free-form measured facts (bounds, caps, seams)
        self.caps = []          # caps hit (empty => exhaustive within the stated bound)

    def violation(self, key, case, observed=None, expected=None, sub=None):
        ent = self.viol.setdefault(key, {"count": 0, "cases": []})
        ent["count"] += 1
        if len(ent["cases"]) < MAX_KEPT_PER_KEY:
            ent["cases"].append({"sub": sub, "case": jsonable(case),
                                 "observed": jsonable(observed), "expected": jsonable(expected)})

    def sample(self, case):
        if len(self.samples) < MAX_SAMPLES:
            self.samples.append(jsonable(case))

    def merge(self, other: "Stats"):
        self.evals += other.evals
        self.nontrivial += other.nontrivial
        self.states += other.states
        self.transitions += other.transitions
        self.traces += other.traces
        self.outcomes.update(other.outcomes)
        for k, v in other.viol.items():
            ent = self.viol.setdefault(k, {"count": 0, "cases": []})
            ent["count"] += v["count"]
            for c in v["cases"]:
                if len(ent["cases"]) < MAX_KEPT_PER_KEY:
                    ent["cases"].append(c)
        for s in other.samples:
            if len(self.samples) < MAX_SAMPLES:
                self.samples.append(s)
        for k, v in other.notes.items():
            if isinstance(v, (int, float)) and not isinstance(v, bool) and isinstance(self.notes.get(k), (int, float)):
                self.notes[k] += v
            elif isinstance(v, dict) and isinstance(self.notes.get(k), dict):
                for kk, vv in v.items():
                    if isinstance(vv, (int, float)) and isinstance(self.notes[k].get(kk), (int, float)):
                        self.notes[k][kk] += vv
                    else:
                        self.notes[k].setdefault(kk, vv)
            else:
                self.notes.setdefault(k, v)
        for c in other.caps:
            if c not in self.caps:
                self.caps.append(c)
        return self


class HarnessError(Exception):
    """The machinery itself is broken (model gate failed, replay diverged...): exit 2, never a VIOLATION."""


class Ctx:
    def __init__(self, prop, tier, seed, workers=None, only=None):
        self.prop = prop
        self.tier = tier
        self.seed = seed
        self.quick = tier == "quick"
        self.workers = workers or int(os.environ.get("VERIF_WORKERS", "0")) or min(16, os.cpu_count() or 1)
        self.only = only
        self._pool = None

    def pick(self, quick, thorough):
        return quick if self.quick else thorough

    def pool(self):
        if self._pool is None:
            self._pool = ProcessPoolExecutor(max_workers=self.workers)
        return self._pool

    def pmap(self, fn, shards, chunksize=1):
        """Run fn(shard) for every shard on the pool; merge the Stats."""
        shards = list(shards)
        total = Stats()
        call = functools.partial(guarded_call, fn)
        if self.workers <= 1 or len(shards) <= 1:
            for sh in shards:
                total.merge(call(sh))
            return total
        for st in self.pool().map(call, shards, chunksize=chunksize):
            total.merge(st)
        return total

    def close(self):
        if self._pool is not None:
            self._pool.shutdown(wait=True, cancel_futures=True)
            self._pool = None


def guarded_call(fn, arg):
    """fn(arg), except that a library contract error escaping the harness becomes a violation instead of a crash.

    Every harness calls the library only with inputs it has established as honest on the unchanged tree (a refusal it
    expects is caught where it is expected), so a contract error that reaches this frame is the library refusing an
    honest call: the property-relevant event, reported with the harness line it escaped from.  Anything else (a bug of
    the harness, a foreign exception the sub-check did not classify) still propagates and ends the run with exit 2."""
    try:
        return fn(arg)
    except lib_errors() as e:
        import traceback
        site = "?"
        for fr in traceback.extract_tb(e.__traceback__):
            if "/checks/" in fr.filename:
                site = f"{os.path.basename(fr.filename)}:{fr.name}"
        prop = fn.__module__.rsplit(".", 1)[-1].upper()[:3] if getattr(fn, "__module__", "").startswith("checks.") else "C??"
        st = Stats()
        st.evals += 1
        st.violation(f"{prop}/library-refuses-an-honest-call/{site}", {"error": repr(e)[:200]}, "contract error escaped the harness", "an answer")
        return st
    except Exception as e:  # noqa: BLE001
        # a foreign exception whose innermost relevant frame is the library's own code is the library failing under an
        # honest call; one raised by harness code is a harness bug and still ends the run (exit 2)
        import traceback
        frames = traceback.extract_tb(e.__traceback__)
        owner, site, where = None, "?", "?"
        for fr in frames:
            if "/checks/" in fr.filename or "/verif/mc/" in fr.filename or "/verif/models/" in fr.filename:
                site = f"{os.path.basename(fr.filename)}:{fr.name}"
        for fr in reversed(frames):
            if "/btclib/" in fr.filename:
                owner, where = "library", f"{os.path.basename(fr.filename)}:{fr.name}"
                break
            if "/verif/" in fr.filename:
                owner = "harness"
                break
        if owner != "library":
            raise
        prop = fn.__module__.rsplit(".", 1)[-1].upper()[:3] if getattr(fn, "__module__", "").startswith("checks.") else "C??"
        st = Stats()
        st.evals += 1
        st.violation(f"{prop}/library-raises-a-foreign-exception/{site}", {"error": repr(e)[:200], "raised_in": where}, type(e).__name__, "an answer or a library exception")
        return st


def shard_round_robin(items, nshards):
    items = list(items)
    nshards = max(1, min(nshards, len(items)))
    return [items[i::nshards] for i in range(nshards)]


@contextlib.contextmanager
def backend(serving: bool):
    """Run a block with the libsecp256k1 bindings serving or switched off."""
    from btclib.curves import curve as _curve

    was = _curve.is_libsecp256k1_serving()
    _curve.set_libsecp256k1_serving(serving=serving)
    try:
        yield
    finally:
        _curve.set_libsecp256k1_serving(serving=was)


@contextlib.contextmanager
def rebound(obj, name, value):
    """Take a seam: rebind obj.name for the duration of the block."""
    old = getattr(obj, name)
    setattr(obj, name, value)
    try:
        yield
    finally:
        setattr(obj, name, old)


def lib_errors():
    from btclib.exceptions import BTClibRuntimeError, BTClibTypeError, BTClibValueError

    return (BTClibValueError, BTClibTypeError, BTClibRuntimeError)


def outcome(fn, *a, **kw):
    """('ok', value) or ('exc', ExceptionClassName)."""
    try:
        return ("ok", fn(*a, **kw))
    except Exception as e:  # noqa: BLE001 - the class is the observation
        return ("exc", type(e).__name__)
