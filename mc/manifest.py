"""Regenerate MANIFEST.json from the check modules present (python -m mc.manifest)."""
import importlib
import json
import os
import sys

ROOT = os.path.dirname(os.path.dirname(os.path.abspath(__file__)))
sys.path.insert(0, ROOT)
sys.path.insert(0, os.environ.get("VERIF_REPO", "/repo"))

BASELINE_OFF = ("cd /repo && /venv/bin/python -m pytest -ra -q -p no:cacheprovider --timeout=900 "
                "--continue-on-collection-errors")


def main():
    props = [json.loads(l) for l in open(os.path.join(ROOT, "properties.jsonl"))]
    checks, na = [], []
    for p in props:
        pid = p["id"]
        path = os.path.join(ROOT, "checks", pid.lower() + ".py")
        if not os.path.exists(path):
            na.append({"property_id": pid, "reason": "no check registered yet in this tree: the exhaustive check designed in DESIGN.md section 3 is not built"})
            continue
        mod = importlib.import_module("checks." + pid.lower())
        meta = getattr(mod, "META", {})
        checks.append({
            "property_id": pid,
            "quick_cmd": f"./check {pid} --tier quick",
            "thorough_cmd": f"./check {pid} --tier thorough",
            "evidence_file": f"/verif/evidence/{pid}.json",
            "replay_cmd_template": f"./check {pid} --replay {{path}}",
            "engine": meta.get("engine", "E1 bounded-exhaustive enumeration vs reference model"),
            "level_claimed": {
                "category": mod.LEVEL,
                "text": meta.get("text", mod.RULE),
                "design_ref": f"DESIGN.md section 3, {pid}",
            },
            "level_note": meta.get("note", "; ".join(getattr(mod, "ASSUMPTIONS", []))),
            "technique": meta.get("technique", "model checking: bounded-exhaustive enumeration of inputs/histories against a reference model"),
        })
    man = {
        "version": 1,
        "setup_cmd": "cd /verif && ./setup.sh",
        "hooks": {
            "guard": "BTCLIB_VERIF",
            "enable": "none needed: every seam is taken from the harness side by rebinding module attributes at run time; /repo is imported from its working tree (editable install)",
            "baseline_off_cmd": BASELINE_OFF,
            "source_commits": [],
            "add_only": True,
        },
        "engines": [
            {"name": "E1", "path": "/verif/mc/core.py", "serves_properties": [c["property_id"] for c in checks],
             "kind_free_text": "bounded-exhaustive input/environment enumeration against independent reference models, sharded over a process pool"},
            {"name": "E2", "path": "/verif/mc/bfs.py", "serves_properties": ["C01", "C07", "C08", "C10", "C11", "C20"],
             "kind_free_text": "explicit-state BFS: histories replayed on fresh real objects, canonical state hashing, invariant + model comparison per transition"},
            {"name": "E3", "path": "/verif/mc/sched.py", "serves_properties": ["C20"],
             "kind_free_text": "cooperative scheduler over real threads, preemption-bounded DFS of interleavings at audited shared-state access points"},
            {"name": "E4", "path": "/verif/mc/tlc.py", "serves_properties": ["C16", "C20"],
             "kind_free_text": "TLA+ model explored by TLC; every edge of the dumped state graph replayed on the implementation"},
        ],
        "checks": checks,
        "not_applicable": na,
        "notes": "All checks: ./check <ID> --tier quick|thorough; evidence in /verif/evidence/<ID>.json; findings in /verif/known_findings.json. See DESIGN.md.",
    }
    with open(os.path.join(ROOT, "MANIFEST.json"), "w") as f:
        json.dump(man, f, indent=1)
        f.write("\n")
    print("checks:", [c["property_id"] for c in checks], "not_applicable:", [n["property_id"] for n in na])


if __name__ == "__main__":
    main()
