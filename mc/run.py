"""Runner: ./check Cxx [--tier quick|thorough] [--sub name] [--replay path]

Exit 0: the property held on everything explored (KNOWN-FINDING lines allowed).
Exit 1: at least one violation not listed in known_findings.json; prints
        ``VIOLATION property=<id> replay=<path>`` for each.
Exit 2: the machinery is broken (model gate failed, evidence invalid, ...).
"""
from __future__ import annotations

import argparse
import fnmatch
import hashlib
import importlib
import json
import os
import subprocess
import sys
import time
import traceback

ROOT = os.path.dirname(os.path.dirname(os.path.abspath(__file__)))
REPO = os.environ.get("VERIF_REPO", "/repo")
if REPO not in sys.path:
    sys.path.insert(0, REPO)
if ROOT not in sys.path:
    sys.path.insert(0, ROOT)

from mc.core import Ctx, HarnessError, Stats, guarded_call, jsonable  # noqa: E402

EVIDENCE_SCHEMA = "/root/.vp/EVIDENCE.schema.json"


def load_known(prop):
    path = os.path.join(ROOT, "known_findings.json")
    if not os.path.exists(path):
        return []
    with open(path) as f:
        data = json.load(f)
    return [e for e in data.get("findings", []) if e.get("property") == prop]


def match_known(key, known):
    for e in known:
        if e.get("status") != "known":
            continue  # "fixed" entries suppress nothing
        pat = e["key"]
        if key == pat or fnmatch.fnmatchcase(key, pat):
            return e
    return None


def write_replay(prop, key, rec):
    os.makedirs(os.path.join(ROOT, "replays"), exist_ok=True)
    blob = json.dumps({"property": prop, "key": key, **rec}, sort_keys=True, indent=1)
    h = hashlib.sha256(blob.encode()).hexdigest()[:12]
    path = os.path.join(ROOT, "replays", f"{prop}-{h}.json")
    with open(path, "w") as f:
        f.write(blob)
    return path


def validate_evidence(path):
    """Validate with jsonschema from the tooling venv (not installed in /venv)."""
    code = (
        "import json,sys,jsonschema;"
        "s=json.load(open(sys.argv[1]));d=json.load(open(sys.argv[2]));"
        "jsonschema.Draft202012Validator(s).validate(d)"
    )
    if not os.path.exists(EVIDENCE_SCHEMA):
        return True, "schema file absent; not validated"
    for py in ("python3-vt", "/opt/veriftools/pyvenv/bin/python"):
        try:
            r = subprocess.run([py, "-c", code, EVIDENCE_SCHEMA, path], capture_output=True, text=True, timeout=120)
        except (FileNotFoundError, subprocess.TimeoutExpired):
            continue
        return r.returncode == 0, r.stderr[-2000:]
    return True, "no validator interpreter; not validated"


def run_replay(mod, path):
    with open(path) as f:
        rec = json.load(f)
    sub = rec.get("sub")
    fn = getattr(mod, "REPLAY", {}).get(sub)
    ctx = Ctx(mod.PROPERTY, "quick", int(os.environ.get("VERIF_SEED", "0")), workers=1)
    if fn is not None:
        st = fn(rec["case"])
    else:
        subs = {s[0]: s[1] for s in mod.SUBS}
        if sub not in subs:
            raise HarnessError(f"unknown sub-check {sub!r} in replay file")
        st = subs[sub](ctx)
    ctx.close()
    hit = [k for k in st.viol if k == rec.get("key")] or list(st.viol)
    if hit:
        print(f"VIOLATION property={mod.PROPERTY} replay={path}")
        for k in hit[:5]:
            print("  key:", k, json.dumps(st.viol[k]["cases"][:1])[:600])
        return 1
    print(f"replay {path}: the recorded case no longer violates {mod.PROPERTY}")
    return 0


def main(argv=None):
    ap = argparse.ArgumentParser()
    ap.add_argument("prop")
    ap.add_argument("--tier", default=os.environ.get("VERIF_TIER", "quick"), choices=["quick", "thorough"])
    ap.add_argument("--sub", action="append")
    ap.add_argument("--replay")
    ap.add_argument("--workers", type=int, default=0)
    ap.add_argument("--no-evidence", action="store_true")
    args = ap.parse_args(argv)
    prop = args.prop.upper()
    seed = int(os.environ.get("VERIF_SEED", "0") or 0)
    t0 = time.time()
    try:
        mod = importlib.import_module(f"checks.{prop.lower()}")
    except Exception:
        traceback.print_exc()
        print(f"HARNESS-ERROR property={prop} cannot import the check module (or btclib itself)")
        return 2
    if args.replay:
        try:
            return run_replay(mod, args.replay)
        except HarnessError as e:
            print("HARNESS-ERROR", e)
            return 2

    ctx = Ctx(prop, args.tier, seed, workers=args.workers or None, only=args.sub)
    total = Stats()
    per_sub = {}
    harness_error = None
    try:
        gate = getattr(mod, "gate", None)
        if gate is not None:
            g0 = time.time()
            gate_info = gate(ctx)
            per_sub["_model_gate"] = {"result": jsonable(gate_info), "wall_s": round(time.time() - g0, 2)}
        for ent in mod.SUBS:
            name, fn = ent[0], ent[1]
            opts = ent[2] if len(ent) > 2 else {}
            if args.sub and name not in args.sub:
                continue
            if args.tier not in opts.get("tiers", ("quick", "thorough")):
                continue
            s0 = time.time()
            st = guarded_call(fn, ctx)
            dt = time.time() - s0
            for v in st.viol.values():
                for c in v["cases"]:
                    if c.get("sub") is None:
                        c["sub"] = name
            per_sub[name] = {
                "evaluations": st.evals, "distinct_nontrivial": st.nontrivial,
                "states": st.states, "transitions": st.transitions, "traces_replayed": st.traces,
                "distinct_outcomes": len(st.outcomes),
                "outcomes": {str(k): v for k, v in st.outcomes.most_common(12)},
                "violation_keys": {k: v["count"] for k, v in st.viol.items()},
                "caps_hit": st.caps, "notes": jsonable(st.notes), "wall_s": round(dt, 2),
                "samples": st.samples[:3],
            }
            print(f"[{prop}/{name}] evals={st.evals} nontrivial={st.nontrivial} states={st.states} "
                  f"transitions={st.transitions} outcomes={len(st.outcomes)} viol_keys={len(st.viol)} "
                  f"caps={st.caps} {dt:.1f}s", flush=True)
            total.merge(st)
    except HarnessError as e:
        harness_error = str(e)
    except Exception:
        harness_error = traceback.format_exc()
    finally:
        ctx.close()

    if harness_error:
        print(f"HARNESS-ERROR property={prop}\n{harness_error}")
        return 2

    known = load_known(prop)
    new, listed = {}, {}
    for key, v in total.viol.items():
        e = match_known(key, known)
        (listed if e else new)[key] = (v, e)
    for key, (v, e) in sorted(listed.items()):
        print(f"KNOWN-FINDING: property={prop} {e['key']} ({v['count']} case(s)) {e.get('what', '')}")
    rc = 0
    replay_paths = []
    for key, (v, _) in sorted(new.items()):
        rc = 1
        rec = dict(v["cases"][0])
        rec["count"] = v["count"]
        rec["how"] = f"./check {prop} --replay <this file>"
        path = write_replay(prop, key, rec)
        replay_paths.append(path)
        print(f"VIOLATION property={prop} replay={path}")
        print(f"  key={key} count={v['count']} first={json.dumps(v['cases'][0])[:700]}")

    wall = time.time() - t0
    level = getattr(mod, "LEVEL", "exploration")
    cov = {
        "evaluations": total.evals,
        "distinct_nontrivial": total.nontrivial,
        "rule": getattr(mod, "RULE", ""),
        "samples": total.samples[:8] or [{"note": "no sample recorded"}],
        "exhaustive": not total.caps,
        "caps_hit": total.caps,
        "distinct_outcomes": len(total.outcomes),
        "sub_checks": per_sub,
        "known_findings_observed": sorted(e["key"] for _, e in listed.values()),
        "new_violation_keys": sorted(new),
        "repo": REPO,
    }
    if level == "model_checking":
        cov["states"] = total.states
        cov["transitions"] = total.transitions
        cov["traces_validated_against_impl"] = total.traces
    ev = {
        "property_id": prop, "tier": args.tier, "seed": seed, "level": level,
        "coverage": cov, "assumptions": list(getattr(mod, "ASSUMPTIONS", [])),
        "wall_s": round(wall, 2), "violations": sum(v["count"] for v, _ in new.values()),
    }
    if not args.no_evidence and not args.sub:
        os.makedirs(os.path.join(ROOT, "evidence"), exist_ok=True)
        path = os.path.join(ROOT, "evidence", f"{prop}.json")
        with open(path, "w") as f:
            json.dump(ev, f, indent=1, sort_keys=True)
            f.write("\n")
        ok, msg = validate_evidence(path)
        if not ok:
            print(f"HARNESS-ERROR property={prop} evidence does not validate: {msg}")
            return 2
    print(f"[{prop}] tier={args.tier} seed={seed} evals={total.evals} nontrivial={total.nontrivial} "
          f"new_violations={len(new)} known={len(listed)} wall={wall:.1f}s")
    return rc


if __name__ == "__main__":
    sys.exit(main())
