"""E3: a cooperative scheduler over real threads, with preemption-bounded exhaustive exploration.

Exactly one thread runs between two scheduling points (a baton of per-thread semaphores; the
interpreter's own switch interval is raised so that it never switches inside a slice).  Scheduling
points are line events of sys.settrace inside *flagged* code objects: those a preliminary
ownership audit found touching a mutable container reachable from module state, plus the ones the
harness names (functions that read the backend flag, memoised functions).  Exploration is the
iterative-context-bounding DFS of Musuvathi & Qadeer: replay a prefix, then default choice (keep
running the current thread), branch on every alternative whose preemption cost stays within the
bound.  A divergence while replaying a prefix is a hard harness error."""
from __future__ import annotations

import sys
import threading
import types

MUTABLE = (list, dict, set, bytearray)


class ReplayDivergence(RuntimeError):
    pass


class Sched:
    def __init__(self, bodies, flagged, horizon=4000):
        self.bodies = bodies
        self.flagged = flagged
        self.sems = [threading.Semaphore(0) for _ in bodies]
        self.ctrl = threading.Semaphore(0)
        self.done = [False] * len(bodies)
        self.results = [None] * len(bodies)
        self.cur = None
        self.horizon = horizon
        self.points_hit = 0

    def _tracer(self, frame, event, arg):
        if frame.f_code in self.flagged:
            return self._local
        return None

    def _local(self, frame, event, arg):
        if event == "line":
            self.point()
        return self._local

    def point(self):
        i = self.cur
        self.points_hit += 1
        self.ctrl.release()
        self.sems[i].acquire()

    def _run(self, i):
        self.sems[i].acquire()
        sys.settrace(self._tracer)
        try:
            self.results[i] = ("ok", self.bodies[i]())
        except Exception as e:  # noqa: BLE001 - the class is the observation
            self.results[i] = ("exc", type(e).__name__, str(e)[:80])
        finally:
            sys.settrace(None)
            self.done[i] = True
            self.ctrl.release()

    def execute(self, prefix):
        ths = [threading.Thread(target=self._run, args=(i,), daemon=True) for i in range(len(self.bodies))]
        for t in ths:
            t.start()
        choices, points = [], []
        last = None
        step = 0
        while not all(self.done):
            enabled = [i for i in range(len(self.bodies)) if not self.done[i]]
            if last in enabled:
                enabled = [last] + [i for i in enabled if i != last]
            c = prefix[step] if step < len(prefix) else 0
            if c >= len(enabled):
                raise ReplayDivergence(f"choice {c} of {len(enabled)} enabled at step {step}")
            chosen = enabled[c]
            points.append((tuple(enabled), last in enabled))
            choices.append(c)
            self.cur = chosen
            last = chosen
            step += 1
            if step > self.horizon:
                raise RuntimeError("horizon exceeded: a body does not terminate under this schedule (livelock?)")
            self.sems[chosen].release()
            self.ctrl.acquire()
        for t in ths:
            t.join()
        return choices, points, list(self.results)


def explore(make, bound, check, limit=200000):
    """Every schedule with at most `bound` preemptions.  -> (executions, failing [(choices, results)], capped?)"""
    n = 0
    fails = []
    stack = [[]]
    capped = False
    while stack:
        prefix = stack.pop()
        s = make()
        choices, points, results = s.execute(prefix)
        n += 1
        if not check(results):
            fails.append((choices, results))
        if n >= limit:
            capped = True
            break
        pre = 0
        precount = []
        for i, (en, still) in enumerate(points):
            precount.append(pre)
            if choices[i] != 0 and still:
                pre += 1
        for i in range(len(prefix), len(points)):
            en, still = points[i]
            for alt in range(1, len(en)):
                cost = precount[i] + (1 if still else 0)
                if cost > bound:
                    continue
                stack.append(choices[:i] + [alt])
    return n, fails, capped


def shared_container_ids(module_prefix="btclib"):
    """ids of every mutable container reachable (one level deep) from the globals, class dicts, function defaults
    and closures of the loaded modules of the library."""
    ids = {}
    for name, mod in list(sys.modules.items()):
        if mod is None or not (name == module_prefix or name.startswith(module_prefix + ".")):
            continue
        for gname, v in list(vars(mod).items()):
            _collect(ids, v, f"{name}.{gname}")
            if isinstance(v, type) and getattr(v, "__module__", "") == name:
                for aname, av in list(vars(v).items()):
                    _collect(ids, av, f"{name}.{gname}.{aname}")
            if isinstance(v, types.FunctionType):
                for d in (v.__defaults__ or ()):
                    _collect(ids, d, f"{name}.{gname}.<default>")
                for cell in (v.__closure__ or ()):
                    try:
                        _collect(ids, cell.cell_contents, f"{name}.{gname}.<closure>")
                    except ValueError:
                        pass
    return ids


def _collect(ids, v, where):
    if isinstance(v, MUTABLE):
        ids.setdefault(id(v), where)
        if isinstance(v, dict):
            for vv in list(v.values())[:64]:
                if isinstance(vv, MUTABLE):
                    ids.setdefault(id(vv), where + "[...]")
        elif isinstance(v, list):
            for vv in v[:64]:
                if isinstance(vv, MUTABLE):
                    ids.setdefault(id(vv), where + "[...]")


def audit(fn, shared_ids, module_prefix="btclib"):
    """Run fn alone under a line tracer; return {code object: where} for frames of the library that alias a shared
    container through a local or name one through a global."""
    found = {}

    def tr(frame, event, arg):
        if not frame.f_globals.get("__name__", "").startswith(module_prefix):
            return None

        def loc(frame, event, arg):
            if event == "line":
                for v in frame.f_locals.values():
                    if id(v) in shared_ids:
                        found.setdefault(frame.f_code, shared_ids[id(v)])
                for nm in frame.f_code.co_names:
                    if id(frame.f_globals.get(nm)) in shared_ids:
                        found.setdefault(frame.f_code, shared_ids[id(frame.f_globals.get(nm))])
            return loc
        return loc

    sys.settrace(tr)
    try:
        fn()
    finally:
        sys.settrace(None)
    return found
