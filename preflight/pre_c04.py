from btclib.curves import mult, double_mult_var, multi_mult_var, secp256k1 as ec, bytes_from_point
from btclib.curves import curve
from btclib import silent_payments as sp
from btclib.tx import OutPoint
G=ec.G
cases={
 "mult(2,(Gx+p,Gy))": lambda: mult(2,(G[0]+ec.p,G[1])),
 "mult(2,(Gx-p,Gy))": lambda: mult(2,(G[0]-ec.p,G[1])),
 "mult(2,(Gx,Gy+p))": lambda: mult(2,(G[0],G[1]+ec.p)),
 "double_mult(1,(Gx+p,Gy),1,G)": lambda: double_mult_var(1,(G[0]+ec.p,G[1]),1,G),
 "bytes_from_point((Gx+p,Gy))": lambda: bytes_from_point((G[0]+ec.p,G[1])),
 "mult(2,(Gx+2^256*p... huge": lambda: mult(2,(G[0]+ec.p*2**10,G[1])),
}
def obs(f):
    try: return ('ok',f())
    except Exception as e: return ('exc',type(e).__name__,str(e)[:60])
for name,f in cases.items():
    curve.set_libsecp256k1_serving(serving=True); a=obs(f)
    curve.set_libsecp256k1_serving(serving=False); b=obs(f)
    curve.set_libsecp256k1_serving(serving=True)
    print(name, "SAME" if a==b else "DIFF", a if a[0]=='exc' else 'ok', b if b[0]=='exc' else 'ok')
# scan_transaction_outputs with an off-curve x-only output
b_scan=11; B_spend=mult(12); A=mult(5)
spk_p2wpkh=bytes.fromhex("0014")+bytes(20)
offcurve=(5).to_bytes(32,'big')  # x=5 is not on secp256k1? check
from btclib.curves.curve import _is_x_coordinate_var
xs=[x for x in range(1,50) if not _is_x_coordinate_var(x,ec)]
out=xs[0].to_bytes(32,'big')
def scan(): return sp.scan_transaction_outputs(b_scan,B_spend,[OutPoint(b"\x01"*32,0)],[(A,spk_p2wpkh)],[out])
curve.set_libsecp256k1_serving(serving=True); a=obs(scan)
curve.set_libsecp256k1_serving(serving=False); b=obs(scan)
curve.set_libsecp256k1_serving(serving=True)
print("scan_transaction_outputs(off-curve output)", "SAME" if a==b else "DIFF", a, b)
