"""Throw-away pre-flights: signer/nonce life cycles (C20.a/b), size identities (C18), BIP39 substitutions (C13), merkle proofs (C17)."""
import itertools, collections, hashlib, time
from btclib.exceptions import BTClibValueError, BTClibTypeError, BTClibRuntimeError
CONTRACT=(BTClibValueError,BTClibTypeError,BTClibRuntimeError)
bad=collections.Counter(); first={}; ev=collections.Counter()
def note(k,i): bad[k]+=1; first.setdefault(k,i)
# ---------------- C20.b signer life cycles
from btclib.curves import curve, secp256k1, Curve
from btclib.ecc import dsa, ssa, musig2
mh=hashlib.sha256(b"m").digest()
toy=Curve(23,5,1,(0,1),31,1,False)
def lifecycle(name,make,ops,kill):
    for seq in itertools.product(list(ops)+[kill],repeat=3):
        obj=make(); dead=False
        for op in seq:
            ev['lifecycle']+=1
            if op==kill: getattr(obj,kill)(); dead=True; continue
            try: r=ops[op](obj); ok=True
            except CONTRACT: ok=False
            except Exception as e: note(name+':foreign-exception',(seq,op,type(e).__name__,str(e)[:60])); ok=False
            if dead and ok: note(name+':signs-after-'+kill,(seq,op))
            if not dead and not ok: note(name+':refuses-while-live',(seq,op))
for serving in (True,False):
    curve.set_libsecp256k1_serving(serving=serving)
    lifecycle(f"dsa.Signer[{serving}]",lambda: dsa.Signer(5),{"sign_":lambda s:s.sign_(mh),"sign":lambda s:s.sign(b"x")},"wipe")
    lifecycle(f"ssa.Signer[{serving}]",lambda: ssa.Signer(5),{"sign_":lambda s:s.sign_(mh,bytes(32)),"sign":lambda s:s.sign(b"x",bytes(32))},"wipe")
curve.set_libsecp256k1_serving(serving=True)
lifecycle("dsa.Signer[toy]",lambda: dsa.Signer(5,toy),{"sign_":lambda s:s.sign_(mh)},"wipe")
from btclib.psbt_signer import SoftwareSigner
from btclib.bip32 import rootxprv_from_seed, derive
from btclib.bip32.bip32 import xpub_from_xprv_, fingerprint, BIP32KeyData
from btclib.bip32.key_origin import BIP32KeyOrigin
from btclib.psbt_signer_contract import unsignable_psbt
x=rootxprv_from_seed(b"\x01"*16); pub=xpub_from_xprv_(BIP32KeyData.b58decode(derive(x,"m/0"))).key; org=BIP32KeyOrigin(fingerprint(x),"m/0")
def some(r):
    if r is None: raise BTClibValueError("declined")
    return r
lifecycle("SoftwareSigner",lambda: SoftwareSigner(x),{
  "sign_ecdsa":lambda s:some(s.sign_ecdsa(pub,org,mh)),
  "sign_schnorr":lambda s:some(s.sign_schnorr(pub[1:],org,mh,b"")),
  "sign_schnorr_script_path":lambda s:some(s.sign_schnorr_script_path(pub[1:],org,mh,bytes(32))),
  "sign_message":lambda s:s.sign_message(b"hello","m/0"),
  "xpub":lambda s:s.xpub("m/0")},"close")
# ---------------- C20.a secret nonce
q1,q2=3,4; pk1,pk2=musig2.individual_pub_key(q1),musig2.individual_pub_key(q2)
def session():
    sn1,pn1=musig2.nonce_gen_(bytes(32),q1,pk1); sn2,pn2=musig2.nonce_gen_(b"\x01"*32,q2,pk2)
    ctx=musig2.SessionContext(musig2.nonce_agg([pn1,pn2]),[pk1,pk2],[],[],bytes(32))
    badctx=musig2.SessionContext(bytes(66),[pk1,b"\x02"+bytes(32)],[],[],bytes(32))
    return sn1,ctx,badctx
OPS={"good":lambda sn,c,b: musig2.sign(sn,q1,c),"badctx":lambda sn,c,b: musig2.sign(sn,q1,b),"wrongkey":lambda sn,c,b: musig2.sign(sn,q2,c),"copycheck":lambda sn,c,b: bytes(sn)}
for seq in itertools.product(OPS,repeat=4):
    sn,c,b=session(); sigs=0
    for op in seq:
        ev['nonce']+=1
        try:
            r=OPS[op](sn,c,b)
            if op in ("good","badctx","wrongkey"): sigs+=1
        except CONTRACT: pass
        except Exception as e: note('nonce:foreign-exception',(seq,op,type(e).__name__,str(e)[:60]))
    if sigs>1: note('nonce-signed-twice',(seq,))
# ---------------- C18 size identities
from btclib.tx import Tx, TxIn, TxOut, OutPoint
from btclib.script.witness import Witness
t0=time.time()
LENS=[0,1,0xfc,0xfd,0xfe,0xffff,0x10000]
for nin,nout in ((1,1),(2,0),(0xfc,1),(0xfd,2),(1,0xfd)):
    for sl,wl,wc in itertools.product(LENS,[0,1,0xfd,0x10000],[0,1,0xfc,0xfd]):
        ev['size']+=1
        vin=[TxIn(OutPoint(bytes([1])*32,i),bytes(sl if i==0 else 0),0,Witness([bytes(wl)]*wc if i==0 else []),check_validity=False) for i in range(nin)]
        vout=[TxOut(1,bytes(sl if i==0 else 1),check_validity=False) for i in range(nout)]
        tx=Tx(2,0,vin,vout,check_validity=False)
        full=tx.serialize(True,check_validity=False); stripped=tx.serialize(False,check_validity=False)
        if tx.size!=len(full): note('tx.size',(nin,nout,sl,wl,wc,tx.size,len(full)))
        if tx.weight!=3*len(stripped)+len(full): note('tx.weight',(nin,nout,sl,wl,wc))
        if tx.vsize!=-(-tx.weight//4): note('tx.vsize',(nin,nout,sl,wl,wc))
        if tx.id!=hashlib.sha256(hashlib.sha256(stripped).digest()).digest()[::-1]: note('tx.id',(nin,nout,sl,wl,wc))
        if nin and nout:
            try:
                back=Tx.parse(full,check_validity=False)
                if back!=tx: note('tx.roundtrip',(nin,nout,sl,wl,wc))
            except CONTRACT as e: note('tx.parse-refuses-own',(nin,nout,sl,wl,wc,str(e)[:60]))
print("C18 sizes",round(time.time()-t0,1),"s")
# ---------------- C13 BIP39 single-word substitutions, all languages
from btclib.mnemonic import bip39
from btclib.mnemonic.mnemonic import WORDLISTS
def ref_ok(idx):
    bits="".join(f"{i:011b}" for i in idx); ent=len(bits)*32//33
    e=int(bits[:ent],2).to_bytes(ent//8,'big'); cs=bin(int.from_bytes(hashlib.sha256(e).digest(),'big'))[2:].zfill(256)[:len(bits)-ent]
    return bits[ent:]==cs
t0=time.time()
for lang in ("en","es","fr","it","ja","ko","pt","cs","zh","zh_tw","ru","tr"):
    try: wl=WORDLISTS.wordlist(lang)
    except Exception as e: print("lang",lang,"unavailable",e); continue
    for ent in (bytes(16), bytes(range(32))):
        m=bip39.mnemonic_from_entropy(ent,lang)
        back=bip39.entropy_from_mnemonic(m,lang)
        if int(back,2).to_bytes(len(ent),'big')!=ent: note('bip39-roundtrip',(lang,len(ent)))
        words=m.split(); idx=[wl.index(w) if w in wl else WORDLISTS.index(w,lang) for w in words]
        for pos in (0,len(words)//2,len(words)-1):
            for j in range(0,2048,1):
                if j==idx[pos]: continue
                ev['bip39-subst']+=1
                idx2=list(idx); idx2[pos]=j
                m2=("　" if lang=="ja" else " ").join(wl[i] for i in idx2)
                try: bip39.entropy_from_mnemonic(m2,lang); got=True
                except BTClibValueError: got=False
                if got!=ref_ok(idx2): note('bip39-checksum',(lang,pos,j,got))
print("C13 bip39",round(time.time()-t0,1),"s")
# ---------------- C17 merkle
from btclib.hashes import merkle_root_and_mutated_from_hashes, merkle_root_from_branch, hash256
from btclib.block import merkle_proof
def ref_root(hs):
    mutated=False; lvl=list(hs)
    while len(lvl)>1:
        for i in range(0,len(lvl)-1,2):
            if lvl[i]==lvl[i+1]: mutated=True
        if len(lvl)%2: lvl.append(lvl[-1])
        lvl=[hash256(lvl[i]+lvl[i+1]) for i in range(0,len(lvl),2)]
    return lvl[0],mutated
def ref_branch(hs,idx):
    br=[]; lvl=list(hs)
    while len(lvl)>1:
        if len(lvl)%2: lvl.append(lvl[-1])
        br.append(lvl[idx^1]); idx//=2
        lvl=[hash256(lvl[i]+lvl[i+1]) for i in range(0,len(lvl),2)]
    return br
A=[hash256(bytes([i])) for i in range(3)]
t0=time.time()
for k in range(1,8):
    for hs in itertools.product(A,repeat=k):
        ev['merkle']+=1
        r,mu=merkle_root_and_mutated_from_hashes(list(hs),hash256); rr,rm=ref_root(hs)
        if (r,mu)!=(rr,rm): note('merkle-root',(k,))
        if len(set(hs))==len(hs) or k<=3:
            for i in range(k):
                br=ref_branch(hs,i)
                try: got=merkle_root_from_branch(hs[i],br,i,hash256)
                except BTClibValueError as e: got=('refused',str(e)[:40])
                # a right child equal to its sibling is refused by design (CVE-2012-2459 guard)
                if got!=rr and not (isinstance(got,tuple) and rm): note('merkle-branch',(hs and k,i,got if isinstance(got,tuple) else got.hex()[:8]))
                for j in range(k+2):
                    if j==i: continue
                    ok=merkle_proof.verify(hs[i][::-1],[b[::-1] for b in br],j,rr[::-1])
                    # index j verifies only if it names the same leaf path (duplicated tail)
                    if ok and (j>=k or hs[j]!=hs[i]) and not rm and j<2**len(br): note('merkle-wrong-index-verifies',(k,i,j))
print("C17 merkle",round(time.time()-t0,1),"s")
print(dict(ev)); print("violation classes",len(bad))
for k,v in sorted(bad.items(),key=lambda kv:-kv[1]): print(v,k,str(first[k])[:260])
