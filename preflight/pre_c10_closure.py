"""Throw-away pre-flight: build -> update -> sign -> finalize -> extract -> engine accepts; committed-field tampering rejected."""
import itertools, collections, time, copy
from btclib.psbt_signer import SoftwareSigner, request_signatures
from btclib.descriptors import parse, add_checksum
from btclib.descriptors.descriptors import miniscript_solver
from btclib.psbt.psbt import Psbt, finalize, extract_tx
from btclib.script.engine import verify_transaction
from btclib.tx import Tx, TxIn, TxOut, OutPoint
from btclib.bip32 import rootxprv_from_seed
from btclib.exceptions import BTClibValueError, BTClibTypeError, BTClibRuntimeError
CONTRACT=(BTClibValueError,BTClibTypeError,BTClibRuntimeError)
bad=collections.Counter(); first={}; ev=collections.Counter()
def note(k,i): bad[k]+=1; first.setdefault(k,i)
root=rootxprv_from_seed(b"\x05"*32)
signer=SoftwareSigner(root)
fp=signer.master_fingerprint.hex()
def key(purpose,branch): return f"[{fp}/{purpose}h/0h/0h]{signer.xpub(f'm/{purpose}h/0h/0h')}/{branch}/*"
NUMS="50929b74c1a04954b78b4b6035e97a5e078a5a0f28ec96d547bfee9ace803ac0"
KINDS={
 "pkh":f"pkh({key(44,0)})","wpkh":f"wpkh({key(84,0)})","sh-wpkh":f"sh(wpkh({key(49,0)}))",
 "wsh-multi":f"wsh(multi(2,{key(48,0)},{key(48,1)}))","sh-multi":f"sh(multi(2,{key(45,0)},{key(45,1)}))","sh-wsh-multi":f"sh(wsh(sortedmulti(1,{key(48,2)},{key(48,3)})))",
 "tr-key":f"tr({key(86,0)})","tr-leaf":f"tr({NUMS},pk({key(86,1)}))","tr-key+leaf":f"tr({key(86,2)},pk({key(86,3)}))",
 "wsh-miniscript":f"wsh(and_v(v:pk({key(48,4)}),older(5)))",
}
HT={"ALL":1,"NONE":2,"SINGLE":3,"ALL|ACP":0x81,"NONE|ACP":0x82,"SINGLE|ACP":0x83,"DEFAULT":None}
def build(kinds,ht,seq=5,lock=0):
    descs=[parse(add_checksum(KINDS[k])) for k in kinds]
    prev_txs=[]; vin=[]
    for i,d in enumerate(descs):
        po=TxOut(100_000+i,d.script_pub_key(i))
        ptx=Tx(vin=[TxIn(OutPoint(bytes([i+1])*32,0))],vout=[TxOut(1,b"\x51"),po])
        prev_txs.append((ptx,po)); vin.append(TxIn(OutPoint(ptx.id,1),sequence=seq))
    vout=[TxOut(50_000,parse(add_checksum(KINDS["wpkh"])).script_pub_key(7+i)) for i in range(len(kinds))]
    tx=Tx(2,lock,vin,vout)
    psbt=Psbt.from_tx(tx)
    for i,(d,(ptx,po)) in enumerate(zip(descs,prev_txs)):
        psbt.inputs[i].non_witness_utxo=ptx
        if not kinds[i] in ("pkh","sh-multi"): psbt.inputs[i].witness_utxo=po
        psbt=d.update_psbt_input(psbt,i,i)
        if ht is not None and not (ht==None): psbt.inputs[i].sig_hash_type=ht
    return psbt,[po for _,po in prev_txs]
t0=time.time()
for kinds in [ (k,) for k in KINDS ]+list(itertools.combinations(KINDS,2))[:20]:
    for hname,ht in HT.items():
        if ht is None and not all(k.startswith("tr") for k in kinds): continue
        ev['pipelines']+=1
        try:
            psbt,prevouts=build(kinds,ht)
            signed=request_signatures(signer,psbt)
            final=finalize(signed,solver=miniscript_solver)
            tx=extract_tx(final)
        except CONTRACT as e: note('pipeline-refused',(kinds,hname,str(e)[:90])); continue
        except Exception as e: note('pipeline-foreign:'+type(e).__name__,(kinds,hname,str(e)[:90])); continue
        if final.tx.id!=psbt.tx.id: note('txid-changed',(kinds,hname))
        try: verify_transaction(prevouts,tx)
        except CONTRACT as e: note('engine-rejects-own',(kinds,hname,str(e)[:90])); continue
        # tamper: every output amount, output script byte, sequence, locktime, version, spent amount
        base=ht if ht is not None else 0
        sh=(base&3) if base else 1; acp=bool(base&0x80)
        def committed(field,idx):
            # is `field` committed by at least one input's signature? (all inputs use the same hash type here)
            if field in ("version","locktime"): return True
            if field=="out":  return sh==1 or (sh==3 and idx<len(kinds))      # SINGLE: input i commits to output i
            if field=="seq":  return True   # own sequence always committed by that input
            if field=="amount":
                k=kinds[idx]; return k not in ("pkh","sh-multi")   # legacy digests do not commit to the amount
        def tampered(mut):
            t=copy.deepcopy(tx); po=copy.deepcopy(prevouts); mut(t,po); return t,po
        cases=[]
        for o in range(len(tx.vout)):
            cases.append(("out",o,lambda t,po,o=o: t.vout.__setitem__(o,TxOut(t.vout[o].value-1,t.vout[o].script_pub_key))))
        for i in range(len(tx.vin)):
            cases.append(("seq",i,lambda t,po,i=i: setattr(t.vin[i],"sequence",t.vin[i].sequence+1)))
            cases.append(("amount",i,lambda t,po,i=i: po.__setitem__(i,TxOut(po[i].value+1,po[i].script_pub_key))))
        cases.append(("locktime",0,lambda t,po: setattr(t,"lock_time",t.lock_time+1)))
        cases.append(("version",0,lambda t,po: setattr(t,"version",3)))
        for field,idx,mut in cases:
            ev['tamper']+=1
            t,po=tampered(mut)
            try: verify_transaction(po,t,check_amounts=False); accepted=True
            except CONTRACT: accepted=False
            except Exception as e: note('tamper-foreign:'+type(e).__name__,(kinds,hname,field,str(e)[:60])); continue
            if accepted and committed(field,idx): note('tamper-accepted:'+field,(kinds,hname,idx))
print(dict(ev),round(time.time()-t0,1),"s; violation classes",len(bad))
for k,v in sorted(bad.items(),key=lambda kv:-kv[1]): print(v,k,str(first[k])[:300])
