"""Throw-away pre-flight: bech32 address acceptance vs the BIP173/350 reference, with re-checksummed payload mutations."""
import itertools, collections
from btclib import b32
from btclib.exceptions import BTClibValueError
CH="qpzry9x8gf2tvdw0s3jn54khce6mua7l"
def polymod(v):
    G=[0x3b6a57b2,0x26508e6d,0x1ea119fa,0x3d4233dd,0x2a1462b3]; c=1
    for x in v:
        b=c>>25; c=(c&0x1ffffff)<<5^x
        for i in range(5): c^=G[i] if (b>>i)&1 else 0
    return c
def hrpx(h): return [ord(x)>>5 for x in h]+[0]+[ord(x)&31 for x in h]
def enc(hrp,data,const):
    pm=polymod(hrpx(hrp)+data+[0]*6)^const
    return hrp+"1"+"".join(CH[d] for d in data+[(pm>>5*(5-i))&31 for i in range(6)])
def convertbits(data,f,t,pad=True):
    acc=bits=0; ret=[]; maxv=(1<<t)-1; max_acc=(1<<(f+t-1))-1
    for v in data:
        if v<0 or v>>f: return None
        acc=((acc<<f)|v)&max_acc; bits+=f
        while bits>=t: bits-=t; ret.append((acc>>bits)&maxv)
    if pad:
        if bits: ret.append((acc<<(t-bits))&maxv)
    elif bits>=f or ((acc<<(t-bits))&maxv): return None
    return ret
def ref_decode(hrp,addr):
    if any(ord(x)<33 or ord(x)>126 for x in addr) or (addr.lower()!=addr and addr.upper()!=addr): return None
    a=addr.lower(); pos=a.rfind('1')
    if pos<1 or pos+7>len(a) or len(a)>90: return None
    if any(x not in CH for x in a[pos+1:]): return None
    h=a[:pos]; data=[CH.find(x) for x in a[pos+1:]]
    const=polymod(hrpx(h)+data)
    if const not in (1,0x2bc830a3): return None
    spec=const; data=data[:-6]
    if h!=hrp or len(data)<1: return None
    dec=convertbits(data[1:],5,8,False)
    if dec is None or len(dec)<2 or len(dec)>40 or data[0]>16: return None
    if data[0]==0 and len(dec) not in (20,32): return None
    if (data[0]==0 and spec!=1) or (data[0]!=0 and spec!=0x2bc830a3): return None
    return data[0],bytes(dec)
bad=collections.Counter(); first={}; ev=0
def note(k,i): bad[k]+=1; first.setdefault(k,i)
def lib(addr):
    try:
        v,prog,net=b32.witness_from_address(addr); return v,prog
    except BTClibValueError: return None
    except Exception as e: return repr(e)
for hrp in ("bc","tb","bcrt"):
  for ver in range(17):
    for L in (2,3,5,19,20,21,31,32,33,39,40,41):
        prog=bytes((7*i+ver+L)%256 for i in range(L))
        data=[ver]+convertbits(prog,8,5)
        for const in (1,0x2bc830a3):
            variants={ "plain":data, "extra0":data+[0], "extra1":data+[1], "drop":data[:-1],
                       "padbit":data[:-1]+[data[-1]|1], "ver+1":[min(ver+1,31)]+data[1:], "ver31":[31]+data[1:] }
            for name,d in variants.items():
                s=enc(hrp,d,const); ev+=1
                for form in (s,s.upper(),s[:3]+s[3:].upper()):
                    exp=ref_decode(hrp,form); got=lib(form)
                    if got!=exp: note('bech32-'+name,(form,got,exp))
print("evals",ev,"violations",dict(bad))
for k,v in first.items(): print(k,str(v)[:300])
