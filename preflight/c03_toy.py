"""Throw-away pre-flight of the C03.a oracle on toy curves with p = 3 mod 4."""
import sys, time, collections
from hashlib import sha256
from btclib.curves import Curve
from btclib.ecc import ssa
from btclib.exceptions import BTClibValueError, BTClibRuntimeError
P=int(sys.argv[1])
def primes(P): return [p for p in range(3,P+1) if all(p%d for d in range(2,int(p**.5)+1))]
def pf(N):
    f=set(); m=N; d=2
    while d*d<=m:
        while m%d==0: f.add(d); m//=d
        d+=1
    if m>1: f.add(m)
    return f
def radd(P1,P2,p,a):
    if P1 is None: return P2
    if P2 is None: return P1
    x1,y1=P1; x2,y2=P2
    if x1==x2 and (y1+y2)%p==0: return None
    lam=((3*x1*x1+a)*pow(2*y1,-1,p) if P1==P2 else (y2-y1)*pow(x2-x1,-1,p))%p
    x3=(lam*lam-x1-x2)%p
    return x3,(lam*(x1-x3)-y1)%p
def rmul(m,Pt,p,a):
    R=None
    for _ in range(m): R=radd(R,Pt,p,a)
    return R
bad=collections.Counter(); first={}; ev=collections.Counter(); nc=0; t0=time.time()
def note(k,i): bad[k]+=1; first.setdefault(k,i)
for p in primes(P):
  if p%4!=3: continue
  for a in range(p):
    for b in range(p):
      if (4*a**3+27*b*b)%p==0: continue
      pts=[(x,y) for x in range(p) for y in range(p) if (y*y-(x**3+a*x+b))%p==0]
      N=len(pts)+1
      for n in pf(N):
        if n<3 or n>19: continue
        h=N//n; G=None
        for Pt in pts:
            Q=rmul(h,Pt,p,a)
            if Q is not None and rmul(n,Q,p,a) is None: G=Q;break
        if G is None: continue
        try: ec=Curve(p,a,b,G,n,h,weakness_check=False)
        except BTClibValueError: continue
        nc+=1
        tab=[None]
        for k in range(1,n): tab.append(radd(tab[-1],G,p,a))
        onc={pt[0] for pt in pts if pt[1]!=0} | {pt[0] for pt in pts if pt[1]==0}
        def lift(x):
            ys=[y for (xx,y) in pts if xx==x]
            ev_=[y for y in ys if y%2==0 and y!=0]
            return (x,ev_[0]) if ev_ else None
        # sign/verify consistency via integer core
        for q in range(1,n):
            Qp=tab[q]; 
            if Qp[1]%2: qq=n-q; Qp=tab[qq]
            else: qq=q
            for k in range(1,n):
                K=tab[k]; kk=k
                if K[1]%2: kk=n-k; K=tab[kk]
                for c in range(1,n):
                    ev['sign']+=1
                    try: sig=ssa._sign_(c,qq,kk,K[0],ec)
                    except Exception as e: note('sign-raise',(p,a,b,G,n,h,q,k,c,repr(e))); continue
                    if sig.s!=(kk+c*qq)%n: note('sign-value',(p,a,b,n,q,k,c))
                    try: ssa._assert_as_valid_(c,(Qp[0],Qp[1],1),sig.r,sig.s,ec,ec._fixed_points)
                    except Exception as e: note('verify-own',(p,a,b,G,n,h,q,k,c,repr(e)))
        # soundness over all (c,x,r,s)
        if n<=11:
          for x in range(p+1):
            Qp=lift(x) if x<p else None
            for c in range(1,n):
              for r in range(p+1):
                Rp=lift(r) if r<p else None
                for s in range(n+1):
                    ev['sound']+=1
                    exp=False
                    insub = Qp in tab if Qp else False
                    if Qp and Rp and s<n:
                        sG=tab[s%n]
                        try: cQ=rmul(c,Qp,p,a)
                        except ValueError: cQ='2tors'
                        if cQ=='2tors': exp='skip'
                        else:
                            negcQ=None if cQ is None else (cQ[0],(-cQ[1])%p)
                            try: exp = radd(sG,negcQ,p,a)==Rp
                            except ValueError: exp='skip'
                    got=None
                    try:
                        sg=ssa.Sig(r,s,ec)            # range / x-coordinate checks
                        if Qp is None: raise BTClibValueError("no lift")
                        ssa._assert_as_valid_(c,(Qp[0],Qp[1],1),r,s,ec,ec._fixed_points); got=True
                    except (BTClibValueError,BTClibRuntimeError): got=False
                    except Exception as e: got=repr(e)
                    if exp!='skip' and got!=exp: note('sound-insub' if insub or not Qp else 'sound-offsub',(p,a,b,G,n,h,x,c,r,s,got,exp))
print("curves",nc,"evals",dict(ev),"time",round(time.time()-t0,1)); print("violations",dict(bad))
for k,v in first.items(): print(k,v)
