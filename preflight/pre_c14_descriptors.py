"""Throw-away pre-flight: descriptor scripts vs hand assembly from an independent BIP32 + script templates; text round trip; checksum corruption."""
import itertools, hashlib, hmac, collections, time
from btclib.descriptors import parse, add_checksum, checksum
from btclib.bip32 import bip32
from btclib.exceptions import BTClibValueError, BTClibTypeError, BTClibRuntimeError
CONTRACT=(BTClibValueError,BTClibTypeError,BTClibRuntimeError)
p=2**256-2**32-977; n=0xFFFFFFFFFFFFFFFFFFFFFFFFFFFFFFFEBAAEDCE6AF48A03BBFD25E8CD0364141
G=(0x79BE667EF9DCBBAC55A06295CE870B07029BFCDB2DCE28D959F2815B16F81798,0x483ADA7726A3C4655DA4FBFC0E1108A8FD17B448A68554199C47D08FFB10D4B8)
def add(P1,P2):
    if P1 is None: return P2
    if P2 is None: return P1
    if P1[0]==P2[0] and (P1[1]+P2[1])%p==0: return None
    lam=(3*P1[0]*P1[0]*pow(2*P1[1],-1,p) if P1==P2 else (P2[1]-P1[1])*pow(P2[0]-P1[0],-1,p))%p
    x=(lam*lam-P1[0]-P2[0])%p; return x,(lam*(P1[0]-x)-P1[1])%p
def mul(k,P):
    R=None
    while k:
        if k&1: R=add(R,P)
        P=add(P,P); k>>=1
    return R
def ser(P): return bytes([2+(P[1]&1)])+P[0].to_bytes(32,'big')
def h160(b): return hashlib.new('ripemd160',hashlib.sha256(b).digest()).digest()
def tagged(t,m): h=hashlib.sha256(t.encode()).digest(); return hashlib.sha256(h+h+m).digest()
def ckd_pub(K,c,i):
    I=hmac.new(c,ser(K)+i.to_bytes(4,'big'),'sha512').digest(); return add(mul(int.from_bytes(I[:32],'big'),G),K), I[32:]
def lift(x):
    y=pow((pow(x,3,p)+7)%p,(p+1)//4,p); return (x,y if y%2==0 else p-y)
bad=collections.Counter(); first={}; ev=collections.Counter()
def note(k,i): bad[k]+=1; first.setdefault(k,i)
# two account xpubs from independent master keys
accts=[]
for seed in (b"\x01"*16,b"\x02"*32):
    root=bip32.rootxprv_from_seed_(seed); acc=bip32.derive_(root,"m/48h/0h/0h"); xpub=bip32.xpub_from_xprv_(acc)
    K=(int.from_bytes(xpub.key[1:],'big'),None); Pt=lift(K[0]); Pt=Pt if (Pt[1]&1)==(xpub.key[0]&1) else (Pt[0],p-Pt[1])
    accts.append((xpub.b58encode(),Pt,xpub.chain_code))
def child(a,path):
    K,c=accts[a][1],accts[a][2]
    for i in path: K,c=ckd_pub(K,c,i)
    return ser(K)
def push(b): return bytes([len(b)])+b
def expected(kind,idx):
    k0=child(0,[0,idx]); k1=child(1,[1,idx])
    if kind=="pkh": return b"\x76\xa9"+push(h160(k0))+b"\x88\xac"
    if kind=="wpkh": return b"\x00"+push(h160(k0))
    if kind=="sh-wpkh": return b"\xa9"+push(h160(b"\x00"+push(h160(k0))))+b"\x87"
    if kind=="pk": return push(k0)+b"\xac"
    ms=lambda ks: b"\x52"+b"".join(push(k) for k in ks)+b"\x52\xae"
    if kind=="multi": return ms([k0,k1])
    if kind=="sortedmulti": return ms(sorted([k0,k1]))
    if kind=="wsh-sortedmulti": return b"\x00"+push(hashlib.sha256(ms(sorted([k0,k1]))).digest())
    if kind=="sh-wsh-multi": return b"\xa9"+push(h160(b"\x00"+push(hashlib.sha256(ms([k0,k1])).digest())))+b"\x87"
    if kind=="tr":
        x=k0[1:]; P=lift(int.from_bytes(x,'big')); t=int.from_bytes(tagged("TapTweak",x),'big'); Q=add(P,mul(t,G))
        return b"\x51"+push(Q[0].to_bytes(32,'big'))
    if kind=="tr-leaf":
        x=k0[1:]; leaf=push(k1[1:])+b"\xac"; lh=tagged("TapLeaf",b"\xc0"+push(leaf))
        P=lift(int.from_bytes(x,'big')); t=int.from_bytes(tagged("TapTweak",x+lh),'big'); Q=add(P,mul(t,G))
        return b"\x51"+push(Q[0].to_bytes(32,'big'))
A,B=accts[0][0],accts[1][0]
TEXT={"pkh":f"pkh({A}/0/*)","wpkh":f"wpkh({A}/0/*)","sh-wpkh":f"sh(wpkh({A}/0/*))","pk":f"pk({A}/0/*)","multi":f"multi(2,{A}/0/*,{B}/1/*)","sortedmulti":f"sortedmulti(2,{A}/0/*,{B}/1/*)",
      "wsh-sortedmulti":f"wsh(sortedmulti(2,{A}/0/*,{B}/1/*))","sh-wsh-multi":f"sh(wsh(multi(2,{A}/0/*,{B}/1/*)))","tr":f"tr({A}/0/*)","tr-leaf":f"tr({A}/0/*,pk({B}/1/*))"}
t0=time.time(); flips=0
for kind,txt in TEXT.items():
    d=parse(add_checksum(txt))
    if parse(str(d))!=d: note('text-roundtrip',(kind,))
    prev=None
    for idx in (0,1,2,3,4,5,6,7,2**31-1):
        ev['derive']+=1
        got=d.script_pub_key(idx).script; exp=expected(kind,idx)
        if got!=exp: note('script:'+kind,(idx,got.hex()[:40],exp.hex()[:40]))
        if idx<8 and d.index_of(got,10)!=idx: note('index_of:'+kind,(idx,))
    if d.index_of(b"\x00\x14"+bytes(20),10) is not None: note('index_of-foreign:'+kind,())
# order flip coverage for sortedmulti
fl=[sorted([child(0,[0,i]),child(1,[1,i])])[0]==child(0,[0,i]) for i in range(8)]
print("sortedmulti order flips among indexes 0..7:",fl)
# single-character corruption of checksummed descriptors
CS="0123456789()[],'/*abcdefgh@:$%{}IJKLMNOPQRSTUVWXYZ&+-.;<=>?!^_|~ijklmnopqrstuvwxyzABCDEFGH`#\"\\ "
for kind in ("wpkh","sortedmulti","tr-leaf"):
    s=add_checksum(TEXT[kind])
    for i in range(len(s)):
        for c in CS:
            if c==s[i]: continue
            ev['corrupt']+=1
            t=s[:i]+c+s[i+1:]
            try: parse(t); note('corrupted-accepted:'+kind,(i,c,t[max(0,i-5):i+5]))
            except CONTRACT: pass
            except Exception as e: note('corrupt-foreign:'+type(e).__name__,(kind,i,c,str(e)[:60]))
print(dict(ev),round(time.time()-t0,1),"s; violation classes",len(bad))
for k,v in sorted(bad.items(),key=lambda kv:-kv[1]): print(v,k,str(first[k])[:300])
