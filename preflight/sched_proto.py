"""Throw-away feasibility prototype of the E3 scheduler + ownership audit (not framework code)."""
import sys, threading, time, gc, types

class Sched:
    def __init__(self, bodies, flagged_codes):
        self.bodies=bodies; self.flagged=flagged_codes
        self.sems=[threading.Semaphore(0) for _ in bodies]
        self.ctrl=threading.Semaphore(0)
        self.done=[False]*len(bodies); self.results=[None]*len(bodies)
        self.cur=None; self.trace=[]  # list of (enabled, chosen)
    def _tracer(self, frame, event, arg):
        if frame.f_code in self.flagged:
            return self._local
        return None
    def _local(self, frame, event, arg):
        if event=='line':
            self.point()
        return self._local
    def point(self):
        i=self.cur
        self.ctrl.release()         # give control back
        self.sems[i].acquire()      # wait to be rescheduled
    def _run(self,i):
        self.sems[i].acquire()
        sys.settrace(self._tracer)
        try: self.results[i]=('ok',self.bodies[i]())
        except Exception as e: self.results[i]=('exc',type(e).__name__,str(e))
        finally:
            sys.settrace(None)
            self.done[i]=True; self.ctrl.release()
    def execute(self, prefix):
        ths=[threading.Thread(target=self._run,args=(i,)) for i in range(len(self.bodies))]
        for t in ths: t.start()
        choices=[]; points=[]; last=None; step=0
        while not all(self.done):
            enabled=[i for i in range(len(self.bodies)) if not self.done[i]]
            # canonical order: running thread first
            if last in enabled: enabled=[last]+[i for i in enabled if i!=last]
            c = prefix[step] if step<len(prefix) else 0
            if c>=len(enabled): raise RuntimeError("replay divergence")
            chosen=enabled[c]
            points.append((tuple(enabled), last in enabled))
            choices.append(c)
            self.cur=chosen; last=chosen; step+=1
            self.sems[chosen].release(); self.ctrl.acquire()
        for t in ths: t.join()
        return choices, points, list(self.results)

def explore(make, bound, check, limit=100000):
    n=0; fails=[]
    stack=[[]]
    while stack:
        prefix=stack.pop()
        s=make(); choices,points,results=s.execute(prefix); n+=1
        if not check(results): fails.append((choices,results))
        if n>=limit: break
        # preemptions used before index i
        pre=0; precount=[]
        for i,(en,still) in enumerate(points):
            precount.append(pre)
            if choices[i]!=0 and still: pre+=1
        for i in range(len(prefix),len(points)):
            en,still=points[i]
            for alt in range(1,len(en)):
                cost=precount[i]+(1 if still else 0)
                if cost>bound: continue
                stack.append(choices[:i]+[alt])
    return n,fails

# --- subject: a "hoisted accumulator" version of mod_inv_batch_var -------------
_ACC=[]
def batch_inv(a,m):
    acc=_ACC
    acc.clear()
    product=1
    for x in a:
        product=product*x%m
        acc.append(product)
    inv=pow(product,-1,m)
    out=[0]*len(a)
    for i in range(len(a)-1,0,-1):
        out[i]=inv*acc[i-1]%m
        inv=inv*a[i]%m
    out[0]=inv
    return out

def audit(fn, shared_ids):
    """run fn alone under a line tracer; return code objects whose frames alias a shared container"""
    found=set()
    def tr(frame,event,arg):
        def loc(frame,event,arg):
            if event=='line':
                for v in frame.f_locals.values():
                    if id(v) in shared_ids: found.add(frame.f_code)
                for nm in frame.f_code.co_names:
                    if id(frame.f_globals.get(nm)) in shared_ids: found.add(frame.f_code)
            return loc
        return loc
    sys.settrace(tr)
    try: fn()
    finally: sys.settrace(None)
    return found

if __name__=="__main__":
    sys.setswitchinterval(1000)
    m=101
    A=[3,5,7]; B=[2,9,11,13]
    seqA=batch_inv(A,m); seqB=batch_inv(B,m)
    shared={id(v) for v in globals().values() if isinstance(v,(list,dict,set,bytearray))}
    t0=time.time(); flagged=audit(lambda:batch_inv(A,m), shared); print("audit found:",[c.co_name for c in flagged], f"{time.time()-t0:.3f}s")
    def make(): return Sched([lambda:batch_inv(A,m), lambda:batch_inv(B,m)], flagged)
    def check(res): return res[0]==('ok',seqA) and res[1]==('ok',seqB)
    for bound in (0,1,2):
        t0=time.time(); n,f=explore(make,bound,check)
        print(f"bound={bound} executions={n} failing={len(f)} {time.time()-t0:.2f}s", f[:1])
    # determinism: replay first failing schedule twice
    if f:
        ch=f[0][0]
        r1=make().execute(ch)[2]; r2=make().execute(ch)[2]; print("replay identical:", r1==r2)
