"""Throw-away pre-flight: sig-free EvalScript transcription (Core) vs btclib's engine, BFS over short token sequences.
Not validated against script_tests.json yet (the real model will be); disagreements are to be triaged by hand."""
import itertools, collections, hashlib, sys, time
from btclib.script.engine.script import verify_script
from btclib.script.engine.tapscript import verify_script_path_vc0
from btclib.script.engine.flags import ScriptFlag as F, NO_FLAGS
from btclib.tx import Tx, TxIn, TxOut, OutPoint
from btclib.exceptions import BTClibValueError
TX=Tx(2,100,[TxIn(OutPoint(b"\x11"*32,0),b"",5,check_validity=False)],[TxOut(1,b"\x51",check_validity=False)],check_validity=False)
PREV=[TxOut(10,b"\x51",check_validity=False)]
class Err(Exception): pass
def num(v,minimal,maxsize=4):
    if len(v)>maxsize: raise Err("overflow")
    if minimal and len(v)>0 and (v[-1]&0x7f)==0 and (len(v)<=1 or (v[-2]&0x80)==0): raise Err("nonminimal num")
    if not v: return 0
    r=int.from_bytes(v,'little')
    if v[-1]&0x80: return -(r & ~(0x80<<(8*(len(v)-1))))
    return r
def vch(n):
    if n==0: return b""
    neg=n<0; a=abs(n); out=bytearray()
    while a: out.append(a&0xff); a>>=8
    if out[-1]&0x80: out.append(0x80 if neg else 0)
    elif neg: out[-1]|=0x80
    return bytes(out)
def tobool(v):
    for i,b in enumerate(v):
        if b!=0: return not (i==len(v)-1 and b==0x80)
    return False
def getop(s,pc):
    op=s[pc]; pc+=1; data=b""
    if op<=0x4e:
        if op<0x4c: n=op
        elif op==0x4c:
            if len(s)-pc<1: return None
            n=s[pc]; pc+=1
        elif op==0x4d:
            if len(s)-pc<2: return None
            n=int.from_bytes(s[pc:pc+2],'little'); pc+=2
        else:
            if len(s)-pc<4: return None
            n=int.from_bytes(s[pc:pc+4],'little'); pc+=4
        if len(s)-pc<n: return None
        data=s[pc:pc+n]; pc+=n
    return op,data,pc
DISABLED={0x7e,0x7f,0x80,0x81,0x83,0x84,0x85,0x86,0x8d,0x8e,0x95,0x96,0x97,0x98,0x99}
SUCCESS={80,98,126,127,128,129,131,132,133,134,137,138,141,142,149,150,151,152,153,*range(187,255)}
def minimal_push(d,op):
    if len(d)==0: return op==0
    if len(d)==1 and 1<=d[0]<=16: return False
    if len(d)==1 and d[0]==0x81: return False
    if len(d)<=75: return op==len(d)
    if len(d)<=255: return op==0x4c
    if len(d)<=65535: return op==0x4d
    return True
def evalscript(s,stack,flags,sigv):   # sigv: 0 BASE, 1 WITNESS_V0, 2 TAPSCRIPT
    if sigv in (0,1) and len(s)>10000: raise Err("script size")
    alt=[]; vf=[]; nop=0; pc=0; mini='MINIMALDATA' in flags
    def need(n):
        if len(stack)<n: raise Err("stack op")
    while pc<len(s):
        fexec=all(vf)
        g=getop(s,pc)
        if g is None: raise Err("bad opcode")
        op,data,pc=g
        if len(data)>520: raise Err("push size")
        if sigv in (0,1) and op>0x60:
            nop+=1
            if nop>201: raise Err("op count")
        if op in DISABLED: raise Err("disabled")
        if op==0xab and sigv==0 and 'CONST_SCRIPTCODE' in flags: raise Err("codesep")
        if fexec and op<=0x4e:
            if mini and not minimal_push(data,op): raise Err("minimaldata")
            stack.append(data)
        elif fexec or 0x63<=op<=0x68:
            if op==0x4f or 0x51<=op<=0x60: stack.append(vch(op-0x50))
            elif op==0x61: pass
            elif op==0xb1:
                if 'CHECKLOCKTIMEVERIFY' in flags:
                    need(1); n=num(stack[-1],mini,5)
                    if n<0: raise Err("neg locktime")
                    t=TX.lock_time
                    if not ((t<500000000 and n<500000000) or (t>=500000000 and n>=500000000)) or n>t or TX.vin[0].sequence==0xffffffff: raise Err("locktime")
            elif op==0xb2:
                if 'CHECKSEQUENCEVERIFY' in flags:
                    need(1); n=num(stack[-1],mini,5)
                    if n<0: raise Err("neg locktime")
                    if not n&(1<<31):
                        ts=TX.vin[0].sequence
                        if TX.version<2 or ts&(1<<31): raise Err("seq")
                        mask=(1<<22)|0xffff; a=ts&mask; b=n&mask
                        if not ((a<(1<<22) and b<(1<<22)) or (a>=(1<<22) and b>=(1<<22))) or b>a: raise Err("seq")
            elif op==0xb0 or 0xb3<=op<=0xb9:
                if 'DISCOURAGE_UPGRADABLE_NOPS' in flags: raise Err("nops")
            elif op in (0x63,0x64):
                val=False
                if fexec:
                    if len(stack)<1: raise Err("unbalanced")
                    v=stack[-1]
                    if sigv==2 or (sigv==1 and 'MINIMALIF' in flags):
                        if len(v)>1 or (len(v)==1 and v[0]!=1): raise Err("minimalif")
                    val=tobool(v)
                    if op==0x64: val=not val
                    stack.pop()
                vf.append(val)
            elif op==0x67:
                if not vf: raise Err("unbalanced")
                vf[-1]=not vf[-1]
            elif op==0x68:
                if not vf: raise Err("unbalanced")
                vf.pop()
            elif op==0x69:
                need(1)
                if tobool(stack[-1]): stack.pop()
                else: raise Err("verify")
            elif op==0x6a: raise Err("op_return")
            elif op==0x6b: need(1); alt.append(stack.pop())
            elif op==0x6c:
                if not alt: raise Err("altstack")
                stack.append(alt.pop())
            elif op==0x6d: need(2); stack.pop(); stack.pop()
            elif op==0x6e: need(2); stack.extend(stack[-2:])
            elif op==0x6f: need(3); stack.extend(stack[-3:])
            elif op==0x70: need(4); stack.extend(stack[-4:-2])
            elif op==0x71: need(6); a=stack[-6:-4]; del stack[-6:-4]; stack.extend(a)
            elif op==0x72: need(4); stack[-4],stack[-2]=stack[-2],stack[-4]; stack[-3],stack[-1]=stack[-1],stack[-3]
            elif op==0x73:
                need(1)
                if tobool(stack[-1]): stack.append(stack[-1])
            elif op==0x74: stack.append(vch(len(stack)))
            elif op==0x75: need(1); stack.pop()
            elif op==0x76: need(1); stack.append(stack[-1])
            elif op==0x77: need(2); del stack[-2]
            elif op==0x78: need(2); stack.append(stack[-2])
            elif op in (0x79,0x7a):
                need(2); n=num(stack[-1],mini); stack.pop()
                if n<0 or n>=len(stack): raise Err("stack op")
                v=stack[-n-1]
                if op==0x7a: del stack[-n-1]
                stack.append(v)
            elif op==0x7b: need(3); stack[-3],stack[-2]=stack[-2],stack[-3]; stack[-2],stack[-1]=stack[-1],stack[-2]
            elif op==0x7c: need(2); stack[-2],stack[-1]=stack[-1],stack[-2]
            elif op==0x7d: need(2); stack.insert(-2,stack[-1])
            elif op==0x82: need(1); stack.append(vch(len(stack[-1])))
            elif op in (0x87,0x88):
                need(2); eq=stack[-1]==stack[-2]; stack.pop(); stack.pop(); stack.append(b"\x01" if eq else b"")
                if op==0x88:
                    if eq: stack.pop()
                    else: raise Err("equalverify")
            elif op in (0x8b,0x8c,0x8f,0x90,0x91,0x92):
                need(1); b=num(stack[-1],mini)
                b={0x8b:b+1,0x8c:b-1,0x8f:-b,0x90:abs(b),0x91:int(b==0),0x92:int(b!=0)}[op]
                stack.pop(); stack.append(vch(b))
            elif op in (0x93,0x94,0x9a,0x9b,0x9c,0x9d,0x9e,0x9f,0xa0,0xa1,0xa2,0xa3,0xa4):
                need(2); a=num(stack[-2],mini); b=num(stack[-1],mini)
                r={0x93:a+b,0x94:a-b,0x9a:int(a!=0 and b!=0),0x9b:int(a!=0 or b!=0),0x9c:int(a==b),0x9d:int(a==b),0x9e:int(a!=b),0x9f:int(a<b),0xa0:int(a>b),0xa1:int(a<=b),0xa2:int(a>=b),0xa3:min(a,b),0xa4:max(a,b)}[op]
                stack.pop(); stack.pop(); stack.append(vch(r))
                if op==0x9d:
                    if tobool(stack[-1]): stack.pop()
                    else: raise Err("numequalverify")
            elif op==0xa5:
                need(3); x=num(stack[-3],mini); lo=num(stack[-2],mini); hi=num(stack[-1],mini)
                stack.pop(); stack.pop(); stack.pop(); stack.append(b"\x01" if lo<=x<hi else b"")
            elif op in (0xa6,0xa7,0xa8,0xa9,0xaa):
                need(1); v=stack.pop()
                h={0xa6:lambda d:hashlib.new('ripemd160',d).digest(),0xa7:lambda d:hashlib.sha1(d).digest(),0xa8:lambda d:hashlib.sha256(d).digest(),
                   0xa9:lambda d:hashlib.new('ripemd160',hashlib.sha256(d).digest()).digest(),0xaa:lambda d:hashlib.sha256(hashlib.sha256(d).digest()).digest()}[op]
                stack.append(h(v))
            elif op==0xab: pass
            else: raise Err("bad opcode")
        if len(stack)+len(alt)>1000: raise Err("stack size")
    if vf: raise Err("unbalanced")
def model(script,stack,flags,sigv):
    st=list(stack)
    try:
        if sigv==2:
            pc=0
            while pc<len(script):
                g=getop(script,pc)
                if g is None: raise Err("bad opcode")
                op,_,pc=g
                if op in SUCCESS:
                    if 'DISCOURAGE_OP_SUCCESS' in flags: raise Err("op_success")
                    return ('ok',None)
            if len(st)>1000: raise Err("stack size")
            if any(len(x)>520 for x in st): raise Err("push size")
        evalscript(script,st,flags,sigv)
        if sigv==2:
            if len(st)!=1: raise Err("cleanstack")
            if not tobool(st[-1]): raise Err("eval false")
            return ('ok',None)
        return ('ok',tuple(st))
    except Err as e: return ('err',str(e))
def impl(script,stack,flags,sigv):
    st=list(stack); fl=NO_FLAGS
    for f in flags: fl|=F[f]
    try:
        if sigv==2:
            verify_script_path_vc0(script,st,PREV,TX,0,b"",1000,fl); return ('ok',None)
        verify_script(script,st,10,TX,0,fl,sigv==1,False); return ('ok',tuple(st))
    except BTClibValueError as e: return ('err',str(e))
    except Exception as e: return ('EXC',type(e).__name__+": "+str(e))
SIGOPS={0xac,0xad,0xae,0xaf,0xba}
def push(d,form=None):
    if form=='p1': return b"\x4c"+bytes([len(d)])+d
    if form=='p2': return b"\x4d"+len(d).to_bytes(2,'little')+d
    if form=='p4': return b"\x4e"+len(d).to_bytes(4,'little')+d
    return bytes([len(d)])+d
D=[b"",b"\x00",b"\x01",b"\x02",b"\x80",b"\x81",b"\x7f",b"\xff",b"\x00\x80",b"\xff\x7f",b"\x00\x00",b"\x00\x00\x00\x80",b"\x01\x00\x00\x00\x00",bytes(520),bytes(521)]
T0=[bytes([o]) for o in range(0x4f,0x100) if o not in SIGOPS]+[b"\x00"]+[push(d) if len(d)<76 else push(d,'p2') for d in D]+[push(d,f) for d in D[:8] for f in ('p1','p2','p4')]+[b"\x05\x01",b"\x4c",b"\x4d\x01",b"\x4e\x01\x00\x00"]
T1=[bytes([o]) for o in list(range(0x4f,0xbb)) if o not in SIGOPS]+[b"\x00"]+[push(d) for d in D[:12]]+[push(b"\x01",'p1')]
T2=[bytes([o]) for o in (0x00,0x51,0x52,0x4f,0x61,0x63,0x64,0x65,0x67,0x68,0x69,0x6a,0x6b,0x6c,0x6d,0x6e,0x73,0x74,0x75,0x76,0x79,0x7a,0x7b,0x7c,0x7e,0x82,0x87,0x88,0x8b,0x91,0x93,0x9a,0x9d,0xa5,0xa8,0xab,0xb0,0xb1,0xb2,0xbb,0xff)]+[push(b"\x80"),push(b"\x02"),push(b"\x00")]
STACKS=[[],[b"\x01"],[b""],[b"\x02",b"\x01"],[b"\x01",b""],[b"\x01"]*6]
FLAGSETS=[(),('MINIMALDATA',),('MINIMALIF',),('DISCOURAGE_UPGRADABLE_NOPS',),('CHECKLOCKTIMEVERIFY','CHECKSEQUENCEVERIFY'),('MINIMALDATA','MINIMALIF','DISCOURAGE_UPGRADABLE_NOPS','CHECKLOCKTIMEVERIFY','CHECKSEQUENCEVERIFY','CONST_SCRIPTCODE','DISCOURAGE_OP_SUCCESS')]
def same(a,b):
    if a[0]=='ok' and b[0]=='ok': return a[1]==b[1]
    return a[0]==b[0]=='err'
bad=collections.Counter(); first=collections.defaultdict(list); ev=0; t0=time.time()
depth=int(sys.argv[1]) if len(sys.argv)>1 else 2
def programs():
    for t in T0: yield (t,)
    if depth>=2:
        for p in itertools.product(T1,repeat=2): yield p
    if depth>=3:
        for p in itertools.product(T2,repeat=3): yield p
for prog in programs():
    script=b"".join(prog)
    for st in STACKS:
        for fl in FLAGSETS:
            for sigv in (0,1,2):
                ev+=1
                m=model(script,st,fl,sigv); i=impl(script,st,fl,sigv)
                if not same(m,i):
                    key=('tapscript' if sigv==2 else 'legacy' if sigv==0 else 'witv0')+":"+(m[1] if m[0]=='err' else 'model-ok')+" / "+(i[1][:50] if i[0]!='ok' else 'impl-ok')
                    bad[key]+=1
                    if len(first[key])<2: first[key].append((script.hex(),[x.hex() for x in st],fl,m,i))
print("evals",ev,round(time.time()-t0,1),"s; disagreement classes:",len(bad))
for k,v in sorted(bad.items(),key=lambda kv:-kv[1]): print(v,k,"e.g.",str(first[k][0])[:260])
