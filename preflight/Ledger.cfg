CONSTANTS B = {0,1}
MaxI = 1
INIT Init
NEXT Next
INVARIANT Inv
