"""Throw-away pre-flights: compact targets (C17), wallet ledger (C20.c), SLIP39 subsets (C13)."""
import itertools, time, collections
from btclib.block import proof_of_work as pow_
from btclib.exceptions import BTClibValueError
bad=collections.Counter(); first={}
def note(k,i): bad[k]+=1; first.setdefault(k,i)
# ---- C17 compact: model = arith_uint256::SetCompact / GetCompact
def set_compact(nc):
    size=nc>>24; word=nc&0x007fffff
    if size<=3:
        word >>= 8*(3-size); val=word      # Core shifts nWord itself before the sign test
    else:
        val = word<<(8*(size-3))
    neg = word!=0 and (nc&0x00800000)!=0
    over = word!=0 and (size>34 or (word>0xff and size>33) or (word>0xffff and size>32))
    return val,neg,over
def get_compact(v):
    size=(v.bit_length()+7)//8
    c = v<<(8*(3-size)) if size<=3 else v>>(8*(size-3))
    if c&0x00800000: c>>=8; size+=1
    return c|(size<<24)
A=[0x00,0x01,0x02,0x7f,0x80,0x81,0xfe,0xff,0x10,0x40,0xc0,0x0f,0xf0,0x55,0xaa,0x03]
t0=time.time(); ev=0
for e in range(256):
    for m in itertools.product(A,repeat=3):
        bits=bytes([e,*m]); nc=int.from_bytes(bits,'big'); ev+=1
        val,neg,over=set_compact(nc)
        try: t=int.from_bytes(pow_.target_from_bits(bits),'big'); got_over=False
        except BTClibValueError: got_over=True
        # btclib raises iff value >= 2^256 (Core's overflow flag is about the encoding)
        if got_over != (val>=2**256): note('overflow',(bits.hex(),val>=2**256,over))
        if not got_over and t!=val: note('target',(bits.hex(),t,val))
        if pow_.is_negative_bits(bits)!=neg: note('negative',(bits.hex(),neg))
        if not got_over and not neg and val and not over:
            back=pow_.bits_from_target(t.to_bytes(32,'big'))
            if int.from_bytes(back,'big')!=get_compact(val): note('getcompact',(bits.hex(),back.hex(),hex(get_compact(val))))
            if int.from_bytes(pow_.target_from_bits(back),'big')>val: note('rounds-up',(bits.hex(),))
# targets by length
for L in range(0,33):
    for top in itertools.product(A,repeat=min(3,L)):
        v=int.from_bytes(bytes(top)+bytes(max(0,L-3)),'big'); ev+=1
        back=int.from_bytes(pow_.bits_from_target(v.to_bytes(32,'big')),'big')
        if back!=get_compact(v): note('getcompact-target',(hex(v),hex(back),hex(get_compact(v))))
print("C17 compact evals",ev,round(time.time()-t0,1),"s")
# ---- C20.c wallet ledger BFS depth 4
from btclib.wallet import BIP32KeyWallet
from btclib.bip32 import rootxprv_from_seed, derive
import btclib.wallet.key_wallet as kw
xprv=rootxprv_from_seed(b"\x07"*16)
ops=[('addr',b,i) for b in (0,1) for i in range(3)]+[('next',b) for b in (0,1)]+[('addr',2,0),('addr',0,-1)]
t0=time.time(); seen=set(); n=0
def run(hist):
    w=BIP32KeyWallet(xprv,"m/84h/0h/0h")
    model_next={0:0,1:0}; model_order=[]
    for op in hist:
        before=(tuple(w.addresses),)
        try:
            if op[0]=='addr':
                a=w.address(op[1],op[2]); b,i=op[1],op[2]
            else:
                a=w.next_address(op[1]); b=op[1]; i=model_next[b]
            ok=True
        except BTClibValueError:
            ok=False
        exp_ok = not (op[0]=='addr' and (op[1] not in (0,1) or op[2]<0))
        if ok!=exp_ok: note('wallet-accept',(hist,op)); return
        if not ok:
            if (tuple(w.addresses),)!=before: note('wallet-refusal-mutates',(hist,op))
            continue
        if (b,i) not in model_order: model_order.append((b,i))
        model_next[b]=max(model_next[b],i+1)
        info=w.address_info(a)
        if (info.branch,info.index)!=(b,i): note('wallet-info',(hist,op,info))
    exp=[w2 for w2 in model_order]
    got=[(w.address_info(a).branch,w.address_info(a).index) for a in w.addresses]
    if got!=exp: note('wallet-ledger',(hist,got,exp))
    for b in (0,1):
        if w._next_index.get(b,0)!=model_next[b]: note('wallet-next',(hist,b))
try:
    for d in range(1,5):
        for hist in itertools.product(ops,repeat=d):
            run(hist); n+=1
    print("C20.c wallet histories",n,round(time.time()-t0,1),"s")
except Exception as e:
    print("wallet probe failed to run:",type(e).__name__,e)
# ---- C13 SLIP39 split/recover all (t,n)
from btclib.mnemonic import slip39
t0=time.time(); n=0
ctr=[0]
def ent(k):
    ctr[0]+=1; return bytes(((ctr[0]*37+j*11)%256) for j in range(k))
secret=bytes(range(16))
for cnt in range(1,11):
    for thr in range(1,cnt+1):
        if thr==1 and cnt>1: continue
        shares=slip39._split_secret(thr,cnt,secret,ent)
        for sub in itertools.combinations(range(cnt),thr):
            n+=1
            pts=[(i,shares[i]) for i in sub]
            try: rec=slip39._recover_secret(thr,pts)
            except BTClibValueError as e: rec=repr(e)
            if rec!=secret: note('slip39-recover',(thr,cnt,sub,rec))
            rec2=slip39._recover_secret(thr,pts[::-1]) if thr>1 else secret
            if rec2!=secret: note('slip39-order',(thr,cnt,sub))
        if thr>2:
            for sub in itertools.combinations(range(cnt),thr-1):
                n+=1
                pts=[(i,shares[i]) for i in sub]
                try:
                    rec=slip39._recover_secret(thr-1,pts)
                    if rec==secret: note('slip39-below-threshold-recovers',(thr,cnt,sub))
                    else: note('slip39-below-threshold-answers',(thr,cnt,sub))
                except BTClibValueError: pass
print("C13 slip39 subsets",n,round(time.time()-t0,1),"s")
print("violations",dict(bad))
for k,v in first.items(): print(k,str(v)[:300])
