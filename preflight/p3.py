# P2SH-P2WPKH with an extra push in scriptSig; tapscript 0xff in dead branch
from btclib.script.engine import verify_input
from btclib.script.script_pub_key import ScriptPubKey
from btclib.script.script import serialize
from btclib.script import sig_hash
from btclib.tx import Tx, TxIn, TxOut, OutPoint
from btclib.script.witness import Witness
from btclib.ecc import dsa
from btclib.curves import mult, bytes_from_point
from btclib.hashes import hash160
q=0x1234
pub=bytes_from_point(mult(q))
redeem=b"\x00\x14"+hash160(pub)
spk=ScriptPubKey.p2sh(redeem)
prev=[TxOut(100000, spk)]
vin=TxIn(OutPoint(b"\x11"*32,0), script_sig=serialize([redeem]), sequence=0xffffffff)
tx=Tx(2,0,[vin],[TxOut(90000, spk)])
sc=serialize(["OP_DUP","OP_HASH160",hash160(pub),"OP_EQUALVERIFY","OP_CHECKSIG"])
h=sig_hash.segwit_v0(sc, tx, 0, 1, 100000)
sig=dsa.sign_(h,q).serialize()+b"\x01"
vin.script_witness=Witness([sig,pub])
verify_input(prev, tx, 0); print("plain p2sh-p2wpkh ok")
vin.script_sig=serialize([b"\x01", redeem])
try:
    verify_input(prev, tx, 0); print("EXTRA PUSH ACCEPTED (Core: WITNESS_MALLEATED_P2SH)")
except Exception as e: print("extra push rejected:", type(e).__name__, e)
