"""Throw-away pre-flight: sig_hash.legacy / segwit_v0 / taproot vs independent transcriptions."""
import itertools, hashlib, struct, collections
from btclib.script import sig_hash
from btclib.tx import Tx, TxIn, TxOut, OutPoint
from btclib.script.witness import Witness
from btclib.exceptions import BTClibValueError
bad=collections.Counter(); first={}
def note(k,i): bad[k]+=1; first.setdefault(k,i)
def sha(b): return hashlib.sha256(b).digest()
def dsha(b): return sha(sha(b))
def cs(n):
    return bytes([n]) if n<0xfd else b"\xfd"+struct.pack("<H",n) if n<=0xffff else b"\xfe"+struct.pack("<I",n)
def vb(b): return cs(len(b))+b
def tagged(t,m): h=sha(t.encode()); return sha(h+h+m)
# reference tx = dict(version, ins=[(txid_be, vout, script_sig, seq)], outs=[(value, spk)], locktime)
def ser_out(o): return struct.pack("<q",o[0])+vb(o[1])
def ser_outpoint(i): return i[0][::-1]+struct.pack("<I",i[1])
def ref_legacy(tx,idx,script_code,ht):
    # remove OP_CODESEPARATOR (opcode-aware)
    out=b""; pc=0; sc=script_code
    while pc<len(sc):
        op=sc[pc]; start=pc; pc+=1
        if 0<op<=75: ln=op
        elif op==76:
            if pc+1>len(sc): out+=sc[start:]; break
            ln=sc[pc]; pc+=1
        elif op==77:
            if pc+2>len(sc): out+=sc[start:]; break
            ln=int.from_bytes(sc[pc:pc+2],'little'); pc+=2
        elif op==78:
            if pc+4>len(sc): out+=sc[start:]; break
            ln=int.from_bytes(sc[pc:pc+4],'little'); pc+=4
        else: ln=0
        if pc+ln>len(sc): out+=sc[start:]; break
        pc+=ln
        if op!=0xab: out+=sc[start:pc]
    sc=out
    base=ht&0x1f; acp=ht&0x80
    if base==3 and idx>=len(tx['outs']): return (1).to_bytes(32,'little')
    ins=[]
    for j,i in enumerate(tx['ins']):
        if acp and j!=idx: continue
        seq=i[3]
        if j!=idx and base in (2,3): seq=0
        ins.append(ser_outpoint(i)+vb(sc if j==idx else b"")+struct.pack("<I",seq))
    if base==2: outs=[]
    elif base==3: outs=[struct.pack("<q",-1)+vb(b"")]*idx+[ser_out(tx['outs'][idx])]
    else: outs=[ser_out(o) for o in tx['outs']]
    pre=struct.pack("<I",tx['version'])+cs(len(ins))+b"".join(ins)+cs(len(outs))+b"".join(outs)+struct.pack("<I",tx['locktime'])+struct.pack("<I",ht&0xffffffff)
    return dsha(pre)
def ref_segwit(tx,idx,script_code,ht,amount):
    base=ht&0x1f; acp=ht&0x80
    hp=dsha(b"".join(ser_outpoint(i) for i in tx['ins'])) if not acp else bytes(32)
    hs=dsha(b"".join(struct.pack("<I",i[3]) for i in tx['ins'])) if not acp and base not in (2,3) else bytes(32)
    if base not in (2,3): ho=dsha(b"".join(ser_out(o) for o in tx['outs']))
    elif base==3 and idx<len(tx['outs']): ho=dsha(ser_out(tx['outs'][idx]))
    else: ho=bytes(32)
    i=tx['ins'][idx]
    pre=struct.pack("<I",tx['version'])+hp+hs+ser_outpoint(i)+vb(script_code)+struct.pack("<q",amount)+struct.pack("<I",i[3])+ho+struct.pack("<I",tx['locktime'])+struct.pack("<I",ht&0xffffffff)
    return dsha(pre)
def ref_taproot(tx,idx,prev,ht,annex,ext):   # prev=[(amount,spk)]
    if ht not in (0,1,2,3,0x81,0x82,0x83): return None
    if ht&3==3 and idx>=len(tx['outs']): return None
    m=b"\x00"+bytes([ht])+struct.pack("<I",tx['version'])+struct.pack("<I",tx['locktime'])
    if not ht&0x80:
        m+=sha(b"".join(ser_outpoint(i) for i in tx['ins']))+sha(b"".join(struct.pack("<q",a) for a,_ in prev))+sha(b"".join(vb(s) for _,s in prev))+sha(b"".join(struct.pack("<I",i[3]) for i in tx['ins']))
    if ht&3 not in (2,3): m+=sha(b"".join(ser_out(o) for o in tx['outs']))
    m+=bytes([(2 if ext else 0)+(1 if annex else 0)])
    i=tx['ins'][idx]
    if ht&0x80: m+=ser_outpoint(i)+struct.pack("<q",prev[idx][0])+vb(prev[idx][1])+struct.pack("<I",i[3])
    else: m+=struct.pack("<I",idx)
    if annex: m+=sha(vb(annex))
    if ht&3==3: m+=sha(ser_out(tx['outs'][idx]))
    m+=ext
    return tagged("TapSighash",m)
def mk(tx):
    vin=[TxIn(OutPoint(i[0],i[1],check_validity=False),i[2],i[3],check_validity=False) for i in tx['ins']]
    vout=[TxOut(o[0],o[1],check_validity=False) for o in tx['outs']]
    return Tx(tx['version'],tx['locktime'],vin,vout,check_validity=False)
spk_tr=b"\x51\x20"+bytes(range(32)); spk_w=b"\x00\x14"+bytes(20)
codes=[b"\x51", b"\xab\x51", b"\x51\xab", b"\x01\xab\x51", b"\x51\xab\xab\x52\xab", b"\x4c\x02\xab\xab\xab\x51", b"\x51\x02\xab", b"\x4d\xab", b""]
ev=0
for nin,nout in itertools.product((1,2,3),(0,1,2,3)):
  for version,lock in ((1,0),(2,499999999),(0xffffffff,0xffffffff)):
    tx={'version':version,'locktime':lock,
        'ins':[(bytes([j+1])*32,(0,1,0xffffffff)[j%3],b"",(0xffffffff,0,0xfffffffe)[j%3]) for j in range(nin)],
        'outs':[((0,1,2100000000000000)[j%3],(spk_w,spk_tr,b"\x6a")[j%3]) for j in range(nout)]}
    T=mk(tx); prev=[((5,2100000000000000,0)[j%3],(spk_tr,spk_w,b"\x51")[j%3]) for j in range(nin)]
    prevouts=[TxOut(a,s,check_validity=False) for a,s in prev]
    for idx in range(nin):
        for ht in list(range(256))+[0x100,0x101,0xffffff03,0x80000081]:
            for sc in codes:
                ev+=1
                try: got=sig_hash.legacy(sc,T,idx,ht)
                except Exception as e: got=repr(e)
                exp=ref_legacy(tx,idx,sc,ht)
                if got!=exp: note('legacy',(nin,nout,idx,hex(ht),sc.hex(),got if isinstance(got,str) else got.hex(),exp.hex()))
            for sc in codes[:3]:
                ev+=1
                for pre in (None, sig_hash.PrecomputedTxData(T,prevouts)):
                    try: got=sig_hash.segwit_v0(sc,T,idx,ht,prev[idx][0],pre)
                    except Exception as e: got=repr(e)
                    if got!=ref_segwit(tx,idx,sc,ht,prev[idx][0]): note('segwit',(nin,nout,idx,hex(ht),sc.hex(),pre is not None))
        for ht in range(256):
            for annex in (b"", b"\x50", b"\x50"+bytes(300)):
                for ext in (b"", bytes(32)+b"\x00"+b"\xff\xff\xff\xff", bytes(range(32))+b"\x00"+(3).to_bytes(4,'little')):
                    ev+=1
                    exp=ref_taproot(tx,idx,prev,ht,annex,ext)
                    try: got=sig_hash.taproot(T,idx,prevouts,ht,int(bool(ext)),annex,ext)
                    except BTClibValueError: got=None
                    except Exception as e: got=repr(e)
                    if got!=exp: note('taproot',(nin,nout,idx,hex(ht),annex[:2].hex(),len(ext),got if not isinstance(got,bytes) else got.hex()[:16]))
print("evals",ev,"violations",dict(bad))
for k,v in first.items(): print(k,str(v)[:400])
