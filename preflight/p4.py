from btclib.script.engine import verify_input
from btclib.script.engine.script import verify_script
from btclib.script.engine.flags import ScriptFlag, NO_FLAGS
from btclib.script.script_pub_key import ScriptPubKey
from btclib.script import taproot
from btclib.tx import Tx, TxIn, TxOut, OutPoint
from btclib.script.witness import Witness
from btclib.hashes import tagged_hash
from btclib import var_bytes
from btclib.curves import mult
# tapscript with 0xff in an unexecuted branch: OP_0 OP_IF 0xff OP_ENDIF OP_1
for name, script in (("0xff in dead branch", bytes([0x00,0x63,0xff,0x68,0x51])), ("0xff before OP_SUCCESS80", bytes([0xff,0x50]))):
    ik = mult(3)[0].to_bytes(32,"big")
    k = tagged_hash(b"TapLeaf", b"\xc0"+var_bytes.serialize(script))
    q, parity = taproot.output_pubkey_from_merkle_root(ik, k)
    control = bytes([0xc0+parity])+ik
    spk = ScriptPubKey(b"\x51\x20"+q)
    vin = TxIn(OutPoint(b"\x11"*32,0)); vin.script_witness = Witness([script, control])
    tx = Tx(2,0,[vin],[TxOut(1000, spk)])
    try:
        verify_input([TxOut(2000, spk)], tx, 0); print(name, "ACCEPTED")
    except Exception as e: print(name, "rejected:", type(e).__name__, e)
# empty signature + invalid pubkey under STRICTENC: Core fails with PUBKEYTYPE, btclib?
tx = Tx(2,0,[TxIn(OutPoint(b"\x11"*32,0))],[TxOut(1000, ScriptPubKey(b"\x51"))])
st=[]
try:
    verify_script(bytes([0x00, 0x01, 0x05, 0xac, 0x91]), st, 0, tx, 0, ScriptFlag.STRICTENC, False, True)  # OP_0 <05> CHECKSIG NOT
    print("empty sig + bad pubkey under STRICTENC: ACCEPTED (Core: SCRIPT_ERR_PUBKEYTYPE)")
except Exception as e: print("rejected", type(e).__name__, e)
