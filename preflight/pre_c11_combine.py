"""Throw-away pre-flight: combine() is lossless and order-independent on the vendored valid PSBTs.
Every PSBT is split, at the raw key-value level (independent map reader), into two copies each missing one
different key-value pair; both orders of combine must give back every pair of the original."""
import json, base64, itertools, collections, io, sys
from btclib.psbt.psbt import Psbt, combine
from btclib.exceptions import BTClibValueError, BTClibTypeError, BTClibRuntimeError
def rd_cs(b,i):
    x=b[i]
    if x<0xfd: return x,i+1
    if x==0xfd: return int.from_bytes(b[i+1:i+3],'little'),i+3
    if x==0xfe: return int.from_bytes(b[i+1:i+5],'little'),i+5
    return int.from_bytes(b[i+1:i+9],'little'),i+9
def wr_cs(n): return bytes([n]) if n<0xfd else b"\xfd"+n.to_bytes(2,'little') if n<=0xffff else b"\xfe"+n.to_bytes(4,'little')
def read_maps(raw):
    assert raw[:5]==b"psbt\xff"; i=5; maps=[]
    while i<len(raw):
        m=[]
        while True:
            kl,i=rd_cs(raw,i)
            if kl==0: break
            k=raw[i:i+kl]; i+=kl
            vl,i=rd_cs(raw,i); v=raw[i:i+vl]; i+=vl
            m.append((k,v))
        maps.append(m)
    return maps
def write_maps(maps):
    out=b"psbt\xff"
    for m in maps:
        for k,v in m: out+=wr_cs(len(k))+k+wr_cs(len(v))+v
        out+=b"\x00"
    return out
def kvset(raw): return collections.Counter((mi,k,v) for mi,m in enumerate(read_maps(raw)) for k,v in m)
files=["bip174_test_vectors.json","bip370_test_vectors.json","bip371_test_vectors.json","bip373_test_vectors.json","bip375_test_vectors.json","btclib_test_vectors.json"]
psbts=[]
def walk(o):
    if isinstance(o,dict):
        for k,v in o.items():
            if isinstance(v,str) and v.startswith("cHNidP"): psbts.append(v)
            else: walk(v)
    elif isinstance(o,list):
        for v in o: walk(v)
    elif isinstance(o,str) and o.startswith("cHNidP"): psbts.append(o)
for f in files:
    try: walk(json.load(open("/repo/tests/psbt/_data/"+f)))
    except Exception as e: print("skip",f,e)
bad=collections.Counter(); first={}; ev=collections.Counter(); lostkeys=collections.Counter()
def note(k,i): bad[k]+=1; first.setdefault(k,i)
seen=set()
for b64 in psbts:
    raw=base64.b64decode(b64)
    if raw in seen: continue
    seen.add(raw)
    try: p=Psbt.parse(raw)
    except (BTClibValueError,BTClibTypeError,BTClibRuntimeError): continue
    ev['valid']+=1
    base=p.serialize()
    if kvset(base)!=kvset(raw): note('reserialize-loses-pairs',(b64[:40],sorted((kvset(raw)-kvset(base)).elements())[:2]))
    maps=read_maps(base)
    atoms=[(mi,ai) for mi,m in enumerate(maps) for ai in range(len(m))]
    # copies with one atom removed that still parse
    copies=[]
    for (mi,ai) in atoms:
        mm=[list(m) for m in maps]; del mm[mi][ai]
        try: q=Psbt.parse(write_maps(mm)); copies.append(((mi,ai),q))
        except (BTClibValueError,BTClibTypeError,BTClibRuntimeError): pass
    copies=copies[:14]
    for (a,qa),(b,qb) in itertools.permutations(copies,2):
        ev['pairs']+=1
        sa,sb=qa.serialize(),qb.serialize()
        try: c=combine([qa,qb])
        except (BTClibValueError,BTClibTypeError,BTClibRuntimeError) as e:
            if 'mismatched psbt.tx.id' in str(e): ev['identity-differs (legit refusal)']+=1
            else: note('combine-refuses',(b64[:30],a,b,str(e)[:80]))
            continue
        except Exception as e: note('combine-contract',(b64[:30],a,b,type(e).__name__,str(e)[:80])); continue
        if qa.serialize()!=sa or qb.serialize()!=sb: note('operand-mutated',(b64[:30],a,b))
        got=kvset(c.serialize()); want=kvset(sa)|kvset(sb)
        # PSBT_GLOBAL_TX_MODIFIABLE (global key 06) has BIP370's own merge rule, not a union
        got=collections.Counter({k:v for k,v in got.items() if not (k[0]==0 and k[1]==b"\x06")})
        want=collections.Counter({k:v for k,v in want.items() if not (k[0]==0 and k[1]==b"\x06")})
        if got!=want:
            miss=sorted((want-got).elements())[:2]; extra=sorted((got-want).elements())[:2]
            nin=len(c.inputs)
            for m,k,v in (want-got).elements(): lostkeys[('global' if m==0 else 'in' if m<=nin else 'out', 'lost', k[:1].hex(), 'v%d'%c.version)]+=1
            for m,k,v in (got-want).elements(): lostkeys[('global' if m==0 else 'in' if m<=nin else 'out', 'extra', k[:1].hex(), 'v%d'%c.version)]+=1
            note('lossy-or-extra',(b64[:30],a,b,[(m,k.hex(),v.hex()[:20]) for m,k,v in miss],[(m,k.hex(),v.hex()[:20]) for m,k,v in extra]))
print(dict(ev)); print("violations",dict(bad)); print(sorted(lostkeys.items(),key=lambda kv:-kv[1]))
for k,v in first.items(): print(k,str(v)[:500])
