"""Throw-away pre-flights: BIP32 laws (C07), taproot trees (C12), bech32 payload mutations (C06)."""
import itertools, time, collections, hashlib, hmac
bad=collections.Counter(); first={}
def note(k,i): bad[k]+=1; first.setdefault(k,i)
# ---------- independent secp256k1 reference
p=2**256-2**32-977; n=0xFFFFFFFFFFFFFFFFFFFFFFFFFFFFFFFEBAAEDCE6AF48A03BBFD25E8CD0364141
G=(0x79BE667EF9DCBBAC55A06295CE870B07029BFCDB2DCE28D959F2815B16F81798,0x483ADA7726A3C4655DA4FBFC0E1108A8FD17B448A68554199C47D08FFB10D4B8)
def add(P1,P2):
    if P1 is None: return P2
    if P2 is None: return P1
    if P1[0]==P2[0] and (P1[1]+P2[1])%p==0: return None
    lam=(3*P1[0]*P1[0]*pow(2*P1[1],-1,p) if P1==P2 else (P2[1]-P1[1])*pow(P2[0]-P1[0],-1,p))%p
    x=(lam*lam-P1[0]-P2[0])%p; return x,(lam*(P1[0]-x)-P1[1])%p
def mul(k,P):
    R=None
    while k:
        if k&1: R=add(R,P)
        P=add(P,P); k>>=1
    return R
def ser(P): return bytes([2+(P[1]&1)])+P[0].to_bytes(32,'big')
def h160(b): return hashlib.new('ripemd160',hashlib.sha256(b).digest()).digest()
# BIP32 reference
def ckd_prv(k,c,i):
    data=(b"\x00"+k.to_bytes(32,'big') if i>=2**31 else ser(mul(k,G)))+i.to_bytes(4,'big')
    I=hmac.new(c,data,'sha512').digest(); return (int.from_bytes(I[:32],'big')+k)%n, I[32:]
def ckd_pub(K,c,i):
    I=hmac.new(c,ser(K)+i.to_bytes(4,'big'),'sha512').digest(); return add(mul(int.from_bytes(I[:32],'big'),G),K), I[32:]
from btclib.bip32 import bip32
from btclib.bip32.bip32 import BIP32KeyData
t0=time.time(); nn=0
IDX=[0,1,2**31-1,2**31,2**31+1,2**32-1]
seed=bytes(range(16)); I=hmac.new(b"Bitcoin seed",seed,'sha512').digest()
root=bip32.rootxprv_from_seed_(seed)
mk=int.from_bytes(I[:32],'big'); mc=I[32:]
for d in (1,2,3):
    for path in itertools.product(IDX,repeat=d):
        nn+=1
        k,c=mk,mc; parentK=None
        for i in path:
            parentK=mul(k,G); k,c=ckd_prv(k,c,i)
        got=bip32.derive_(root,list(path))
        exp=(d,h160(ser(parentK))[:4],path[-1],c,b"\x00"+k.to_bytes(32,'big'))
        if (got.depth,got.parent_fingerprint,got.index,got.chain_code,got.key)!=exp: note('bip32-prv',(path,))
        # splits
        for cut in range(1,d):
            two=bip32.derive_(bip32.derive_(root,list(path[:cut])),list(path[cut:]))
            if two!=got: note('bip32-split',(path,cut))
        # neuter commutation on unhardened suffixes
        if all(i<2**31 for i in path):
            a_=bip32.xpub_from_xprv_(got); b_=bip32.derive_(bip32.xpub_from_xprv_(root),list(path))
            if a_!=b_: note('bip32-neuter',(path,))
        else:
            try:
                bip32.derive_(bip32.xpub_from_xprv_(root),list(path)); note('bip32-hardened-from-pub-accepted',(path,))
            except Exception as e:
                if type(e).__name__!='BTClibValueError': note('bip32-hardened-exc',(path,type(e).__name__))
print("C07 paths",nn,round(time.time()-t0,1),"s")
# ---------- taproot trees vs BIP341 reference
def tagged(tag,m):
    t=hashlib.sha256(tag.encode()).digest(); return hashlib.sha256(t+t+m).digest()
def compact(nb): return bytes([len(nb)])+nb if len(nb)<253 else None
def ref_tree(tree):
    if isinstance(tree,tuple):
        v,s=tree; h=tagged("TapLeaf",bytes([v])+compact(s)); return [((v,s),b"")],h
    l,lh=ref_tree(tree[0]); r,rh=ref_tree(tree[1])
    ret=[(x,c+rh) for x,c in l]+[(x,c+lh) for x,c in r]
    if rh<lh: lh,rh=rh,lh
    return ret,tagged("TapBranch",lh+rh)
def lift_x(x):
    y=pow((pow(x,3,p)+7)%p,(p+1)//4,p)
    if y*y%p!=(pow(x,3,p)+7)%p: return None
    return (x,y if y%2==0 else p-y)
def shapes(k):
    if k==1: yield 'L'; return
    for i in range(1,k):
        for a in shapes(i):
            for b in shapes(k-i): yield [a,b]
from btclib.script import taproot as tr
from btclib.script.taproot import output_pubkey, output_prvkey, input_script_sig, check_output_pubkey
scripts=[b"\x51", b"\x52", b"\x00\x63\x51\x68"]
def label(shape,it):
    if shape=='L': return next(it)
    return [label(shape[0],it),label(shape[1],it)]
def to_btclib(t):
    if isinstance(t,tuple): return [(t[0], tr.parse(t[1]))]
    return [to_btclib(t[0]),to_btclib(t[1])]
t0=time.time(); nt=0
for q in (1,2,3,n-1):
    P=mul(q,G); ik=P[0].to_bytes(32,'big')
    for k in (1,2,3,4):
        for shape in shapes(k):
            for labs in itertools.product(range(3),repeat=k):
                nt+=1
                tree=label(shape,iter([(0xc0,scripts[i]) for i in labs]))
                leaves,root=ref_tree(tree)
                t=int.from_bytes(tagged("TapTweak",ik+root),'big')
                Pe=lift_x(P[0]); Q=add(Pe,mul(t,G))
                try:
                    got,par=output_pubkey("02"+ik.hex() if True else ik, to_btclib(tree))
                except Exception as e: note('tr-raise',(q,tree,repr(e))); continue
                if (got,par)!=(Q[0].to_bytes(32,'big'),Q[1]&1): note('tr-outkey',(q,tree))
                d=output_prvkey(q,to_btclib(tree))
                if mul(d,G)[0]!=Q[0]: note('tr-prvkey',(q,tree))
                for li,((v,s),path) in enumerate(leaves):
                    sc,cb=input_script_sig("02"+ik.hex(),to_btclib(tree),li)
                    if cb!=bytes([v+(Q[1]&1)])+ik+path: note('tr-control',(q,tree,li))
                    if not check_output_pubkey(got,s,cb): note('tr-check',(q,tree,li))
                    # flip a few bits
                    for bit in (0,7,8,8*33-1, 8*len(cb)-1):
                        cb2=bytearray(cb); cb2[bit//8]^=1<<(bit%8)
                        try: ok=check_output_pubkey(got,s,bytes(cb2))
                        except Exception as e: ok=False if type(e).__name__.startswith('BTClib') else repr(e)
                        if ok is not False: note('tr-flip-accepted',(q,tree,li,bit,ok))
print("C12 trees",nt,round(time.time()-t0,1),"s")
print("violations",dict(bad))
for k,v in first.items(): print(k,str(v)[:300])
