"""Throw-away probe: does Curve() accept a generator whose true order is a proper multiple of n?"""
import sys
from btclib.curves import Curve, mult
from btclib.exceptions import BTClibValueError
P=int(sys.argv[1])
def primes(P): return [p for p in range(3,P+1) if all(p%d for d in range(2,int(p**.5)+1))]
def pf(N):
    f=set(); m=N; d=2
    while d*d<=m:
        while m%d==0: f.add(d); m//=d
        d+=1
    if m>1: f.add(m)
    return f
def radd(P1,P2,p,a):
    if P1 is None: return P2
    if P2 is None: return P1
    x1,y1=P1; x2,y2=P2
    if x1==x2 and (y1+y2)%p==0: return None
    lam=((3*x1*x1+a)*pow(2*y1,-1,p) if P1==P2 else (y2-y1)*pow(x2-x1,-1,p))%p
    x3=(lam*lam-x1-x2)%p
    return x3,(lam*(x1-x3)-y1)%p
def order(Pt,p,a):
    R=Pt; k=1
    while R is not None: R=radd(R,Pt,p,a); k+=1
    return k
acc=[]; tried=0
for p in primes(P):
  for a in range(p):
    for b in range(p):
      if (4*a**3+27*b*b)%p==0: continue
      pts=[(x,y) for x in range(p) for y in range(p) if (y*y-(x**3+a*x+b))%p==0]
      N=len(pts)+1
      for n in pf(N):
        if n<3: continue
        h=N//n
        for G in pts:
            if G[1]==0: continue
            o=order(G,p,a)
            if o==n or o%n: continue      # want proper multiples of n
            tried+=1
            try:
                ec=Curve(p,a,b,G,n,h,weakness_check=False)
                acc.append((p,a,b,G,n,h,o))
            except BTClibValueError: pass
print("tried",tried,"accepted",len(acc)); print(acc[:8])
from collections import Counter
print(Counter(o//n for *_,n,h,o in acc))
if acc:
    p,a,b,G,n,h,o=acc[0]; ec=Curve(p,a,b,G,n,h,weakness_check=False)
    print("mult(n,G)=",mult(n,G,ec),"mult(n+1,G)=",mult(n+1,G,ec),"G=",G)
