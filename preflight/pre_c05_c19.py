"""Throw-away pre-flight: d=1 byte neighbourhoods of the suite's own samples; accepted => re-serializes identically; refusals in contract."""
import sys, collections, time, signal
sys.path.insert(0,"/repo")
from tests import fuzz_test as F
from btclib.exceptions import BTClibValueError, BTClibTypeError, BTClibRuntimeError
CONTRACT=(BTClibValueError,BTClibTypeError,BTClibRuntimeError)
bad=collections.Counter(); first={}; ev=collections.Counter()
def note(k,i): bad[k]+=1; first.setdefault(k,i)
def neigh(s):
    for i in range(len(s)+1): yield ('trunc',i), s[:i]
    for i in range(len(s)):
        for b in range(256):
            if b!=s[i]: yield ('sub',i,b), s[:i]+bytes([b])+s[i+1:]
    for i in range(len(s)): yield ('del',i), s[:i]+s[i+1:]
    for i in range(len(s)+1):
        for b in (0,1,0x4c,0x7f,0x80,0xfc,0xfd,0xfe,0xff): yield ('ins',i,b), s[:i]+bytes([b])+s[i:]
    for b in (0,1,0xff): yield ('ext',b), s+bytes([b])
def ser(obj):
    try: return obj.serialize(check_validity=False)
    except TypeError:
        try: return obj.serialize(True, check_validity=False)   # Tx/Block include_witness
        except TypeError: return obj.serialize(include_witness=True, check_validity=False)
t0=time.time()
for name,(parse,sample) in F.MUTATED_PARSERS.items():
    if len(sample)>400: sample_=sample   # still do it
    for tag,data in neigh(sample):
        ev[name]+=1
        try: obj=parse(data)
        except CONTRACT: continue
        except Exception as e: note('contract:'+name,(tag,type(e).__name__,str(e)[:80])); continue
        try: back=ser(obj)
        except CONTRACT as e: note('accepted-but-unserializable:'+name,(tag,type(e).__name__,str(e)[:80])); continue
        except Exception as e: note('ser-contract:'+name,(tag,type(e).__name__,str(e)[:80])); continue
        if name=="Psbt.parse":
            # key order is free in BIP174: fixed point only
            again=ser(parse(back))
            if again!=back: note('psbt-not-fixed-point',(tag,))
        elif back!=data: note('noncanonical-accepted:'+name,(tag,data.hex()[:80],back.hex()[:80]))
print(dict(ev), round(time.time()-t0,1),"s")
print("violations",dict(bad))
for k,v in first.items(): print(k,str(v)[:300])
