"""Throw-away E4 feasibility check: replay every edge of TLC's state graph of Ledger.tla on a real BIP32KeyWallet."""
import re, subprocess, sys, os, shutil, tempfile, collections
from btclib.wallet import BIP32KeyWallet
from btclib.bip32 import rootxprv_from_seed
here=os.path.dirname(os.path.abspath(__file__))
work=tempfile.mkdtemp(prefix="ledger_", dir=here)
try:
    subprocess.run(["tlc","-workers","1","-noGenerateSpecTE","-metadir",os.path.join(work,"meta"),"-deadlock","-dump","dot,actionlabels",os.path.join(work,"g.dot"),"Ledger.tla"],cwd=here,check=True,capture_output=True,text=True)
    dot=open(os.path.join(work,"g.dot")).read()
finally:
    pass
nodes={}; edges=[]
for m in re.finditer(r'^(-?\d+) \[label="(.*?)"', dot, re.M): nodes[m.group(1)]=m.group(2)
for m in re.finditer(r'^(-?\d+) -> (-?\d+) \[label="(.*?)"', dot, re.M): edges.append((m.group(1),m.group(2),m.group(3)))
init=[k for k,v in nodes.items() if 'handed = <<>>' in v][0]
def parse_state(lbl):
    handed=[(int(a),int(b)) for a,b in re.findall(r'<<(\d+), (\d+)>>',lbl.split('next')[0])]
    nxt={int(a):int(b) for a,b in re.findall(r'(\d+) :> (\d+)',lbl)}
    return handed,nxt
# BFS tree for shortest paths
adj=collections.defaultdict(list)
for s,t,l in edges: adj[s].append((t,l))
path={init:[]}; q=collections.deque([init])
while q:
    s=q.popleft()
    for t,l in adj[s]:
        if t not in path: path[t]=path[s]+[l]; q.append(t)
xprv=rootxprv_from_seed(b"\x07"*16)
def apply(w,label):
    m=re.match(r'Addr\((\d+),\s*(\d+)\)',label)
    if m: return w.address(int(m.group(1)),int(m.group(2)))
    m=re.match(r'NextAddr\((\d+)\)',label)
    if m: return w.next_address(int(m.group(1)))
    raise ValueError(label)
def observe(w):
    handed=[(w.address_info(a).branch,w.address_info(a).index) for a in w.addresses]
    return handed,{b:w._next_index.get(b,0) for b in (0,1)}
bad=0; replayed=0
for s,t,l in edges:
    if l=="Next": continue           # TLC also labels the enclosing formula; named actions carry the call
    w=BIP32KeyWallet(xprv,"m/84h/0h/0h")
    for step in path[s]:
        if step!="Next": apply(w,step)
    if observe(w)!=parse_state(nodes[s]): bad+=1; print("SOURCE MISMATCH",nodes[s],observe(w)); continue
    apply(w,l); replayed+=1
    if observe(w)!=parse_state(nodes[t]): bad+=1; print("EDGE MISMATCH",l,nodes[s],"->",nodes[t],observe(w))
print("states",len(nodes),"edges",len(edges),"replayed",replayed,"mismatches",bad)
shutil.rmtree(work)
