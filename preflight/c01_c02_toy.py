"""Throw-away pre-flight of the C01.b / C02.a / C03.a oracles on the toy universe (not framework code)."""
import time, sys, collections
from btclib.curves import Curve, mult, double_mult_var, PreparedPoint
from btclib.curves.curve_group import _mult, _jac_from_aff, CurveGroup
from btclib.ecc import dsa, ssa
from btclib.exceptions import BTClibValueError, BTClibRuntimeError
P=int(sys.argv[1]) if len(sys.argv)>1 else 19
def primes(P): return [p for p in range(3,P+1) if all(p%d for d in range(2,int(p**.5)+1))]
def pf(N):
    f=set(); m=N; d=2
    while d*d<=m:
        while m%d==0: f.add(d); m//=d
        d+=1
    if m>1: f.add(m)
    return f
# reference affine arithmetic, None = infinity
def radd(P1,P2,p,a):
    if P1 is None: return P2
    if P2 is None: return P1
    x1,y1=P1; x2,y2=P2
    if x1==x2 and (y1+y2)%p==0: return None
    lam=((3*x1*x1+a)*pow(2*y1,-1,p) if P1==P2 else (y2-y1)*pow(x2-x1,-1,p))%p
    x3=(lam*lam-x1-x2)%p
    return x3,(lam*(x1-x3)-y1)%p
def rmul(m,Pt,p,a):
    R=None
    for _ in range(m): R=radd(R,Pt,p,a)
    return R
def toref(Q): return None if Q[1]==0 else Q
bad=collections.Counter(); n_ev=collections.Counter(); first={}
def note(k,info):
    bad[k]+=1
    first.setdefault(k,info)
t0=time.time(); ncurves=0
for p in primes(P):
  for a in range(p):
    for b in range(p):
      if (4*a**3+27*b*b)%p==0: continue
      pts=[(x,y) for x in range(p) for y in range(p) if (y*y-(x**3+a*x+b))%p==0]
      N=len(pts)+1; cg=CurveGroup(p,a,b)
      for n in pf(N):
        if n<3: continue
        h=N//n; G=None
        for Pt in pts:
            Q=rmul(h,Pt,p,a)
            if Q is not None and rmul(n,Q,p,a) is None: G=Q;break
        if G is None: continue
        refused_ok = None
        try: ec=Curve(p,a,b,G,n,h,weakness_check=False)
        except BTClibValueError: continue
        ncurves+=1
        # reference table k -> kG
        tab=[None]; 
        for k in range(1,n): tab.append(radd(tab[-1],G,p,a))
        if radd(tab[-1],G,p,a) is not None: print("ORDER MISMATCH", p,a,b,G,n,h, tab); continue
        idx={t:k for k,t in enumerate(tab)}
        # C01.b public mult, all scalars in [-n,2n], all subgroup points
        for k in range(n):
            Pk=tab[k] if tab[k] else (5,0)
            for m in range(-n,2*n+1):
                n_ev['mult']+=1
                got=toref(mult(m,Pk,ec))
                if got!=tab[(m*k)%n]: note('mult',(p,a,b,G,n,h,m,Pk,got,tab[(m*k)%n]))
        # C02.a integer-level ecdsa
        if n<=23:
          for q in range(1,n):
            Q=tab[q]
            for c in range(n):
              for k in range(1,n):
                for low in (False,True):
                    n_ev['dsa']+=1
                    K=tab[k]; r=K[0]%n; s=pow(k,-1,n)*(c+r*q)%n
                    try:
                        sig,key_id=dsa._sign_recoverable_(c,q,k,low,ec)
                    except BTClibRuntimeError:
                        if r!=0 and s!=0: note('dsa-sign-refused',(p,a,b,G,n,h,q,c,k,low))
                        continue
                    if r==0 or s==0: note('dsa-sign-accepted-zero',(p,a,b,G,n,h,q,c,k)); continue
                    es = n-s if (low and s>n//2) else s
                    if (sig.r,sig.s)!=(r,es): note('dsa-sign-value',(p,a,b,G,n,h,q,c,k,low,(sig.r,sig.s),(r,es)))
                    try:
                        dsa._assert_as_valid_(c,(Q[0],Q[1],1),sig.r,sig.s,ec,ec._fixed_points,lower_s=False)
                    except Exception as e: note('dsa-verify-own',(p,a,b,G,n,h,q,c,k,low,repr(e)))
                    try:
                        RJ=dsa._recover_pub_key_(key_id,c,sig.r,sig.s,ec,lower_s=False)
                        R=toref(ec.aff_from_jac_var(RJ))
                        if R!=Q: note('dsa-recover-wrong',(p,a,b,G,n,h,q,c,k,low,key_id,R,Q))
                    except Exception as e: note('dsa-recover-raise',(p,a,b,G,n,h,q,c,k,low,key_id,repr(e)))
        # C02 soundness (small n only)
        if n<=13:
          for q in range(1,n):
            Q=tab[q]
            for c in range(n):
              for r in range(0,n+1):
                for s in range(0,n+1):
                    n_ev['dsa-sound']+=1
                    exp=False
                    if 0<r<n and 0<s<n:
                        w=pow(s,-1,n); u=c*w%n; v=r*w%n
                        K=tab[(u+v*q)%n]
                        exp = K is not None and K[0]%n==r
                    mh=(c<<(256-ec.nlen)).to_bytes(32,'big')
                    try:
                        got=dsa.verify_(mh,Q,dsa.Sig(r,s,ec,check_validity=False))
                    except Exception as e: got=repr(e)
                    if got!=exp: note('dsa-sound',(p,a,b,G,n,h,q,c,r,s,got,exp))
print("curves",ncurves,"evals",dict(n_ev),"time",round(time.time()-t0,1))
print("violations",dict(bad))
for k,v in first.items(): print(k,v)
