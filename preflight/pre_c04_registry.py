"""Throw-away pre-flight: a first C04 sweep — same call on both backends, value or exception class compared."""
import itertools, collections, hashlib
from btclib.curves import curve, mult, double_mult_var, multi_mult_var, secp256k1 as ec, bytes_from_point, point_from_octets, bytes_from_prv_key_int
from btclib.curves.curve import _sum_var, _tweak_add_var, _is_x_coordinate_var, _y_even_var
from btclib.ecc import dsa, ssa, bms, dh
from btclib.ecc import ellswift
from btclib.script import taproot
from btclib.bip32 import bip32
from btclib.script.engine.script import dsa_verify
from btclib.script.engine.tapscript import ssa_verify
n,p,G=ec.n,ec.p,ec.G
def obs(f):
    try: r=f()
    except Exception as e: return ('exc',type(e).__name__)
    return ('ok',r)
diffs=collections.Counter(); first={}; ev=0
def both(name,f):
    global ev; ev+=1
    curve.set_libsecp256k1_serving(serving=True); a=obs(f)
    curve.set_libsecp256k1_serving(serving=False); b=obs(f)
    curve.set_libsecp256k1_serving(serving=True)
    if a!=b:
        k=name.split('|')[0]+": "+(a[1] if a[0]=='exc' else 'ok')+" vs "+(b[1] if b[0]=='exc' else 'ok')
        diffs[k]+=1; first.setdefault(k,(name,str(a)[:80],str(b)[:80]))
SC=[0,1,2,n-1,n,n+1,p,2**256-1,-1]
P2=mult(2); PM=(G[0],p-G[1])
def lift(x):
    y=pow((pow(x,3,p)+7)%p,(p+1)//4,p); return (x,y) if y*y%p==(pow(x,3,p)+7)%p else None
offx=next(x for x in range(1,100) if lift(x) is None)
PTS=[G,PM,P2,(5,0),(1,1),(G[0]+p,G[1]),(G[0],0),(0,0),(offx,1),(p,G[1])]
for m in SC:
    for Q in PTS: both(f"mult|{m}|{Q[0]%1000}", lambda m=m,Q=Q: mult(m,Q))
for u,v in itertools.product(SC[:6],repeat=2):
    for H,Q in itertools.product(PTS[:6],repeat=2): both(f"double_mult|{u}|{v}", lambda u=u,v=v,H=H,Q=Q: double_mult_var(u,H,v,Q))
for sc in itertools.product([0,1,n-1,n],repeat=3):
    for pts in itertools.product(PTS[:5],repeat=3): both("multi_mult|", lambda sc=sc,pts=pts: multi_mult_var(list(sc),list(pts)))
for pts in itertools.product(PTS[:7],repeat=2): both("_sum_var|", lambda pts=pts: _sum_var(list(pts),ec))
for Q in PTS[:7]:
    for t in SC: both("_tweak_add_var|", lambda Q=Q,t=t: _tweak_add_var(Q,t,ec))
for q in SC:
    for c in (True,False): both("bytes_from_prv_key_int|", lambda q=q,c=c: bytes_from_prv_key_int(q,ec,c))
# key encodings
good=bytes_from_point(P2); goodu=bytes_from_point(P2,compressed=False)
ENC=[good,goodu,b"\x02"+good[1:],b"\x03"+good[1:],b"\x06"+goodu[1:],b"\x07"+goodu[1:],b"\x05"+good[1:],good[:-1],good+b"\x00",b"\x02"+offx.to_bytes(32,'big'),b"\x02"+p.to_bytes(32,'big'),b"\x02"+bytes(32),b"\x04"+bytes(64),b"",b"\x04"+goodu[1:33]+bytes(32)]
for e in ENC:
    for hyb in (False,True): both("point_from_octets|", lambda e=e,hyb=hyb: point_from_octets(e,ec,hybrid=hyb))
for x in (0,1,offx,G[0],p-1,p,p+G[0],2**256-1,-1):
    both("_is_x_coordinate_var|", lambda x=x: _is_x_coordinate_var(x,ec)); both("_y_even_var|", lambda x=x: _y_even_var(x,ec))
# ECDSA
mh=hashlib.sha256(b"m").digest()
for q in (1,2,n-1,0,n): both("dsa.sign_|", lambda q=q: dsa.sign_(mh,q).serialize() if True else None)
sig=dsa.sign_(mh,2); Qk=mult(2)
SIGS=[sig,dsa.Sig(sig.r,n-sig.s,check_validity=False),dsa.Sig(0,sig.s,check_validity=False),dsa.Sig(sig.r,0,check_validity=False),dsa.Sig(n,sig.s,check_validity=False),dsa.Sig(sig.r,n,check_validity=False),dsa.Sig(offx,sig.s,check_validity=False),sig.serialize(),sig.serialize()[:-1],sig.serialize()+b"\x00",b""]
KEYS=[Qk,G,good,goodu,ENC[4],ENC[5],ENC[9],ENC[10],(5,0),(1,1),b""]
for s_,k_ in itertools.product(SIGS,KEYS):
    both("dsa.verify_|", lambda s_=s_,k_=k_: dsa.verify_(mh,k_,s_)); both("dsa.assert_as_valid_|", lambda s_=s_,k_=k_: dsa.assert_as_valid_(mh,k_,s_))
for s_ in SIGS:
    for kid in (0,1,2,3,4,-1): both("dsa.recover_pub_key_|", lambda s_=s_,kid=kid: dsa.recover_pub_key_(kid,mh,s_))
    both("dsa.recover_pub_keys_|", lambda s_=s_: dsa.recover_pub_keys_(mh,s_))
for pk,sg in itertools.product(ENC,[sig.serialize(),sig.serialize()[:-1],b"",b"\x30"]):
    both("engine.dsa_verify|", lambda pk=pk,sg=sg: dsa_verify(mh,pk,sg))
# BIP340
for q in (1,2,n-1,0,n):
    for msg in (b"",b"a",bytes(32),bytes(33)):
        both("ssa.sign_|", lambda q=q,msg=msg: ssa.sign_(msg,q,bytes(32)).serialize())
ss=ssa.sign_(bytes(32),2,bytes(32)); xq=Qk[0]
SS=[ss,ssa.Sig(ss.r,n,check_validity=False),ssa.Sig(p,ss.s,check_validity=False),ssa.Sig(offx,ss.s,check_validity=False),ssa.Sig(ss.r,(ss.s+1)%n,check_validity=False),ss.serialize(),ss.serialize()[:-1],ss.serialize()+b"\x00",b""]
XK=[xq,xq.to_bytes(32,'big'),good,goodu,Qk,offx,p,p+xq,2**256,-1,(5,0),b"",bytes(33)]
for s_,k_,msg in itertools.product(SS,XK,(bytes(32),b"")):
    both("ssa.verify_|", lambda s_=s_,k_=k_,msg=msg: ssa.verify_(msg,k_,s_)); both("ssa.assert_as_valid_|", lambda s_=s_,k_=k_,msg=msg: ssa.assert_as_valid_(msg,k_,s_))
for pk,sg in itertools.product([xq.to_bytes(32,'big'),offx.to_bytes(32,'big'),p.to_bytes(32,'big'),bytes(31),bytes(33),b""],[ss.serialize(),ss.serialize()[:-1],bytes(64),b""]):
    both("tapscript.ssa_verify|", lambda pk=pk,sg=sg: ssa_verify(bytes(32),pk,sg))
# DH, taproot, bip32
for d in SC:
    for Q in PTS[:7]: both("dh|", lambda d=d,Q=Q: dh.diffie_hellman(d,Q,32))
for ik in (good,goodu,xq.to_bytes(32,'big'),ENC[9],ENC[10],ENC[6],b"\x02"+bytes(32)):
    for tree in (None,[[(0xc0,["OP_1"])]]): both("taproot.output_pubkey|", lambda ik=ik,tree=tree: taproot.output_pubkey(ik,tree))
    for mr in (b"",bytes(32)):
        if len(ik)==32: both("taproot.output_pubkey_from_merkle_root|", lambda ik=ik,mr=mr: taproot.output_pubkey_from_merkle_root(ik,mr))
for q in (1,2,n-1,0,n): both("taproot.output_prvkey|", lambda q=q: taproot.output_prvkey(q))
qk,par=taproot.output_pubkey_from_merkle_root(xq.to_bytes(32,'big'),b"")
for qq in (qk,offx.to_bytes(32,'big'),bytes(32),qk[:-1],p.to_bytes(32,'big')):
    for cb in (bytes([0xc0+par])+xq.to_bytes(32,'big'),bytes([0xc1-par])+xq.to_bytes(32,'big'),bytes([0xc0])+offx.to_bytes(32,'big'),bytes([0xc0])+p.to_bytes(32,'big'),bytes(33),bytes(32),bytes(65)):
        both("taproot.check_output_pubkey|", lambda qq=qq,cb=cb: taproot.check_output_pubkey(qq,b"\x51",cb))
root=bip32.rootxprv_from_seed_(bytes(16)); xpub=bip32.xpub_from_xprv_(root)
for path in ("m","m/0","m/0h","m/2147483647/1","m/0/1/2/3"):
    both("bip32.derive_prv|", lambda path=path: bip32.derive_(root,path)); both("bip32.derive_pub|", lambda path=path: bip32.derive_(xpub,path))
print("calls",ev,"differing classes",len(diffs))
for k,v in sorted(diffs.items(),key=lambda kv:-kv[1]): print(v,k,"e.g.",first[k])
