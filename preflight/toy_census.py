import collections
from btclib.curves import Curve
from btclib.exceptions import BTClibValueError
def primes(P): return [p for p in range(3,P+1) if all(p%d for d in range(2,int(p**.5)+1))]
def pf(N):
    f=set(); m=N; d=2
    while d*d<=m:
        while m%d==0: f.add(d); m//=d
        d+=1
    if m>1: f.add(m)
    return f
def radd(P1,P2,p,a):
    if P1 is None: return P2
    if P2 is None: return P1
    x1,y1=P1; x2,y2=P2
    if x1==x2 and (y1+y2)%p==0: return None
    lam=((3*x1*x1+a)*pow(2*y1,-1,p) if P1==P2 else (y2-y1)*pow(x2-x1,-1,p))%p
    x3=(lam*lam-x1-x2)%p
    return x3,(lam*(x1-x3)-y1)%p
def rmul(m,Pt,p,a):
    R=None; Q=Pt
    while m:
        if m&1: R=radd(R,Q,p,a)
        Q=radd(Q,Q,p,a) if Q is not None else None
        m>>=1
    return R
st=collections.Counter(); cof=collections.Counter(); acc=ref=0
for p in primes(31):
    for a in range(p):
        for b in range(p):
            if (4*a**3+27*b*b)%p==0: continue
            pts=[(x,y) for x in range(p) for y in range(p) if (y*y-(x**3+a*x+b))%p==0]
            N=len(pts)+1
            for n in pf(N):
                if n<3: continue
                h=N//n; G=None
                for Pt in pts:
                    if Pt[1]==0: continue
                    Q=rmul(h,Pt,p,a)
                    if Q is not None and Q[1]!=0 and rmul(n,Q,p,a) is None: G=Q;break
                if G is None: continue
                try:
                    Curve(p,a,b,G,n,h,weakness_check=False); acc+=1; cof[h]+=1
                    st["a0" if a==0 else "a-3" if a==p-3 else "agen"]+=1; st[f"pmod8={p%8}"]+=1
                    st["n<p" if n<p else "n>p"]+=1; st[f"p={p}"]+=1
                except BTClibValueError: ref+=1
print(acc,ref); print(sorted(cof.items())); print(sorted(st.items()))
