"""Throw-away pre-flight: exception contract on single-character text mutations and single-field JSON mutations."""
import sys, json, collections, copy, base64, signal
sys.path.insert(0,"/repo")
from tests import fuzz_test as F
from btclib.exceptions import BTClibValueError, BTClibTypeError, BTClibRuntimeError
CONTRACT=(BTClibValueError,BTClibTypeError,BTClibRuntimeError)
bad=collections.Counter(); first={}; ev=collections.Counter()
def note(k,i): bad[k]+=1; first.setdefault(k,i)
class Hang(Exception): pass
def alarm(*a): raise Hang()
signal.signal(signal.SIGALRM,alarm)
def call(name,f,x):
    ev[name]+=1
    signal.setitimer(signal.ITIMER_REAL,3)
    try: f(x)
    except CONTRACT: pass
    except Hang: note('HANG:'+name,repr(x)[:80])
    except Exception as e: note(name+":"+type(e).__name__,(repr(x)[:100],str(e)[:80]))
    finally: signal.setitimer(signal.ITIMER_REAL,0)
from btclib import b32,b58,base58,bech32,bip322,descriptors,bip21
from btclib.bip32.bip32 import BIP32KeyData, rootxprv_from_seed, xpub_from_xprv
from btclib.descriptors import miniscript
from btclib.ecc import bms, ecies
from btclib.psbt.psbt import Psbt
from btclib.curves import mult, bytes_from_point
xprv=rootxprv_from_seed(bytes(16)); xpub=xpub_from_xprv(xprv)
kA=bytes_from_point(mult(2)).hex()
SAMPLES={
 "base58.decode":[ (base58.decode, b58.p2pkh(kA)) ],
 "b58.h160_from_address":[ (b58.h160_from_address, b58.p2pkh(kA)) ],
 "b32.witness_from_address":[ (b32.witness_from_address, b32.p2wpkh(kA)), (b32.witness_from_address, b32.p2tr(bytes(32))) ],
 "bech32.decode":[ (bech32.decode, b32.p2wpkh(kA)) ],
 "BIP32KeyData.b58decode":[ (BIP32KeyData.b58decode, xprv), (BIP32KeyData.b58decode, xpub) ],
 "descriptors.parse":[ (descriptors.parse, descriptors.add_checksum(f"wpkh([deadbeef/84h/0h/0h]{xpub}/0/*)")), (descriptors.parse, descriptors.add_checksum(f"tr({kA[2:]},{{pk({xpub}/1/*),multi_a(1,{xpub}/2/*,{kA[2:]})}})")), (descriptors.parse, descriptors.add_checksum(f"wsh(and_v(v:pk({kA}),older(10)))")), (descriptors.parse, descriptors.add_checksum(f"sh(sortedmulti(1,{kA},{xpub}/<0;1>/*))")) ],
 "miniscript.parse":[ (miniscript.parse, f"andor(pk({kA}),older(10),and_v(v:pkh({kA}),after(500000001)))"), (miniscript.parse, f"thresh(2,pk({kA}),s:pk({kA}),sln:older(12))") ],
 "Psbt.b64decode":[ (Psbt.b64decode, base64.b64encode(F.PSBT_BIN).decode()) ],
 "bip21.parse":[ (bip21.Bip21.parse, f"bitcoin:{b32.p2wpkh(kA)}?amount=0.1&label=a%20b&req-x=1") ],
 "descriptors.checksum":[ (descriptors.checksum, f"wpkh({xpub}/0/*)") ],
}
CH=[" ","!","#","'","(",")","*",",","/","0","1","9",":",";","<",">","@","A","Z","[","]","_","a","h","q","z","{","}","~","\x00","\n","é","　","�","\U0001F600","%","&","=","?","+","-","."]
for name,lst in SAMPLES.items():
    for f,s in lst:
        for i in range(len(s)+1):
            call(name,f,s[:i])
            if i<len(s): call(name,f,s[:i]+s[i+1:])
            for c in CH:
                if i<len(s): call(name,f,s[:i]+c+s[i+1:])
                call(name,f,s[:i]+c+s[i:])
        call(name,f,s.upper()); call(name,f,s.swapcase()); call(name,f,s+s); call(name,f,s.encode()); call(name,f,"("*5000+s); call(name,f,s+")"*5000)
for deep,f in (("{"*3000+"pk("+kA+")"+"}"*3000, descriptors.parse), ("and_v("*3000+"1"+")"*3000, miniscript.parse), ("tr("+kA[2:]+","+"{"*200+"pk("+kA+")"+"}"*200+")", descriptors.parse), ("v:"*5000+"1", miniscript.parse), ("t"*20000+":1", miniscript.parse)):
    call("deep-nesting",f,deep)
# ---- JSON single-field mutations
from btclib.tx import Tx, TxIn, TxOut, OutPoint
from btclib.script.witness import Witness
from btclib.block.block_header import BlockHeader
from btclib.block.block import Block
from btclib.psbt.psbt_in import PsbtIn
from btclib.psbt.psbt_out import PsbtOut
from btclib.bip32.key_origin import BIP32KeyOrigin
from btclib.network import Network, NETWORKS
tx=Tx.parse(F.TX_BIN); blk=Block.parse(F.BLOCK_BIN); psbt=Psbt.parse(F.PSBT_BIN)
OBJ=[(Tx,tx),(TxIn,tx.vin[0]),(TxOut,tx.vout[0]),(OutPoint,tx.vin[0].prev_out),(Witness,tx.vin[0].script_witness),(BlockHeader,blk.header),(Block,blk),(Psbt,psbt),(PsbtIn,psbt.inputs[0]),(PsbtOut,psbt.outputs[0]),(BIP32KeyOrigin,BIP32KeyOrigin(b"\x01\x02\x03\x04","m/1h/2")),(Network,NETWORKS["mainnet"])]
VALS=[None,True,False,0,-1,1,2**64,2**31,1.5,float("nan"),"","zz","00","0x10",[],{},[[]],[None],{"a":1},"é"]
deepv=[]; 
for _ in range(500): deepv=[deepv]
VALS.append(deepv)
def paths(o,pre=()):
    if isinstance(o,dict):
        for k,v in o.items():
            yield pre+(k,)
            yield from paths(v,pre+(k,))
    elif isinstance(o,list):
        for i,v in enumerate(o[:2]):
            yield pre+(i,)
            yield from paths(v,pre+(i,))
def setp(o,path,val,delete=False):
    o=copy.deepcopy(o); cur=o
    for k in path[:-1]: cur=cur[k]
    if delete: del cur[path[-1]]
    else: cur[path[-1]]=val
    return o
for cls,obj in OBJ:
    try: d=json.loads(json.dumps(obj.to_dict()))
    except Exception as e: note('to_dict:'+cls.__name__,(type(e).__name__,str(e)[:80])); continue
    name=cls.__name__+".from_dict"
    call(name,cls.from_dict,d)
    for v in VALS: call(name,cls.from_dict,v)
    for path in paths(d):
        call(name,cls.from_dict,setp(d,path,None,delete=True))
        for v in VALS: call(name,cls.from_dict,setp(d,path,v))
print(dict(ev)); print("violation classes",len(bad))
for k,v in sorted(bad.items(),key=lambda kv:-kv[1]): print(v,k,str(first[k])[:230])
