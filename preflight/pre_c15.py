"""Throw-away pre-flight: miniscript static consistency over a small expression grammar (both contexts)."""
import itertools, collections, time, hashlib
from btclib.descriptors import miniscript as ms
from btclib.curves import mult, bytes_from_point
from btclib.hashes import hash160
from btclib.exceptions import BTClibValueError, BTClibTypeError
bad=collections.Counter(); first={}; ev=collections.Counter()
def note(k,i): bad[k]+=1; first.setdefault(k,i)
K={c:bytes_from_point(mult(i+2)) for i,c in enumerate("ABC")}
H32=hashlib.sha256(b"x").hexdigest(); H20=hashlib.new('ripemd160',b"x").hexdigest()
def leaves(ctx):
    key=lambda c: K[c].hex() if ctx==ms.P2WSH else K[c][1:].hex()
    L=[ "0","1", f"pk_k({key('A')})", f"pk_h({key('A')})", f"pk({key('A')})", f"pkh({key('B')})",
        "older(1)","older(4194305)","after(1)","after(500000000)",
        f"sha256({H32})", f"hash256({H32})", f"ripemd160({H20})", f"hash160({H20})" ]
    if ctx==ms.P2WSH: L+=[f"multi(1,{key('A')},{key('B')})", f"multi(2,{key('A')},{key('B')},{key('C')})"]
    else: L+=[f"multi_a(1,{key('A')},{key('B')})", f"multi_a(2,{key('A')},{key('B')},{key('C')})"]
    return L
WR=["a","s","c","d","v","j","n","t","l","u"]
BIN=["and_v","and_b","or_b","or_c","or_d","or_i","and_n"]
def wrapped(e):
    yield e
    for w in WR: yield f"{w}:{e}"
    for w1,w2 in itertools.product(WR,repeat=2): yield f"{w1}{w2}:{e}"
def exprs(ctx):
    base=[w for l in leaves(ctx) for w in wrapped(l)]
    for e in base: yield e
    # two-leaf combinators over singly-wrapped leaves
    one=[w for l in leaves(ctx) for w in itertools.islice(wrapped(l),0,11)]
    for op in BIN:
        for x,y in itertools.product(one,repeat=2): yield f"{op}({x},{y})"
    small=[w for l in leaves(ctx)[:8] for w in itertools.islice(wrapped(l),0,11)]
    for x,y,z in itertools.product(small[:40],small[:40],small[:12]): yield f"andor({x},{y},{z})"
    for k in (1,2):
        for x,y in itertools.product(one,repeat=2): yield f"thresh({k},{x},{y})"
t0=time.time()
for ctx in (ms.P2WSH, ms.TAPSCRIPT):
    for e in exprs(ctx):
        ev['tried']+=1
        try: node=ms.parse(e,ctx)
        except (BTClibValueError,BTClibTypeError): continue
        except Exception as ex: note('parse-contract',(ctx,e,type(ex).__name__,str(ex)[:80])); continue
        ev['parsed']+=1
        if not node.is_sane: continue
        ev['sane']+=1
        try:
            sc=node.script()
            if len(sc)!=node.script_size: note('size',(ctx,e,len(sc),node.script_size))
            back=ms.from_script(sc,ctx,{hash160(v if ctx==ms.P2WSH else v[1:]):(v if ctx==ms.P2WSH else v[1:]) for v in K.values()})
            if back.script()!=sc: note('readback-script',(ctx,e))
            again=ms.parse(str(node),ctx)
            if again!=node: note('text-roundtrip',(ctx,e,str(node)))
        except Exception as ex: note('exc',(ctx,e,type(ex).__name__,str(ex)[:100]))
print(dict(ev),round(time.time()-t0,1),"s"); print("violations",dict(bad))
for k,v in first.items(): print(k,str(v)[:400])
