"""Throw-away pre-flight: MuSig2 completeness over signer sets, orders, tweak sequences, with an independent BIP340 verifier
and an independent BIP327 KeyAgg for the expected aggregate key."""
import itertools, hashlib, collections, time
from btclib.ecc import musig2
from btclib.curves import curve
p=2**256-2**32-977; n=0xFFFFFFFFFFFFFFFFFFFFFFFFFFFFFFFEBAAEDCE6AF48A03BBFD25E8CD0364141
G=(0x79BE667EF9DCBBAC55A06295CE870B07029BFCDB2DCE28D959F2815B16F81798,0x483ADA7726A3C4655DA4FBFC0E1108A8FD17B448A68554199C47D08FFB10D4B8)
def add(P1,P2):
    if P1 is None: return P2
    if P2 is None: return P1
    if P1[0]==P2[0] and (P1[1]+P2[1])%p==0: return None
    lam=(3*P1[0]*P1[0]*pow(2*P1[1],-1,p) if P1==P2 else (P2[1]-P1[1])*pow(P2[0]-P1[0],-1,p))%p
    x=(lam*lam-P1[0]-P2[0])%p; return x,(lam*(P1[0]-x)-P1[1])%p
def mul(k,P):
    R=None
    while k:
        if k&1: R=add(R,P)
        P=add(P,P); k>>=1
    return R
def tagged(t,m): h=hashlib.sha256(t.encode()).digest(); return hashlib.sha256(h+h+m).digest()
def lift_x(x):
    if x>=p: return None
    y=pow((pow(x,3,p)+7)%p,(p+1)//4,p)
    if y*y%p!=(pow(x,3,p)+7)%p: return None
    return (x,y if y%2==0 else p-y)
def cbytes(P): return bytes([2+(P[1]&1)])+P[0].to_bytes(32,'big')
def cpoint(b):
    P=lift_x(int.from_bytes(b[1:],'big')); return P if b[0]==2 else (P[0],p-P[1])
def schnorr_verify(msg,xpk,sig):
    P=lift_x(int.from_bytes(xpk,'big')); r=int.from_bytes(sig[:32],'big'); s=int.from_bytes(sig[32:],'big')
    if P is None or r>=p or s>=n: return False
    e=int.from_bytes(tagged("BIP0340/challenge",sig[:32]+xpk+msg),'big')%n
    R=add(mul(s,G),mul(n-e,P))
    return R is not None and R[1]%2==0 and R[0]==r
def ref_keyagg(pks,tweaks):   # BIP327 KeyAgg + ApplyTweak
    L=tagged("KeyAgg list",b"".join(pks)); second=next((pk for pk in pks[1:] if pk!=pks[0]),None)
    Q=None
    for pk in pks:
        a=1 if pk==second else int.from_bytes(tagged("KeyAgg coefficient",L+pk),'big')%n
        Q=add(Q,mul(a,cpoint(pk)))
    for t,xonly in tweaks:
        g=n-1 if (xonly and Q[1]%2) else 1
        Q=add(mul(g,Q),mul(int.from_bytes(t,'big'),G))
    return Q
bad=collections.Counter(); first={}; ev=0
def note(k,i): bad[k]+=1; first.setdefault(k,i)
keys=[3,5,7,11,(n-1)//2]
TW=[hashlib.sha256(b"t1").digest(),hashlib.sha256(b"t2").digest()]
tweakseqs=[[]]+[[(t,x)] for t in TW[:1] for x in (False,True)]+[[(TW[0],a),(TW[1],b)] for a in (False,True) for b in (False,True)]
t0=time.time()
for serving in (True,False):
  curve.set_libsecp256k1_serving(serving=serving)
  for k in (1,2,3):
    for ks in itertools.product(keys[:4],repeat=k) if k<3 else itertools.permutations(keys,3):
      pks=[musig2.individual_pub_key(q) for q in ks]
      for tws in tweakseqs:
        for msg in (b"",bytes(32),bytes(33)):
            ev+=1
            tweaks=[t for t,_ in tws]; xo=[x for _,x in tws]
            try:
                nonces=[musig2.nonce_gen_(hashlib.sha256(bytes([i])+msg).digest(),q,pk,None,msg) for i,(q,pk) in enumerate(zip(ks,pks))]
                agg=musig2.nonce_agg([pn for _,pn in nonces])
                ctx=musig2.SessionContext(agg,pks,tweaks,xo,msg)
                psigs=[musig2.sign(sn,q,ctx) for (sn,_),q in zip(nonces,ks)]
                for i,(ps,(_,pn),pk) in enumerate(zip(psigs,nonces,pks)):
                    if not musig2.partial_sig_verify_(ps,pn,pk,ctx): note('partial-sig-invalid',(serving,ks,tws and xo,len(msg),i))
                sig=musig2.partial_sig_agg(psigs,ctx).serialize()
            except Exception as e: note('raises:'+type(e).__name__,(serving,ks,xo,len(msg),str(e)[:60])); continue
            Q=ref_keyagg(pks,tws)
            libQ=musig2.key_agg_and_tweak(pks,tweaks,xo).Q
            if libQ!=Q: note('aggregate-key',(serving,ks,xo))
            if not schnorr_verify(msg,Q[0].to_bytes(32,'big'),sig): note('aggregate-sig-invalid',(serving,ks,xo,len(msg)))
curve.set_libsecp256k1_serving(serving=True)
print("sessions",ev,round(time.time()-t0,1),"s; violation classes",len(bad))
for k,v in sorted(bad.items(),key=lambda kv:-kv[1]): print(v,k,str(first[k])[:260])
