---- MODULE Ledger ----
EXTENDS Naturals, Sequences, FiniteSets
CONSTANTS B, MaxI
VARIABLES next, handed
Init == next = [b \in B |-> 0] /\ handed = <<>>
Addr(b,i) == /\ next' = [next EXCEPT ![b] = IF i+1 > next[b] THEN i+1 ELSE next[b]]
             /\ handed' = IF \E k \in 1..Len(handed): handed[k] = <<b,i>> THEN handed ELSE Append(handed, <<b,i>>)
Next == \E b \in B: \/ \E i \in 0..MaxI: Addr(b,i)
                   \/ (next[b] <= MaxI /\ Addr(b,next[b]))
Inv == \A b \in B: \A k \in 1..Len(handed): handed[k][1] = b => handed[k][2] < next[b]
Spec == Init /\ [][Next]_<<next,handed>>
====
