---- MODULE Ledger ----
(* Smoke model of the wallet ledger of btclib.wallet.RangedWallet (pre-flight only). *)
EXTENDS Naturals, Sequences
CONSTANTS B, MaxI
VARIABLES next, handed
vars == <<next, handed>>
Init == next = [b \in B |-> 0] /\ handed = <<>>
Record(b,i) == IF \E k \in 1..Len(handed): handed[k] = <<b,i>> THEN handed ELSE Append(handed, <<b,i>>)
Addr(b,i) == /\ next' = [next EXCEPT ![b] = IF i+1 > next[b] THEN i+1 ELSE next[b]]
             /\ handed' = Record(b,i)
NextAddr(b) == /\ next[b] <= MaxI
               /\ next' = [next EXCEPT ![b] = next[b] + 1]
               /\ handed' = Record(b, next[b])
Next == \E b \in B: (\E i \in 0..MaxI: Addr(b,i)) \/ NextAddr(b)
Inv == \A b \in B: \A k \in 1..Len(handed): handed[k][1] = b => handed[k][2] < next[b]
Spec == Init /\ [][Next]_vars
====
