from btclib.psbt.psbt_in import PsbtIn
from btclib.psbt_signer import SoftwareSigner
from btclib.bip32 import rootxprv_from_seed, derive, BIP32KeyData
from btclib.bip32.key_origin import BIP32KeyOrigin
from btclib.bip32.bip32 import fingerprint
import traceback
# 1: closed signer still signs via KeyManager methods?
x = rootxprv_from_seed(b"\x01"*16)
s = SoftwareSigner(x)
child = BIP32KeyData.b58decode(derive(x, "m/0"))
from btclib.bip32.bip32 import xpub_from_xprv_
pub = xpub_from_xprv_(child).key
s.close()
try:
    r = s.sign_ecdsa(pub, BIP32KeyOrigin(fingerprint(x), "m/0"), b"\x02"*32)
    print("closed signer sign_ecdsa ->", None if r is None else r.hex()[:20])
except Exception as e:
    print("closed signer raises", type(e).__name__, e)
# 2: sig_hash_type 0 round trip
pi = PsbtIn(sig_hash_type=0)
b = pi.serialize()
print("sighash0 serialize:", b.hex())
raw = bytes.fromhex("0103"+"04"+"00000000"+"00")
p2 = PsbtIn.parse(raw)
print("parsed sig_hash_type:", p2.sig_hash_type, "reser:", p2.serialize().hex(), "orig:", raw.hex())
# 3: from_dict(to_dict) taproot bip32
pi = PsbtIn(taproot_hd_key_paths={b"\x11"*32: ([b"\x22"*32], BIP32KeyOrigin(b"\x01\x02\x03\x04","m/1"))})
try:
    q = PsbtIn.from_dict(pi.to_dict())
    print("from_dict ok", q == pi)
except Exception as e:
    print("from_dict raises", type(e).__name__, e)
