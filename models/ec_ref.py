"""Reference elliptic-curve arithmetic: affine, None = infinity, nothing of btclib.

Also the toy-curve universe U(P): every (p, a, b) with non-zero discriminant for
primes p <= P, every prime n >= 3 dividing the group order, a generator of EXACT
order n chosen with this arithmetic (never the library's: on even-order curves
btclib's affine tables read the 2-torsion point (x, 0) as the in-band infinity).
"""
from __future__ import annotations

import functools


def primes(P):
    return [p for p in range(3, P + 1) if all(p % d for d in range(2, int(p**0.5) + 1))]


def prime_factors(N):
    f = set()
    m = N
    d = 2
    while d * d <= m:
        while m % d == 0:
            f.add(d)
            m //= d
        d += 1
    if m > 1:
        f.add(m)
    return f


def add(P1, P2, p, a):
    if P1 is None:
        return P2
    if P2 is None:
        return P1
    x1, y1 = P1
    x2, y2 = P2
    if x1 == x2 and (y1 + y2) % p == 0:
        return None
    if P1 == P2:
        lam = (3 * x1 * x1 + a) * pow(2 * y1, -1, p) % p
    else:
        lam = (y2 - y1) * pow(x2 - x1, -1, p) % p
    x3 = (lam * lam - x1 - x2) % p
    return x3, (lam * (x1 - x3) - y1) % p


def neg(P, p):
    return None if P is None else (P[0], (-P[1]) % p)


def mul(m, Pt, p, a):
    """Double-and-add; m may be any integer."""
    if m < 0:
        return mul(-m, neg(Pt, p), p, a)
    R = None
    Q = Pt
    while m:
        if m & 1:
            R = add(R, Q, p, a)
        Q = add(Q, Q, p, a)
        m >>= 1
    return R


def on_curve(P, p, a, b):
    return P is None or (0 <= P[0] < p and 0 <= P[1] < p and (P[1] ** 2 - (P[0] ** 3 + a * P[0] + b)) % p == 0)


def points(p, a, b):
    """All affine points by brute force."""
    sq = {}
    for y in range(p):
        sq.setdefault(y * y % p, []).append(y)
    out = []
    for x in range(p):
        for y in sq.get((x**3 + a * x + b) % p, []):
            out.append((x, y))
    return out


def order_of(Pt, p, a):
    R = Pt
    k = 1
    while R is not None:
        R = add(R, Pt, p, a)
        k += 1
    return k


@functools.lru_cache(maxsize=None)
def universe_params(P):
    """[(p, a, b, G, n, h)] for every candidate of U(P), before asking btclib to accept it."""
    out = []
    for p in primes(P):
        for a in range(p):
            for b in range(p):
                if (4 * a**3 + 27 * b * b) % p == 0:
                    continue
                pts = points(p, a, b)
                N = len(pts) + 1
                for n in sorted(prime_factors(N)):
                    if n < 3:
                        continue
                    h = N // n
                    G = None
                    for Pt in pts:
                        Q = mul(h, Pt, p, a)
                        if Q is not None and order_of(Q, p, a) == n:
                            G = Q
                            break
                    if G is not None:
                        out.append((p, a, b, G, n, h))
    return out


def subgroup_table(G, n, p, a):
    """tab[k] = k*G for k in 0..n-1 (tab[0] = None)."""
    tab = [None]
    for _ in range(1, n):
        tab.append(add(tab[-1], G, p, a))
    assert add(tab[-1], G, p, a) is None, "generator order mismatch in the reference"
    return tab


def to_ref(Q):
    """btclib affine point -> reference point (btclib spells infinity as y == 0 ... on curves
    of odd order only; callers restrict to subgroup points where (x, 0) is unreachable)."""
    return None if Q[1] == 0 else (Q[0], Q[1])


INF_LIB = (7, 0)  # btclib.curves INF spelling is checked by the users against curve_group.INF


def self_gate():
    # secp256k1: G*n = inf, 2G known x
    p = 2**256 - 2**32 - 977
    G = (0x79BE667EF9DCBBAC55A06295CE870B07029BFCDB2DCE28D959F2815B16F81798,
         0x483ADA7726A3C4655DA4FBFC0E1108A8FD17B448A68554199C47D08FFB10D4B8)
    n = 0xFFFFFFFFFFFFFFFFFFFFFFFFFFFFFFFEBAAEDCE6AF48A03BBFD25E8CD0364141
    assert mul(n, G, p, 0) is None
    assert mul(2, G, p, 0)[0] == 0xC6047F9441ED7D6D3045406E95C07CD85C778E4B8CEF3CA7ABAC09B95C709EE5
    assert mul(n - 1, G, p, 0) == neg(G, p)
    assert on_curve(G, p, 0, 7)
    # a toy curve: y^2 = x^3 + 5x + 1 over F_23 has order 31? brute force agrees with Hasse
    N = len(points(23, 5, 1)) + 1
    assert abs(N - 24) <= 2 * 23**0.5
    return 4 + self_gate_fast()


def mul_fast(m, Pt, p, a):
    """Same function as mul(), computed in Jacobian coordinates (one inversion at the end):
    for 256-bit curves, where the affine ladder's inversion per step dominates.  Textbook formulas
    (dbl-2007-bl / add-2007-bl simplified), gated against mul() in self_gate_fast()."""
    if Pt is None or m == 0:
        return None
    if m < 0:
        return mul_fast(-m, neg(Pt, p), p, a)

    def dbl(X, Y, Z):
        if Y == 0 or Z == 0:
            return (0, 1, 0)
        S = 4 * X * Y * Y % p
        M = (3 * X * X + a * pow(Z, 4, p)) % p
        X3 = (M * M - 2 * S) % p
        Y3 = (M * (S - X3) - 8 * pow(Y, 4, p)) % p
        return X3, Y3, 2 * Y * Z % p

    def addj(X1, Y1, Z1, x2, y2):  # mixed addition with an affine point
        if Z1 == 0:
            return x2, y2, 1
        Z1Z1 = Z1 * Z1 % p
        U2 = x2 * Z1Z1 % p
        S2 = y2 * Z1 * Z1Z1 % p
        if U2 == X1:
            if S2 != Y1:
                return (0, 1, 0)
            return dbl(X1, Y1, Z1)
        H = (U2 - X1) % p
        Rr = (S2 - Y1) % p
        H2 = H * H % p
        H3 = H * H2 % p
        X3 = (Rr * Rr - H3 - 2 * X1 * H2) % p
        Y3 = (Rr * (X1 * H2 - X3) - Y1 * H3) % p
        return X3, Y3, Z1 * H % p

    X, Y, Z = 0, 1, 0
    for bit in bin(m)[2:]:
        X, Y, Z = dbl(X, Y, Z)
        if bit == "1":
            X, Y, Z = addj(X, Y, Z, Pt[0], Pt[1])
    if Z == 0:
        return None
    zi = pow(Z, -1, p)
    return X * zi * zi % p, Y * zi * zi * zi % p


def self_gate_fast():
    p = 2**256 - 2**32 - 977
    G = (0x79BE667EF9DCBBAC55A06295CE870B07029BFCDB2DCE28D959F2815B16F81798,
         0x483ADA7726A3C4655DA4FBFC0E1108A8FD17B448A68554199C47D08FFB10D4B8)
    n = 0xFFFFFFFFFFFFFFFFFFFFFFFFFFFFFFFEBAAEDCE6AF48A03BBFD25E8CD0364141
    for m in (1, 2, 3, 7, n - 1, n, n + 1, 2**255 + 12345, -5):
        assert mul_fast(m, G, p, 0) == mul(m, G, p, 0), m
    for (pp, a, b) in ((23, 5, 1), (13, 2, 3), (31, 0, 7)):
        for Pt in points(pp, a, b):
            for m in range(0, 40):
                assert mul_fast(m, Pt, pp, a) == mul(m, Pt, pp, a), (pp, a, b, Pt, m)
    return 9
