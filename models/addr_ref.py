"""Reference text encodings: BIP173/BIP350 segwit_addr (transcribed from the BIPs' reference code),
big-integer Base58 / Base58Check.  Nothing of btclib."""
from __future__ import annotations

import hashlib

CH = "qpzry9x8gf2tvdw0s3jn54khce6mua7l"
BECH32_CONST = 1
BECH32M_CONST = 0x2BC830A3
B58 = "123456789ABCDEFGHJKLMNPQRSTUVWXYZabcdefghijkmnopqrstuvwxyz"


def polymod(v):
    G = [0x3B6A57B2, 0x26508E6D, 0x1EA119FA, 0x3D4233DD, 0x2A1462B3]
    c = 1
    for x in v:
        b = c >> 25
        c = (c & 0x1FFFFFF) << 5 ^ x
        for i in range(5):
            c ^= G[i] if (b >> i) & 1 else 0
    return c


def hrpx(h):
    return [ord(x) >> 5 for x in h] + [0] + [ord(x) & 31 for x in h]


def bech32_encode(hrp, data, const):
    pm = polymod(hrpx(hrp) + data + [0] * 6) ^ const
    return hrp + "1" + "".join(CH[d] for d in data + [(pm >> 5 * (5 - i)) & 31 for i in range(6)])


def convertbits(data, f, t, pad=True):
    acc = bits = 0
    ret = []
    maxv = (1 << t) - 1
    max_acc = (1 << (f + t - 1)) - 1
    for v in data:
        if v < 0 or v >> f:
            return None
        acc = ((acc << f) | v) & max_acc
        bits += f
        while bits >= t:
            bits -= t
            ret.append((acc >> bits) & maxv)
    if pad:
        if bits:
            ret.append((acc << (t - bits)) & maxv)
    elif bits >= f or ((acc << (t - bits)) & maxv):
        return None
    return ret


def bech32_decode(bech):
    """BIP173 bech32_decode: (hrp, data, const) or None."""
    if any(ord(x) < 33 or ord(x) > 126 for x in bech) or (bech.lower() != bech and bech.upper() != bech):
        return None
    a = bech.lower()
    pos = a.rfind("1")
    if pos < 1 or pos + 7 > len(a) or len(a) > 90:
        return None
    if any(x not in CH for x in a[pos + 1:]):
        return None
    h = a[:pos]
    data = [CH.find(x) for x in a[pos + 1:]]
    const = polymod(hrpx(h) + data)
    if const not in (BECH32_CONST, BECH32M_CONST):
        return None
    return h, data[:-6], const


def segwit_decode(hrp, addr):
    """BIP173/350 decode(hrp, addr): (version, program) or None."""
    d = bech32_decode(addr)
    if d is None:
        return None
    h, data, spec = d
    if h != hrp or len(data) < 1:
        return None
    dec = convertbits(data[1:], 5, 8, False)
    if dec is None or len(dec) < 2 or len(dec) > 40 or data[0] > 16:
        return None
    if data[0] == 0 and len(dec) not in (20, 32):
        return None
    if (data[0] == 0 and spec != BECH32_CONST) or (data[0] != 0 and spec != BECH32M_CONST):
        return None
    return data[0], bytes(dec)


def segwit_encode(hrp, ver, prog):
    return bech32_encode(hrp, [ver] + convertbits(prog, 8, 5), BECH32_CONST if ver == 0 else BECH32M_CONST)


def b58encode(b: bytes) -> str:
    n = int.from_bytes(b, "big")
    s = ""
    while n:
        n, r = divmod(n, 58)
        s = B58[r] + s
    z = len(b) - len(b.lstrip(b"\x00"))
    return "1" * z + s


def b58decode(s: str):
    """bytes, or None for a character outside the alphabet."""
    n = 0
    for c in s:
        i = B58.find(c)
        if i < 0 or c == "":
            return None
        n = n * 58 + i
    z = len(s) - len(s.lstrip("1"))
    body = n.to_bytes((n.bit_length() + 7) // 8, "big") if n else b""
    return b"\x00" * z + body


def b58check_encode(payload: bytes) -> str:
    return b58encode(payload + hashlib.sha256(hashlib.sha256(payload).digest()).digest()[:4])


def b58check_decode(s: str):
    raw = b58decode(s)
    if raw is None or len(raw) < 4:
        return None
    payload, ck = raw[:-4], raw[-4:]
    if hashlib.sha256(hashlib.sha256(payload).digest()).digest()[:4] != ck:
        return None
    return payload


def self_gate():
    # BIP173 / BIP350 test vectors (valid and invalid addresses)
    valid = [("BC1QW508D6QEJXTDG4Y5R3ZARVARY0C5XW7KV8F3T4", "bc", 0, "751e76e8199196d454941c45d1b3a323f1433bd6"),
             ("bc1pw508d6qejxtdg4y5r3zarvary0c5xw7kw508d6qejxtdg4y5r3zarvary0c5xw7kt5nd6y", "bc", 1, "751e76e8199196d454941c45d1b3a323f1433bd6751e76e8199196d454941c45d1b3a323f1433bd6"),
             ("BC1SW50QGDZ25J", "bc", 16, "751e"),
             ("bc1zw508d6qejxtdg4y5r3zarvaryvaxxpcs", "bc", 2, "751e76e8199196d454941c45d1b3a323"),
             ("bc1p0xlxvlhemja6c4dqv22uapctqupfhlxm9h8z3k2e72q4k9hcz7vqzk5jj0", "bc", 1, "79be667ef9dcbbac55a06295ce870b07029bfcdb2dce28d959f2815b16f81798")]
    for a, hrp, v, p in valid:
        assert segwit_decode(hrp, a) == (v, bytes.fromhex(p)), a
        assert segwit_encode(hrp, v, bytes.fromhex(p)) == a.lower()
    invalid = ["tc1qw508d6qejxtdg4y5r3zarvary0c5xw7kg3g4ty", "bc1qw508d6qejxtdg4y5r3zarvary0c5xw7kv8f3t5", "BC13W50QGDZ25J" "x", "bc1rw5uspcuh",
               "bc10w508d6qejxtdg4y5r3zarvary0c5xw7kw508d6qejxtdg4y5r3zarvary0c5xw7kw5rljs90", "BC1QR508D6QEJXTDG4Y5R3ZARVARYV98GJ9P", "tb1qrp33g0q5c5txsp9arysrx4k6zdkfs4nce4xj0gdcccefvpysxf3q0sL5k7",
               "bc1zw508d6qejxtdg4y5r3zarvaryvqyzf3du", "tb1qrp33g0q5c5txsp9arysrx4k6zdkfs4nce4xj0gdcccefvpysxf3pjxtptv", "bc1gmk9yu",
               "bc1p0xlxvlhemja6c4dqv22uapctqupfhlxm9h8z3k2e72q4k9hcz7vqh2y7hd", "bc1qw508d6qejxtdg4y5r3zarvary0c5xw7kemeawh", "bc1p38j9r5y49hruaue7wxjce0updqjuyyx0kh56v8s25huc6995vvpql3jow4"]
    for a in invalid:
        assert segwit_decode("bc", a) is None and segwit_decode("tb", a) is None, a
    assert b58check_encode(bytes.fromhex("00010966776006953D5567439E5E39F86A0D273BEE")) == "16UwLL9Risc3QfPqBUvKofHmBQ7wMtjvM"
    assert b58check_decode("16UwLL9Risc3QfPqBUvKofHmBQ7wMtjvM") == bytes.fromhex("00010966776006953D5567439E5E39F86A0D273BEE")
    assert b58encode(b"\x00\x00\x01") == "112" and b58decode("112") == b"\x00\x00\x01"
    return len(valid) + len(invalid) + 3
