"""BIP341 reference (taproot_tweak_pubkey / taproot_tweak_seckey / taproot_tree_helper transcribed
from the BIP); nothing of btclib.  A tree is a leaf (version, script_bytes) or a pair [left, right]."""
from __future__ import annotations

import hashlib

from models import ec_ref as R
from models.bip340_ref import G_K1 as G
from models.bip340_ref import N_K1 as N
from models.bip340_ref import P_K1 as P
from models.sighash_ref import tagged, vb


def lift_x(x):
    if x >= P:
        return None
    c = (pow(x, 3, P) + 7) % P
    y = pow(c, (P + 1) // 4, P)
    if y * y % P != c:
        return None
    return (x, y if y % 2 == 0 else P - y)


def leaf_hash(version, script):
    return tagged("TapLeaf", bytes([version]) + vb(script))


def tree_helper(tree):
    if isinstance(tree, tuple):
        v, s = tree
        return [((v, s), b"")], leaf_hash(v, s)
    left, lh = tree_helper(tree[0])
    right, rh = tree_helper(tree[1])
    ret = [(x, c + rh) for x, c in left] + [(x, c + lh) for x, c in right]
    if rh < lh:
        lh, rh = rh, lh
    return ret, tagged("TapBranch", lh + rh)


def tweak_pubkey(x_internal: int, h: bytes):
    """-> (x_output, parity) or None when BIP341 says fail."""
    t = int.from_bytes(tagged("TapTweak", x_internal.to_bytes(32, "big") + h), "big")
    if t >= N:
        return None
    Pp = lift_x(x_internal)
    if Pp is None:
        return None
    Q = R.add(Pp, R.mul_fast(t, G, P, 0), P, 0)
    if Q is None:
        return None
    return Q[0], Q[1] & 1


def tweak_seckey(d0: int, h: bytes):
    Pp = R.mul_fast(d0, G, P, 0)
    d = d0 if Pp[1] % 2 == 0 else N - d0
    t = int.from_bytes(tagged("TapTweak", Pp[0].to_bytes(32, "big") + h), "big")
    if t >= N:
        return None
    return (d + t) % N


def control_block(x_internal, parity, version, path):
    return bytes([version + parity]) + x_internal.to_bytes(32, "big") + path


def verify_control(q: bytes, script: bytes, control: bytes):
    """BIP341 script-path validation of (q, script, control): True/False; None when malformed."""
    if len(q) != 32 or len(control) < 33 or (len(control) - 33) % 32 or len(control) > 33 + 32 * 128:
        return None
    m = (len(control) - 33) // 32
    k = leaf_hash(control[0] & 0xFE, script)
    for j in range(m):
        e = control[33 + 32 * j: 65 + 32 * j]
        k = tagged("TapBranch", k + e) if k < e else tagged("TapBranch", e + k)
    p = int.from_bytes(control[1:33], "big")
    out = tweak_pubkey(p, k)
    if out is None:
        return False
    return out[0].to_bytes(32, "big") == q and out[1] == control[0] & 1


def shapes(k):
    """All binary tree shapes with k leaves ('L' = leaf)."""
    if k == 1:
        yield "L"
        return
    for i in range(1, k):
        for a in shapes(i):
            for b in shapes(k - i):
                yield [a, b]


def label(shape, it):
    if shape == "L":
        return next(it)
    return [label(shape[0], it), label(shape[1], it)]


def self_gate():
    import json
    import os

    d = json.load(open(os.path.join(os.path.dirname(os.path.abspath(__file__)), "vectors", "taproot_test_vector.json")))
    n = 0

    def conv(t):
        if isinstance(t, dict):
            return (t["leafVersion"], bytes.fromhex(t["script"]))
        return [conv(t[0]), conv(t[1])]

    for v in d["scriptPubKey"]:
        x = int(v["given"]["internalPubkey"], 16)
        tree = v["given"]["scriptTree"]
        if tree is None:
            h = b""
            leaves = []
        else:
            leaves, h = tree_helper(conv(tree))
        out = tweak_pubkey(x, h)
        assert out[0].to_bytes(32, "big").hex() == v["intermediary"]["tweakedPubkey"], "BIP341 tweakedPubkey"
        exp_cbs = v["expected"].get("scriptPathControlBlocks", [])
        for (leaf, path), cb in zip(leaves, exp_cbs):
            got = control_block(x, out[1], leaf[0], path)
            assert got.hex() == cb, "BIP341 control block"
            assert verify_control(out[0].to_bytes(32, "big"), leaf[1], got) is True
        n += 1
    for k in d["keyPathSpending"]:
        for sp in k["inputSpending"]:
            g = sp["given"]
            h = bytes.fromhex(g["merkleRoot"]) if g["merkleRoot"] else b""
            got = tweak_seckey(int(g["internalPrivkey"], 16), h)
            assert got.to_bytes(32, "big").hex() == sp["intermediary"]["tweakedPrivkey"], "BIP341 tweakedPrivkey"
            n += 1
    return n
