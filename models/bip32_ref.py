"""BIP32 reference: HMAC-SHA512 + the reference ladder; nothing of btclib."""
from __future__ import annotations

import hashlib
import hmac

from models import ec_ref as R
from models.bip340_ref import G_K1 as G
from models.bip340_ref import N_K1 as N
from models.bip340_ref import P_K1 as P


def ser(K):
    return bytes([2 + (K[1] & 1)]) + K[0].to_bytes(32, "big")


def h160(b):
    return hashlib.new("ripemd160", hashlib.sha256(b).digest()).digest()


def pub(k):
    return R.mul_fast(k, G, P, 0)


def master(seed):
    I = hmac.new(b"Bitcoin seed", seed, "sha512").digest()
    return int.from_bytes(I[:32], "big"), I[32:]


class Invalid(Exception):
    pass


def ckd_prv(k, c, i, Kpar=None):
    data = (b"\x00" + k.to_bytes(32, "big") if i >= 2**31 else ser(Kpar or pub(k))) + i.to_bytes(4, "big")
    I = hmac.new(c, data, "sha512").digest()
    il = int.from_bytes(I[:32], "big")
    if il >= N:
        raise Invalid("IL >= n")
    ki = (il + k) % N
    if ki == 0:
        raise Invalid("zero key")
    return ki, I[32:]


def ckd_pub(K, c, i):
    if i >= 2**31:
        raise Invalid("hardened from public")
    I = hmac.new(c, ser(K) + i.to_bytes(4, "big"), "sha512").digest()
    il = int.from_bytes(I[:32], "big")
    if il >= N:
        raise Invalid("IL >= n")
    Ki = R.add(R.mul_fast(il, G, P, 0), K, P, 0)
    if Ki is None:
        raise Invalid("infinity")
    return Ki, I[32:]


def self_gate():
    # BIP32 test vector 1: seed 000102..0f, chain m/0H/1
    seed = bytes(range(16))
    k, c = master(seed)
    assert k.to_bytes(32, "big").hex() == "e8f32e723decf4051aefac8e2c93c9c5b214313817cdb01a1494b917c8436b35"
    assert c.hex() == "873dff81c02f525623fd1fe5167eac3a55a049de3d314bb42ee227ffed37d508"
    k1, c1 = ckd_prv(k, c, 2**31)
    assert k1.to_bytes(32, "big").hex() == "edb2e14f9ee77d26dd93b4ecede8d16ed408ce149b6cd80b0715a2d911a0afea"
    assert c1.hex() == "47fdacbd0f1097043b78c63c20c34ef4ed9a111d980047ad16282c7ae6236141"
    k2, c2 = ckd_prv(k1, c1, 1)
    assert k2.to_bytes(32, "big").hex() == "3c6cb8d0f6a264c91ea8b5030fadaa8e538b020f0a387421a12de9319dc93368"
    K2, c2p = ckd_pub(pub(k1), c1, 1)
    assert K2 == pub(k2) and c2p == c2
    assert ser(pub(k2)).hex() == "03501e454bf00751f24b1b489aa925215d66af2234e3891c3b21a52bedb3cd711c"
    return 5
