"""BIP340 reference (transcribed from the BIP's reference.py), generalised to any short
Weierstrass curve the way btclib documents it: coordinates as p_size bytes, scalars as
n_size bytes, hash outputs read as their leftmost nlen bits and reduced mod n.
On secp256k1 (p_size = n_size = 32, nlen = 256) this is exactly the BIP."""
from __future__ import annotations

import hashlib

from models import ec_ref as R

P_K1 = 2**256 - 2**32 - 977
N_K1 = 0xFFFFFFFFFFFFFFFFFFFFFFFFFFFFFFFEBAAEDCE6AF48A03BBFD25E8CD0364141
G_K1 = (0x79BE667EF9DCBBAC55A06295CE870B07029BFCDB2DCE28D959F2815B16F81798,
        0x483ADA7726A3C4655DA4FBFC0E1108A8FD17B448A68554199C47D08FFB10D4B8)


class Crv:
    def __init__(self, p, a, b, G, n):
        self.p, self.a, self.b, self.G, self.n = p, a, b, G, n
        self.psize = (p.bit_length() + 7) // 8
        self.nsize = (n.bit_length() + 7) // 8
        self.nlen = n.bit_length()


K1 = Crv(P_K1, 0, 7, G_K1, N_K1)


def tagged_hash(tag: bytes, msg: bytes, hf=hashlib.sha256) -> bytes:
    t = hf(tag).digest()
    return hf(t + t + msg).digest()


def bits2int(bs, nlen):
    i = int.from_bytes(bs, "big")
    blen = len(bs) * 8
    return i >> (blen - nlen) if blen > nlen else i


def sqrt_mod(a, p):
    a %= p
    if p % 4 == 3:
        r = pow(a, (p + 1) // 4, p)
        return r if r * r % p == a else None
    if p < 1 << 16:
        for r in range(p):
            if r * r % p == a:
                return r
        return None
    raise NotImplementedError


def lift_x(x, crv):
    """The curve point with this x and an even y, or None (x >= p, or no such point, or y = 0 only)."""
    if not 0 <= x < crv.p:
        return None
    y = sqrt_mod(x**3 + crv.a * x + crv.b, crv.p)
    if y is None:
        return None
    if y == 0:
        return None  # a 2-torsion point has no even/odd pair; btclib cannot spell it either
    return (x, y if y % 2 == 0 else crv.p - y)


def challenge(xR, xP, msg, crv, hf=hashlib.sha256):
    t = xR.to_bytes(crv.psize, "big") + xP.to_bytes(crv.psize, "big") + msg
    return bits2int(tagged_hash(b"BIP0340/challenge", t, hf), crv.nlen) % crv.n


def verify_core(c, P, r, s, crv):
    """BIP340 verification equation for an already lifted P: R = s*G - c*P; R finite, even y, x(R) = r."""
    if P is None or not (0 <= r < crv.p) or not (0 <= s < crv.n):
        return False
    Rp = R.add(R.mul(s, crv.G, crv.p, crv.a), R.neg(R.mul(c, P, crv.p, crv.a), crv.p), crv.p, crv.a)
    if Rp is None or Rp[1] % 2 or Rp[0] != r:
        return False
    return True


def verify(msg, xP, r, s, crv, hf=hashlib.sha256):
    P = lift_x(xP, crv)
    if P is None or not (0 <= r < crv.p) or not (0 <= s < crv.n):
        return False
    return verify_core(challenge(r, xP, msg, crv, hf), P, r, s, crv)


def sign(d0, msg, aux, crv, hf=hashlib.sha256):
    """Returns (r, s) or None when the BIP says fail (k' = 0)."""
    if not 1 <= d0 < crv.n:
        raise ValueError
    P = R.mul(d0, crv.G, crv.p, crv.a)
    d = d0 if P[1] % 2 == 0 else crv.n - d0
    ah = tagged_hash(b"BIP0340/aux", aux, hf)
    dbytes = d.to_bytes(crv.nsize, "big")
    # xor over the width of the scalar; the aux hash is as wide as the hash function (32 on sha256)
    width = max(len(dbytes), len(ah))
    t = (int.from_bytes(dbytes, "big") ^ int.from_bytes(ah, "big")).to_bytes(width, "big")
    rand = tagged_hash(b"BIP0340/nonce", t + P[0].to_bytes(crv.psize, "big") + msg, hf)
    k0 = bits2int(rand, crv.nlen) % crv.n
    if k0 == 0:
        return None
    Rp = R.mul(k0, crv.G, crv.p, crv.a)
    k = k0 if Rp[1] % 2 == 0 else crv.n - k0
    e = challenge(Rp[0], P[0], msg, crv, hf)
    return Rp[0], (k + e * d) % crv.n


def self_gate():
    # BIP340 test vectors 0, 1, 2 (sign) and 5, 6 (verify fail)
    vec = [
        ("0000000000000000000000000000000000000000000000000000000000000003", "0000000000000000000000000000000000000000000000000000000000000000", "0000000000000000000000000000000000000000000000000000000000000000",
         "E907831F80848D1069A5371B402410364BDF1C5F8307B0084C55F1CE2DCA821525F66A4A85EA8B71E482A74F382D2CE5EBEEE8FDB2172F477DF4900D310536C0"),
        ("B7E151628AED2A6ABF7158809CF4F3C762E7160F38B4DA56A784D9045190CFEF", "0000000000000000000000000000000000000000000000000000000000000001", "243F6A8885A308D313198A2E03707344A4093822299F31D0082EFA98EC4E6C89",
         "6896BD60EEAE296DB48A229FF71DFE071BDE413E6D43F917DC8DCF8C78DE33418906D11AC976ABCCB20B091292BFF4EA897EFCB639EA871CFA95F6DE339E4B0A"),
        ("C90FDAA22168C234C4C6628B80DC1CD129024E088A67CC74020BBEA63B14E5C9", "C87AA53824B4D7AE2EB035A2B5BBBCCC080E76CDC6D1692C4B0B62D798E6D906", "7E2D58D8B3BCDF1ABADEC7829054F90DDA9805AAB56C77333024B9D0A508B75C",
         "5831AAEED7B44BB74E5EAB94BA9D4294C49BCF2A60728D8B4C200F50DD313C1BAB745879A5AD954A72C45A91C3A51D3C7ADEA98D82F8481E0E1E03674A6F3FB7"),
    ]
    for sk, aux, msg, sig in vec:
        r, s = sign(int(sk, 16), bytes.fromhex(msg), bytes.fromhex(aux), K1)
        assert (r.to_bytes(32, "big") + s.to_bytes(32, "big")).hex().upper() == sig, "BIP340 sign vector"
        xP = R.mul(int(sk, 16), G_K1, P_K1, 0)[0]
        assert verify(bytes.fromhex(msg), xP, r, s, K1)
    # vector 6: has_even_y(R) is false
    pk = int("DFF1D77F2A671C5F36183726DB2341BE58FEAE1DA2DECED843240F7B502BA659", 16)
    msg = bytes.fromhex("243F6A8885A308D313198A2E03707344A4093822299F31D0082EFA98EC4E6C89")
    sig = bytes.fromhex("FFF97BD5755EEEA420453A14355235D382F6472F8568A18B2F057A14602975563CC27944640AC607CD107AE10923D9EF7A73C643E166BE5EBEAFA34B1AC553E2")
    assert not verify(msg, pk, int.from_bytes(sig[:32], "big"), int.from_bytes(sig[32:], "big"), K1)
    # vector 4 verifies
    pk = int("D69C3509BB99E412E68B0FE8544E72837DFA30746D8BE2AA65975F29D22DC7B9", 16)
    msg = bytes.fromhex("4DF3C3F68FCC83B27E9D42C90431A72499F17875C81A599B566C9889B9696703")
    sig = bytes.fromhex("00000000000000000000003B78CE563F89A0ED9414F5AA28AD0D96D6795F9C6376AFB1548AF603B3EB45C9F8207DEE1060CB71C04E80F593060B07D28308D7F4")
    assert verify(msg, pk, int.from_bytes(sig[:32], "big"), int.from_bytes(sig[32:], "big"), K1)
    return 6
