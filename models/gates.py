"""Model-vs-spec gates: every reference model must reproduce its published vectors.
Run by setup.sh and importable by checks (a failing gate is a harness error, exit 2)."""
import sys


def run_all():
    import importlib
    import pkgutil

    import models

    failed = []
    n = 0
    for m in pkgutil.iter_modules(models.__path__):
        mod = importlib.import_module("models." + m.name)
        g = getattr(mod, "self_gate", None)
        if g is None:
            continue
        try:
            k = g()
            n += k or 0
            print(f"gate models.{m.name}: ok ({k} vectors)")
        except Exception as e:  # noqa: BLE001
            failed.append((m.name, repr(e)))
            print(f"gate models.{m.name}: FAILED {e!r}")
    return failed, n


if __name__ == "__main__":
    sys.path.insert(0, ".")
    failed, n = run_all()
    sys.exit(1 if failed else 0)
