"""Signature-hash reference: legacy (Core SignatureHash), BIP143, BIP341.  Works on plain
dict transactions {'version','locktime','ins':[(txid_display,vout,script_sig,seq)],'outs':[(value,spk)]};
nothing of btclib.  Gated on Core's sighash.json, the BIP143 P2WPKH example and the BIP341 wallet vectors."""
from __future__ import annotations

import hashlib
import json
import os
import struct

VEC = os.path.join(os.path.dirname(os.path.abspath(__file__)), "vectors")


def sha(b):
    return hashlib.sha256(b).digest()


def dsha(b):
    return sha(sha(b))


def cs(n):
    if n < 0xFD:
        return bytes([n])
    if n <= 0xFFFF:
        return b"\xfd" + struct.pack("<H", n)
    if n <= 0xFFFFFFFF:
        return b"\xfe" + struct.pack("<I", n)
    return b"\xff" + struct.pack("<Q", n)


def vb(b):
    return cs(len(b)) + b


def tagged(t, m):
    h = sha(t.encode())
    return sha(h + h + m)


def ser_out(o):
    return struct.pack("<q", o[0]) + vb(o[1])


def ser_outpoint(i):
    return i[0][::-1] + struct.pack("<I", i[1])


def strip_codeseparators(sc):
    """Core's FindAndDelete(scriptCode, OP_CODESEPARATOR): opcode-aware; an undecodable tail is kept verbatim."""
    out = b""
    pc = 0
    while pc < len(sc):
        op = sc[pc]
        start = pc
        pc += 1
        if 0 < op <= 75:
            ln = op
        elif op == 76:
            if pc + 1 > len(sc):
                out += sc[start:]
                break
            ln = sc[pc]
            pc += 1
        elif op == 77:
            if pc + 2 > len(sc):
                out += sc[start:]
                break
            ln = int.from_bytes(sc[pc:pc + 2], "little")
            pc += 2
        elif op == 78:
            if pc + 4 > len(sc):
                out += sc[start:]
                break
            ln = int.from_bytes(sc[pc:pc + 4], "little")
            pc += 4
        else:
            ln = 0
        if pc + ln > len(sc):
            out += sc[start:]
            break
        pc += ln
        if op != 0xAB:
            out += sc[start:pc]
    return out


def legacy(tx, idx, script_code, ht):
    sc = strip_codeseparators(script_code)
    base = ht & 0x1F
    acp = ht & 0x80
    if base == 3 and idx >= len(tx["outs"]):
        return (1).to_bytes(32, "little")
    ins = []
    for j, i in enumerate(tx["ins"]):
        if acp and j != idx:
            continue
        seq = i[3]
        if j != idx and base in (2, 3):
            seq = 0
        ins.append(ser_outpoint(i) + vb(sc if j == idx else b"") + struct.pack("<I", seq))
    if base == 2:
        outs = []
    elif base == 3:
        outs = [struct.pack("<q", -1) + vb(b"")] * idx + [ser_out(tx["outs"][idx])]
    else:
        outs = [ser_out(o) for o in tx["outs"]]
    pre = (struct.pack("<I", tx["version"]) + cs(len(ins)) + b"".join(ins) + cs(len(outs)) + b"".join(outs)
           + struct.pack("<I", tx["locktime"]) + struct.pack("<I", ht & 0xFFFFFFFF))
    return dsha(pre)


def segwit_v0(tx, idx, script_code, ht, amount):
    base = ht & 0x1F
    acp = ht & 0x80
    hp = dsha(b"".join(ser_outpoint(i) for i in tx["ins"])) if not acp else bytes(32)
    hs = dsha(b"".join(struct.pack("<I", i[3]) for i in tx["ins"])) if not acp and base not in (2, 3) else bytes(32)
    if base not in (2, 3):
        ho = dsha(b"".join(ser_out(o) for o in tx["outs"]))
    elif base == 3 and idx < len(tx["outs"]):
        ho = dsha(ser_out(tx["outs"][idx]))
    else:
        ho = bytes(32)
    i = tx["ins"][idx]
    pre = (struct.pack("<I", tx["version"]) + hp + hs + ser_outpoint(i) + vb(script_code) + struct.pack("<q", amount)
           + struct.pack("<I", i[3]) + ho + struct.pack("<I", tx["locktime"]) + struct.pack("<I", ht & 0xFFFFFFFF))
    return dsha(pre)


def taproot(tx, idx, prev, ht, annex=b"", ext=b""):
    """prev = [(amount, spk)] for every input.  None = the BIP declares it an error."""
    if ht not in (0, 1, 2, 3, 0x81, 0x82, 0x83):
        return None
    if ht & 3 == 3 and idx >= len(tx["outs"]):
        return None
    m = b"\x00" + bytes([ht]) + struct.pack("<I", tx["version"]) + struct.pack("<I", tx["locktime"])
    if not ht & 0x80:
        m += (sha(b"".join(ser_outpoint(i) for i in tx["ins"])) + sha(b"".join(struct.pack("<q", a) for a, _ in prev))
              + sha(b"".join(vb(s) for _, s in prev)) + sha(b"".join(struct.pack("<I", i[3]) for i in tx["ins"])))
    if ht & 3 not in (2, 3):
        m += sha(b"".join(ser_out(o) for o in tx["outs"]))
    m += bytes([(2 if ext else 0) + (1 if annex else 0)])
    i = tx["ins"][idx]
    if ht & 0x80:
        m += ser_outpoint(i) + struct.pack("<q", prev[idx][0]) + vb(prev[idx][1]) + struct.pack("<I", i[3])
    else:
        m += struct.pack("<I", idx)
    if annex:
        m += sha(vb(annex))
    if ht & 3 == 3:
        m += sha(ser_out(tx["outs"][idx]))
    m += ext
    return tagged("TapSighash", m)


def tapleaf_ext(leaf_hash, key_version=0, codesep_pos=0xFFFFFFFF):
    return leaf_hash + bytes([key_version]) + struct.pack("<I", codesep_pos)


# ---- a minimal transaction parser for the gates (legacy and segwit serializations)
def parse_tx(raw):
    pos = 0

    def rd(n):
        nonlocal pos
        b = raw[pos:pos + n]
        assert len(b) == n
        pos += n
        return b

    def rcs():
        f = rd(1)[0]
        if f < 0xFD:
            return f
        return int.from_bytes(rd({0xFD: 2, 0xFE: 4, 0xFF: 8}[f]), "little")

    version = struct.unpack("<I", rd(4))[0]
    nin = rcs()
    segwit = False
    if nin == 0:
        flag = rd(1)
        assert flag == b"\x01"
        segwit = True
        nin = rcs()
    ins = []
    for _ in range(nin):
        txid = rd(32)[::-1]
        vout = struct.unpack("<I", rd(4))[0]
        ss = rd(rcs())
        seq = struct.unpack("<I", rd(4))[0]
        ins.append((txid, vout, ss, seq))
    outs = []
    for _ in range(rcs()):
        val = struct.unpack("<q", rd(8))[0]
        outs.append((val, rd(rcs())))
    wit = []
    if segwit:
        for _ in range(nin):
            wit.append([rd(rcs()) for _ in range(rcs())])
    lock = struct.unpack("<I", rd(4))[0]
    assert pos == len(raw)
    return {"version": version, "locktime": lock, "ins": ins, "outs": outs, "wit": wit}


def self_gate():
    n = 0
    # Core's sighash.json (500 vectors): [raw_tx, script, input_index, hashType (signed), result (display order)]
    vec = json.load(open(os.path.join(VEC, "sig_hash_legacy_test_vectors.json")))
    for row in vec[1:]:
        raw, script, idx, ht, res = row
        tx = parse_tx(bytes.fromhex(raw))
        got = legacy(tx, idx, bytes.fromhex(script), ht & 0xFFFFFFFF)
        assert got[::-1].hex() == res, ("sighash.json", row[2:])
        n += 1
    # BIP143 native P2WPKH example
    raw = bytes.fromhex("0100000002fff7f7881a8099afa6940d42d1e7f6362bec38171ea3edf433541db4e4ad969f0000000000eeffffffef51e1b804cc89d182d279655c3aa89e815b1b309fe287d9b2b55d57b90ec68a0100000000ffffffff02202cb206000000001976a9148280b37df378db99f66f85c95a783a76ac7a6d5988ac9093510d000000001976a9143bde42dbee7e4dbe6a21b2d50ce2f0167faa815988ac11000000")
    tx = parse_tx(raw)
    sc = bytes.fromhex("76a9141d0f172a0ecb48aeb1d7ed6f9eeb7f8a0f5d8a5288ac")  # placeholder replaced below
    sc = bytes.fromhex("76a9141d0f172a0ecb48aee1be1f2687d2963ae33f71a188ac")
    got = segwit_v0(tx, 1, sc, 1, 600000000)
    assert got.hex() == "c37af31116d1b27caf68aae9e3ac82f1477929014d5b917657d0eb49478cb670", "BIP143 P2WPKH"
    n += 1
    # BIP341 wallet test vectors: key path spending
    d = json.load(open(os.path.join(VEC, "taproot_test_vector.json")))
    for k in d["keyPathSpending"]:
        tx = parse_tx(bytes.fromhex(k["given"]["rawUnsignedTx"]))
        prev = [(u["amountSats"], bytes.fromhex(u["scriptPubKey"])) for u in k["given"]["utxosSpent"]]
        for sp in k["inputSpending"]:
            g = sp["given"]
            got = taproot(tx, g["txinIndex"], prev, g["hashType"])
            assert got.hex() == sp["intermediary"]["sigHash"], ("BIP341", g)
            n += 1
    return n
