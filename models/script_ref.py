"""Transcription of Bitcoin Core's script/interpreter.cpp: EvalScript, VerifyScript,
VerifyWitnessProgram, ExecuteWitnessScript, CheckSignatureEncoding, CheckPubKeyEncoding,
FindAndDelete, tapscript rules, with real signature checking done by the reference crypto
(models/ec_ref.py, bip340_ref.py, sighash_ref.py).  Nothing of btclib.

Errors carry Core's ScriptError names; the gate (self_gate) compares them with the expected
error of every vector of Core's script_tests.json."""
from __future__ import annotations

import hashlib
import json
import os
import struct

from models import bip340_ref as B
from models import ec_ref as R
from models import sighash_ref as S
from models import taproot_ref as T

P, N, G = B.P_K1, B.N_K1, B.G_K1

FLAGS = ["P2SH", "STRICTENC", "DERSIG", "LOW_S", "NULLDUMMY", "SIGPUSHONLY", "MINIMALDATA", "DISCOURAGE_UPGRADABLE_NOPS", "CLEANSTACK", "CHECKLOCKTIMEVERIFY",
         "CHECKSEQUENCEVERIFY", "WITNESS", "DISCOURAGE_UPGRADABLE_WITNESS_PROGRAM", "MINIMALIF", "NULLFAIL", "WITNESS_PUBKEYTYPE", "CONST_SCRIPTCODE", "TAPROOT",
         "DISCOURAGE_UPGRADABLE_TAPROOT_VERSION", "DISCOURAGE_OP_SUCCESS", "DISCOURAGE_UPGRADABLE_PUBKEYTYPE"]

BASE, WITNESS_V0, TAPROOT, TAPSCRIPT = 0, 1, 2, 3


class Err(Exception):
    """A ScriptError; args[0] is Core's name for it."""


def num(v, minimal, maxsize=4):
    if len(v) > maxsize:
        raise Err("UNKNOWN_ERROR")  # scriptnum_error -> SCRIPT_ERR_UNKNOWN_ERROR
    if minimal and len(v) > 0 and (v[-1] & 0x7F) == 0 and (len(v) <= 1 or (v[-2] & 0x80) == 0):
        raise Err("UNKNOWN_ERROR")
    if not v:
        return 0
    r = int.from_bytes(v, "little")
    if v[-1] & 0x80:
        return -(r & ~(0x80 << (8 * (len(v) - 1))))
    return r


def vch(n):
    if n == 0:
        return b""
    neg = n < 0
    a = abs(n)
    out = bytearray()
    while a:
        out.append(a & 0xFF)
        a >>= 8
    if out[-1] & 0x80:
        out.append(0x80 if neg else 0)
    elif neg:
        out[-1] |= 0x80
    return bytes(out)


def tobool(v):
    for i, b in enumerate(v):
        if b != 0:
            return not (i == len(v) - 1 and b == 0x80)
    return False


def getop(s, pc):
    """(opcode, data, next_pc) or None when the script cannot be decoded there."""
    op = s[pc]
    pc += 1
    data = b""
    if op <= 0x4E:
        if op < 0x4C:
            n = op
        elif op == 0x4C:
            if len(s) - pc < 1:
                return None
            n = s[pc]
            pc += 1
        elif op == 0x4D:
            if len(s) - pc < 2:
                return None
            n = int.from_bytes(s[pc:pc + 2], "little")
            pc += 2
        else:
            if len(s) - pc < 4:
                return None
            n = int.from_bytes(s[pc:pc + 4], "little")
            pc += 4
        if len(s) - pc < n:
            return None
        data = s[pc:pc + n]
        pc += n
    return op, data, pc


DISABLED = {0x7E, 0x7F, 0x80, 0x81, 0x83, 0x84, 0x85, 0x86, 0x8D, 0x8E, 0x95, 0x96, 0x97, 0x98, 0x99}
SUCCESS = {80, 98, 126, 127, 128, 129, 131, 132, 133, 134, 137, 138, 141, 142, 149, 150, 151, 152, 153, *range(187, 255)}


def minimal_push(d, op):
    if len(d) == 0:
        return op == 0
    if len(d) == 1 and 1 <= d[0] <= 16:
        return False
    if len(d) == 1 and d[0] == 0x81:
        return False
    if len(d) <= 75:
        return op == len(d)
    if len(d) <= 255:
        return op == 0x4C
    if len(d) <= 65535:
        return op == 0x4D
    return True


def push_only(s):
    pc = 0
    while pc < len(s):
        g = getop(s, pc)
        if g is None:
            return False
        op, _, pc = g
        if op > 0x60:
            return False
    return True


def push(d):
    if len(d) < 0x4C:
        return bytes([len(d)]) + d
    if len(d) <= 0xFF:
        return b"\x4c" + bytes([len(d)]) + d
    if len(d) <= 0xFFFF:
        return b"\x4d" + len(d).to_bytes(2, "little") + d
    return b"\x4e" + len(d).to_bytes(4, "little") + d


def find_and_delete(script, pattern):
    """Core's FindAndDelete: remove every occurrence of pattern that starts at an opcode boundary."""
    if not pattern:
        return script, 0
    out = b""
    found = 0
    pc = 0
    pc2 = 0
    n = len(script)
    while True:
        out += script[pc2:pc]
        while n - pc >= len(pattern) and script[pc:pc + len(pattern)] == pattern:
            pc += len(pattern)
            found += 1
        pc2 = pc
        if pc >= n:
            break
        g = getop(script, pc)
        if g is None:
            break
        pc = g[2]
    if found:
        out += script[pc2:]
        return out, found
    return script, 0


# ------------------------------------------------------------------------------------ signature encodings
def is_valid_sig_encoding(sig):
    """IsValidSignatureEncoding (with the trailing hash type byte)."""
    if len(sig) < 9 or len(sig) > 73:
        return False
    if sig[0] != 0x30:
        return False
    if sig[1] != len(sig) - 3:
        return False
    lenR = sig[3]
    if 5 + lenR >= len(sig):
        return False
    lenS = sig[5 + lenR]
    if lenR + lenS + 7 != len(sig):
        return False
    if sig[2] != 0x02 or lenR == 0 or sig[4] & 0x80:
        return False
    if lenR > 1 and sig[4] == 0 and not (sig[5] & 0x80):
        return False
    if sig[lenR + 4] != 0x02 or lenS == 0 or sig[lenR + 6] & 0x80:
        return False
    if lenS > 1 and sig[lenR + 6] == 0 and not (sig[lenR + 7] & 0x80):
        return False
    return True


def parse_der_lax(sig):
    """ecdsa_signature_parse_der_lax: (r, s) or None.  Overflowing values become 0 as in libsecp256k1."""
    pos = 0
    n = len(sig)
    if pos == n or sig[pos] != 0x30:
        return None
    pos += 1
    if pos == n:
        return None
    lenbyte = sig[pos]
    pos += 1
    if lenbyte & 0x80:
        lenbyte -= 0x80
        if lenbyte > n - pos:
            return None
        pos += lenbyte

    def integer():
        nonlocal pos
        if pos == n or sig[pos] != 0x02:
            return None
        pos += 1
        if pos == n:
            return None
        lb = sig[pos]
        pos += 1
        if lb & 0x80:
            lb -= 0x80
            if lb > n - pos:
                return None
            while lb > 0 and sig[pos] == 0:
                pos += 1
                lb -= 1
            if lb >= 8:
                return None
            ln = 0
            while lb > 0:
                ln = (ln << 8) + sig[pos]
                pos += 1
                lb -= 1
        else:
            ln = lb
        if ln > n - pos:
            return None
        start = pos
        pos += ln
        return start, ln

    ri = integer()
    if ri is None:
        return None
    si = integer()
    if si is None:
        return None

    def val(start, ln):
        while ln > 0 and sig[start] == 0:
            start += 1
            ln -= 1
        if ln > 32:
            return None  # overflow
        return int.from_bytes(sig[start:start + ln], "big")

    r = val(*ri)
    s = val(*si)
    if r is None or s is None or r >= N or s >= N:
        return 0, 0
    return r, s


def is_low_der(sig):
    rs = parse_der_lax(sig[:-1])
    if rs is None:
        return False
    return rs[1] <= N // 2


def parse_pubkey(pk):
    """secp256k1_ec_pubkey_parse: compressed, uncompressed and hybrid; a point or None."""
    if len(pk) == 33 and pk[0] in (2, 3):
        x = int.from_bytes(pk[1:], "big")
        Pt = T.lift_x(x)
        if Pt is None:
            return None
        return Pt if (Pt[1] & 1) == (pk[0] & 1) else (Pt[0], P - Pt[1])
    if len(pk) == 65 and pk[0] in (4, 6, 7):
        x = int.from_bytes(pk[1:33], "big")
        y = int.from_bytes(pk[33:], "big")
        if x >= P or y >= P or (y * y - x * x * x - 7) % P:
            return None
        if pk[0] in (6, 7) and (y & 1) != (pk[0] & 1):
            return None
        return (x, y)
    return None


def ecdsa_verify(pk, sig_der, digest):
    """CPubKey::Verify: lax parse, normalise s, verify."""
    Q = parse_pubkey(pk)
    if Q is None:
        return False
    rs = parse_der_lax(sig_der)
    if rs is None:
        return False
    r, s = rs
    if s > N // 2:
        s = N - s
    if not (0 < r < N and 0 < s < N):
        return False
    z = int.from_bytes(digest, "big")
    w = pow(s, -1, N)
    K = R.add(R.mul_fast(z * w % N, G, P, 0), R.mul_fast(r * w % N, Q, P, 0), P, 0)
    return K is not None and K[0] % N == r


def is_compressed_or_uncompressed(pk):
    if len(pk) < 33:
        return False
    if pk[0] == 4:
        return len(pk) == 65
    if pk[0] in (2, 3):
        return len(pk) == 33
    return False


def is_compressed(pk):
    return len(pk) == 33 and pk[0] in (2, 3)


def check_sig_encoding(sig, flags):
    if len(sig) == 0:
        return
    if flags & {"DERSIG", "LOW_S", "STRICTENC"} and not is_valid_sig_encoding(sig):
        raise Err("SIG_DER")
    if "LOW_S" in flags and not is_low_der(sig):
        raise Err("SIG_HIGH_S")
    if "STRICTENC" in flags:
        ht = sig[-1] & ~0x80
        if ht < 1 or ht > 3:
            raise Err("SIG_HASHTYPE")


def check_pubkey_encoding(pk, flags, sigversion):
    if "STRICTENC" in flags and not is_compressed_or_uncompressed(pk):
        raise Err("PUBKEYTYPE")
    if "WITNESS_PUBKEYTYPE" in flags and sigversion == WITNESS_V0 and not is_compressed(pk):
        raise Err("WITNESS_PUBKEYTYPE")


class ExecData:
    def __init__(self):
        self.tapleaf_hash = None
        self.codesep_pos = 0xFFFFFFFF
        self.annex = None
        self.budget = None


class Checker:
    """GenericTransactionSignatureChecker over the dict transactions of sighash_ref."""

    def __init__(self, tx, idx, amount, prevouts=None):
        self.tx, self.idx, self.amount, self.prevouts = tx, idx, amount, prevouts

    def check_ecdsa(self, sig, pk, script_code, sigversion):
        if not sig:
            return False
        ht = sig[-1]
        der = sig[:-1]
        if sigversion == WITNESS_V0:
            digest = S.segwit_v0(self.tx, self.idx, script_code, ht, self.amount)
        else:
            digest = S.legacy(self.tx, self.idx, script_code, ht)
        return ecdsa_verify(pk, der, digest)

    def check_schnorr(self, sig, pk, sigversion, ex):
        assert len(pk) == 32
        if len(sig) not in (64, 65):
            raise Err("SCHNORR_SIG_SIZE")
        ht = 0
        if len(sig) == 65:
            ht = sig[64]
            sig = sig[:64]
            if ht == 0:
                raise Err("SCHNORR_SIG_HASHTYPE")
        if self.prevouts is None:
            raise Err("SCHNORR_SIG_HASHTYPE")
        ext = b""
        if sigversion == TAPSCRIPT:
            ext = S.tapleaf_ext(ex.tapleaf_hash, 0, ex.codesep_pos)
        digest = S.taproot(self.tx, self.idx, self.prevouts, ht, ex.annex or b"", ext)
        if digest is None:
            raise Err("SCHNORR_SIG_HASHTYPE")
        r = int.from_bytes(sig[:32], "big")
        s = int.from_bytes(sig[32:], "big")
        if not B.verify(digest, int.from_bytes(pk, "big"), r, s, B.K1):
            raise Err("SCHNORR_SIG")
        return True

    def check_locktime(self, n):
        t = self.tx["locktime"]
        if not ((t < 500000000 and n < 500000000) or (t >= 500000000 and n >= 500000000)):
            return False
        if n > t:
            return False
        if self.tx["ins"][self.idx][3] == 0xFFFFFFFF:
            return False
        return True

    def check_sequence(self, n):
        ts = self.tx["ins"][self.idx][3]
        if self.tx["version"] < 2:
            return False
        if ts & (1 << 31):
            return False
        mask = (1 << 22) | 0xFFFF
        a, b = ts & mask, n & mask
        if not ((a < (1 << 22) and b < (1 << 22)) or (a >= (1 << 22) and b >= (1 << 22))):
            return False
        return b <= a


class NoSigChecker(Checker):
    """For the signature-free state space: any signature check is an error of the harness."""

    def __init__(self, tx, idx):
        super().__init__(tx, idx, 0, None)


def eval_checksig_pre_tapscript(sig, pk, script, begincode, flags, checker, sigversion):
    script_code = script[begincode:]
    if sigversion == BASE:
        script_code, found = find_and_delete(script_code, push(sig))
        if found > 0 and "CONST_SCRIPTCODE" in flags:
            raise Err("SIG_FINDANDDELETE")
    check_sig_encoding(sig, flags)
    check_pubkey_encoding(pk, flags, sigversion)
    ok = checker.check_ecdsa(sig, pk, script_code, sigversion)
    if not ok and "NULLFAIL" in flags and len(sig):
        raise Err("SIG_NULLFAIL")
    return ok


def eval_checksig_tapscript(sig, pk, flags, checker, ex):
    success = len(sig) > 0
    if success:
        ex.budget -= 50
        if ex.budget < 0:
            raise Err("TAPSCRIPT_VALIDATION_WEIGHT")
    if len(pk) == 0:
        raise Err("PUBKEYTYPE")
    if len(pk) == 32:
        if success:
            checker.check_schnorr(sig, pk, TAPSCRIPT, ex)
    else:
        if "DISCOURAGE_UPGRADABLE_PUBKEYTYPE" in flags:
            raise Err("DISCOURAGE_UPGRADABLE_PUBKEYTYPE")
    return success


LAST = {}   # observation only (C15): executed non-push ops and peak stack of the latest eval_script calls; callers clear it


def eval_script(stack, s, flags, checker, sigversion, ex=None):
    if sigversion in (BASE, WITNESS_V0) and len(s) > 10000:
        raise Err("SCRIPT_SIZE")
    alt = []
    vf = []
    nop = 0
    pc = 0
    begincode = 0
    mini = "MINIMALDATA" in flags
    opcode_pos = 0
    if ex is None:
        ex = ExecData()

    def need(n):
        if len(stack) < n:
            raise Err("INVALID_STACK_OPERATION")

    while pc < len(s):
        fexec = all(vf)
        g = getop(s, pc)
        if g is None:
            raise Err("BAD_OPCODE")
        op, data, pc = g
        if len(data) > 520:
            raise Err("PUSH_SIZE")
        if op > 0x60:
            LAST["ops_any"] = LAST.get("ops_any", 0) + 1
        if sigversion in (BASE, WITNESS_V0) and op > 0x60:
            nop += 1
            LAST["nop"] = nop
            if nop > 201:
                raise Err("OP_COUNT")
        if op in DISABLED:
            raise Err("DISABLED_OPCODE")
        if op == 0xAB and sigversion == BASE and "CONST_SCRIPTCODE" in flags:
            raise Err("OP_CODESEPARATOR")
        if fexec and op <= 0x4E:
            if mini and not minimal_push(data, op):
                raise Err("MINIMALDATA")
            stack.append(data)
        elif fexec or 0x63 <= op <= 0x68:
            if op == 0x4F or 0x51 <= op <= 0x60:
                stack.append(vch(op - 0x50))
            elif op == 0x61:
                pass
            elif op == 0xB1:
                if "CHECKLOCKTIMEVERIFY" in flags:
                    need(1)
                    n = num(stack[-1], mini, 5)
                    if n < 0:
                        raise Err("NEGATIVE_LOCKTIME")
                    if not checker.check_locktime(n):
                        raise Err("UNSATISFIED_LOCKTIME")
            elif op == 0xB2:
                if "CHECKSEQUENCEVERIFY" in flags:
                    need(1)
                    n = num(stack[-1], mini, 5)
                    if n < 0:
                        raise Err("NEGATIVE_LOCKTIME")
                    if not n & (1 << 31):
                        if not checker.check_sequence(n):
                            raise Err("UNSATISFIED_LOCKTIME")
            elif op == 0xB0 or 0xB3 <= op <= 0xB9:
                if "DISCOURAGE_UPGRADABLE_NOPS" in flags:
                    raise Err("DISCOURAGE_UPGRADABLE_NOPS")
            elif op in (0x63, 0x64):
                val = False
                if fexec:
                    if len(stack) < 1:
                        raise Err("UNBALANCED_CONDITIONAL")
                    v = stack[-1]
                    if sigversion == TAPSCRIPT:
                        if len(v) > 1 or (len(v) == 1 and v[0] != 1):
                            raise Err("TAPSCRIPT_MINIMALIF")
                    if sigversion == WITNESS_V0 and "MINIMALIF" in flags:
                        if len(v) > 1 or (len(v) == 1 and v[0] != 1):
                            raise Err("MINIMALIF")
                    val = tobool(v)
                    if op == 0x64:
                        val = not val
                    stack.pop()
                vf.append(val)
            elif op == 0x67:
                if not vf:
                    raise Err("UNBALANCED_CONDITIONAL")
                vf[-1] = not vf[-1]
            elif op == 0x68:
                if not vf:
                    raise Err("UNBALANCED_CONDITIONAL")
                vf.pop()
            elif op == 0x69:
                need(1)
                if tobool(stack[-1]):
                    stack.pop()
                else:
                    raise Err("VERIFY")
            elif op == 0x6A:
                raise Err("OP_RETURN")
            elif op == 0x6B:
                need(1)
                alt.append(stack.pop())
            elif op == 0x6C:
                if not alt:
                    raise Err("INVALID_ALTSTACK_OPERATION")
                stack.append(alt.pop())
            elif op == 0x6D:
                need(2)
                stack.pop()
                stack.pop()
            elif op == 0x6E:
                need(2)
                stack.extend(stack[-2:])
            elif op == 0x6F:
                need(3)
                stack.extend(stack[-3:])
            elif op == 0x70:
                need(4)
                stack.extend(stack[-4:-2])
            elif op == 0x71:
                need(6)
                a = stack[-6:-4]
                del stack[-6:-4]
                stack.extend(a)
            elif op == 0x72:
                need(4)
                stack[-4], stack[-2] = stack[-2], stack[-4]
                stack[-3], stack[-1] = stack[-1], stack[-3]
            elif op == 0x73:
                need(1)
                if tobool(stack[-1]):
                    stack.append(stack[-1])
            elif op == 0x74:
                stack.append(vch(len(stack)))
            elif op == 0x75:
                need(1)
                stack.pop()
            elif op == 0x76:
                need(1)
                stack.append(stack[-1])
            elif op == 0x77:
                need(2)
                del stack[-2]
            elif op == 0x78:
                need(2)
                stack.append(stack[-2])
            elif op in (0x79, 0x7A):
                need(2)
                n = num(stack[-1], mini)
                stack.pop()
                if n < 0 or n >= len(stack):
                    raise Err("INVALID_STACK_OPERATION")
                v = stack[-n - 1]
                if op == 0x7A:
                    del stack[-n - 1]
                stack.append(v)
            elif op == 0x7B:
                need(3)
                stack[-3], stack[-2] = stack[-2], stack[-3]
                stack[-2], stack[-1] = stack[-1], stack[-2]
            elif op == 0x7C:
                need(2)
                stack[-2], stack[-1] = stack[-1], stack[-2]
            elif op == 0x7D:
                need(2)
                stack.insert(-2, stack[-1])
            elif op == 0x82:
                need(1)
                stack.append(vch(len(stack[-1])))
            elif op in (0x87, 0x88):
                need(2)
                eq = stack[-1] == stack[-2]
                stack.pop()
                stack.pop()
                stack.append(b"\x01" if eq else b"")
                if op == 0x88:
                    if eq:
                        stack.pop()
                    else:
                        raise Err("EQUALVERIFY")
            elif op in (0x8B, 0x8C, 0x8F, 0x90, 0x91, 0x92):
                need(1)
                b = num(stack[-1], mini)
                b = {0x8B: b + 1, 0x8C: b - 1, 0x8F: -b, 0x90: abs(b), 0x91: int(b == 0), 0x92: int(b != 0)}[op]
                stack.pop()
                stack.append(vch(b))
            elif op in (0x93, 0x94, 0x9A, 0x9B, 0x9C, 0x9D, 0x9E, 0x9F, 0xA0, 0xA1, 0xA2, 0xA3, 0xA4):
                need(2)
                a = num(stack[-2], mini)
                b = num(stack[-1], mini)
                r = {0x93: a + b, 0x94: a - b, 0x9A: int(a != 0 and b != 0), 0x9B: int(a != 0 or b != 0), 0x9C: int(a == b), 0x9D: int(a == b), 0x9E: int(a != b),
                     0x9F: int(a < b), 0xA0: int(a > b), 0xA1: int(a <= b), 0xA2: int(a >= b), 0xA3: min(a, b), 0xA4: max(a, b)}[op]
                stack.pop()
                stack.pop()
                stack.append(vch(r))
                if op == 0x9D:
                    if tobool(stack[-1]):
                        stack.pop()
                    else:
                        raise Err("NUMEQUALVERIFY")
            elif op == 0xA5:
                need(3)
                x = num(stack[-3], mini)
                lo = num(stack[-2], mini)
                hi = num(stack[-1], mini)
                stack.pop()
                stack.pop()
                stack.pop()
                stack.append(b"\x01" if lo <= x < hi else b"")
            elif op in (0xA6, 0xA7, 0xA8, 0xA9, 0xAA):
                need(1)
                v = stack.pop()
                h = {0xA6: lambda d: hashlib.new("ripemd160", d).digest(), 0xA7: lambda d: hashlib.sha1(d).digest(), 0xA8: lambda d: hashlib.sha256(d).digest(),
                     0xA9: lambda d: hashlib.new("ripemd160", hashlib.sha256(d).digest()).digest(), 0xAA: lambda d: hashlib.sha256(hashlib.sha256(d).digest()).digest()}[op]
                stack.append(h(v))
            elif op == 0xAB:
                begincode = pc
                ex.codesep_pos = opcode_pos
            elif op in (0xAC, 0xAD):
                need(2)
                sig, pk = stack[-2], stack[-1]
                if sigversion in (BASE, WITNESS_V0):
                    ok = eval_checksig_pre_tapscript(sig, pk, s, begincode, flags, checker, sigversion)
                else:
                    ok = eval_checksig_tapscript(sig, pk, flags, checker, ex)
                stack.pop()
                stack.pop()
                stack.append(b"\x01" if ok else b"")
                if op == 0xAD:
                    if ok:
                        stack.pop()
                    else:
                        raise Err("CHECKSIGVERIFY")
            elif op == 0xBA:
                if sigversion in (BASE, WITNESS_V0):
                    raise Err("BAD_OPCODE")
                need(3)
                sig, nb, pk = stack[-3], stack[-2], stack[-1]
                n_ = num(nb, mini)
                ok = eval_checksig_tapscript(sig, pk, flags, checker, ex)
                stack.pop()
                stack.pop()
                stack.pop()
                stack.append(vch(n_ + (1 if ok else 0)))
            elif op in (0xAE, 0xAF):
                if sigversion == TAPSCRIPT:
                    raise Err("TAPSCRIPT_CHECKMULTISIG")
                i = 1
                need(i)
                nkeys = num(stack[-i], mini)
                if nkeys < 0 or nkeys > 20:
                    raise Err("PUBKEY_COUNT")
                nop += nkeys
                LAST["nop"] = nop
                if nop > 201:
                    raise Err("OP_COUNT")
                i += 1
                ikey = i
                ikey2 = nkeys + 2
                i += nkeys
                need(i)
                nsigs = num(stack[-i], mini)
                if nsigs < 0 or nsigs > nkeys:
                    raise Err("SIG_COUNT")
                i += 1
                isig = i
                i += nsigs
                need(i)
                script_code = s[begincode:]
                for k in range(nsigs):
                    sg = stack[-isig - k]
                    if sigversion == BASE:
                        script_code, found = find_and_delete(script_code, push(sg))
                        if found > 0 and "CONST_SCRIPTCODE" in flags:
                            raise Err("SIG_FINDANDDELETE")
                success = True
                while success and nsigs > 0:
                    sg = stack[-isig]
                    pk = stack[-ikey]
                    check_sig_encoding(sg, flags)
                    check_pubkey_encoding(pk, flags, sigversion)
                    ok = checker.check_ecdsa(sg, pk, script_code, sigversion)
                    if ok:
                        isig += 1
                        nsigs -= 1
                    ikey += 1
                    nkeys -= 1
                    if nsigs > nkeys:
                        success = False
                while i > 1:
                    i -= 1
                    if not success and "NULLFAIL" in flags and not ikey2 and len(stack[-1]):
                        raise Err("SIG_NULLFAIL")
                    if ikey2 > 0:
                        ikey2 -= 1
                    stack.pop()
                need(1)
                if "NULLDUMMY" in flags and len(stack[-1]):
                    raise Err("SIG_NULLDUMMY")
                stack.pop()
                stack.append(b"\x01" if success else b"")
                if op == 0xAF:
                    if success:
                        stack.pop()
                    else:
                        raise Err("CHECKMULTISIGVERIFY")
            else:
                raise Err("BAD_OPCODE")
        if len(stack) + len(alt) > LAST.get("peak", 0):
            LAST["peak"] = len(stack) + len(alt)
        if len(stack) + len(alt) > 1000:
            raise Err("STACK_SIZE")
        opcode_pos += 1
    if vf:
        raise Err("UNBALANCED_CONDITIONAL")


def execute_witness_script(stack, script, flags, sigversion, checker, ex):
    st = list(stack)
    if sigversion == TAPSCRIPT:
        pc = 0
        while pc < len(script):
            g = getop(script, pc)
            if g is None:
                raise Err("BAD_OPCODE")
            op, _, pc = g
            if op in SUCCESS:
                if "DISCOURAGE_OP_SUCCESS" in flags:
                    raise Err("DISCOURAGE_OP_SUCCESS")
                return
        if len(st) > 1000:
            raise Err("STACK_SIZE")
    for e in st:
        if len(e) > 520:
            raise Err("PUSH_SIZE")
    eval_script(st, script, flags, checker, sigversion, ex)
    if len(st) != 1:
        raise Err("CLEANSTACK")
    if not tobool(st[-1]):
        raise Err("EVAL_FALSE")


def ser_witness_size(wit):
    return len(S.cs(len(wit))) + sum(len(S.vb(e)) for e in wit)


def verify_witness_program(witness, version, program, flags, checker, is_p2sh):
    stack = list(witness)
    if version == 0:
        if len(program) == 32:
            if not stack:
                raise Err("WITNESS_PROGRAM_WITNESS_EMPTY")
            script = stack.pop()
            if hashlib.sha256(script).digest() != program:
                raise Err("WITNESS_PROGRAM_MISMATCH")
            return execute_witness_script(stack, script, flags, WITNESS_V0, checker, ExecData())
        if len(program) == 20:
            if len(stack) != 2:
                raise Err("WITNESS_PROGRAM_MISMATCH")
            script = b"\x76\xa9\x14" + program + b"\x88\xac"
            return execute_witness_script(stack, script, flags, WITNESS_V0, checker, ExecData())
        raise Err("WITNESS_PROGRAM_WRONG_LENGTH")
    if version == 1 and len(program) == 32 and not is_p2sh:
        if "TAPROOT" not in flags:
            return
        if not stack:
            raise Err("WITNESS_PROGRAM_WITNESS_EMPTY")
        ex = ExecData()
        if len(stack) >= 2 and stack[-1] and stack[-1][0] == 0x50:
            ex.annex = stack.pop()
        if len(stack) == 1:
            checker.check_schnorr(stack[0], program, TAPROOT, ex)
            return
        control = stack.pop()
        script = stack.pop()
        if len(control) < 33 or len(control) > 33 + 32 * 128 or (len(control) - 33) % 32:
            raise Err("TAPROOT_WRONG_CONTROL_SIZE")
        ex.tapleaf_hash = T.leaf_hash(control[0] & 0xFE, script)
        if T.verify_control(program, script, control) is not True:
            raise Err("WITNESS_PROGRAM_MISMATCH")
        if control[0] & 0xFE == 0xC0:
            ex.budget = ser_witness_size(witness) + 50
            return execute_witness_script(stack, script, flags, TAPSCRIPT, checker, ex)
        if "DISCOURAGE_UPGRADABLE_TAPROOT_VERSION" in flags:
            raise Err("DISCOURAGE_UPGRADABLE_TAPROOT_VERSION")
        return
    if not is_p2sh and version == 1 and program == b"\x4e\x73":
        return  # Core 28: CScript::IsPayToAnchor -- an anchor is always spendable, ahead of the upgradable-program policy
    if "DISCOURAGE_UPGRADABLE_WITNESS_PROGRAM" in flags:
        raise Err("DISCOURAGE_UPGRADABLE_WITNESS_PROGRAM")
    return


def witness_program(spk):
    if len(spk) < 4 or len(spk) > 42:
        return None
    if spk[0] != 0 and not (0x51 <= spk[0] <= 0x60):
        return None
    if spk[1] + 2 == len(spk):
        return (0 if spk[0] == 0 else spk[0] - 0x50), spk[2:]
    return None


def is_p2sh(spk):
    return len(spk) == 23 and spk[0] == 0xA9 and spk[1] == 0x14 and spk[22] == 0x87


def verify_script(script_sig, spk, witness, flags, checker):
    """Core's VerifyScript: returns None or raises Err(name)."""
    flags = set(flags)
    if "SIGPUSHONLY" in flags and not push_only(script_sig):
        raise Err("SIG_PUSHONLY")
    stack = []
    eval_script(stack, script_sig, flags, checker, BASE)
    stack_copy = list(stack) if "P2SH" in flags else None
    eval_script(stack, spk, flags, checker, BASE)
    if not stack:
        raise Err("EVAL_FALSE")
    if not tobool(stack[-1]):
        raise Err("EVAL_FALSE")
    had_witness = False
    if "WITNESS" in flags:
        wp = witness_program(spk)
        if wp is not None:
            had_witness = True
            if len(script_sig) != 0:
                raise Err("WITNESS_MALLEATED")
            verify_witness_program(witness, wp[0], wp[1], flags, checker, False)
            stack = stack[:1]
    if "P2SH" in flags and is_p2sh(spk):
        if not push_only(script_sig):
            raise Err("SIG_PUSHONLY")
        stack = stack_copy
        assert stack
        pubkey2 = stack.pop()
        eval_script(stack, pubkey2, flags, checker, BASE)
        if not stack:
            raise Err("EVAL_FALSE")
        if not tobool(stack[-1]):
            raise Err("EVAL_FALSE")
        if "WITNESS" in flags:
            wp = witness_program(pubkey2)
            if wp is not None:
                had_witness = True
                if script_sig != push(pubkey2):
                    raise Err("WITNESS_MALLEATED_P2SH")
                verify_witness_program(witness, wp[0], wp[1], flags, checker, True)
                stack = stack[:1]
    if "CLEANSTACK" in flags:
        assert "P2SH" in flags and "WITNESS" in flags
        if len(stack) != 1:
            raise Err("CLEANSTACK")
    if "WITNESS" in flags:
        assert "P2SH" in flags
        if not had_witness and witness:
            raise Err("WITNESS_UNEXPECTED")
    return None


# ------------------------------------------------------------------------------------ Core's script_tests.json
OPNAMES = {
    "0": 0x00, "FALSE": 0x00, "PUSHDATA1": 0x4C, "PUSHDATA2": 0x4D, "PUSHDATA4": 0x4E, "1NEGATE": 0x4F, "RESERVED": 0x50, "1": 0x51, "TRUE": 0x51,
    "NOP": 0x61, "VER": 0x62, "IF": 0x63, "NOTIF": 0x64, "VERIF": 0x65, "VERNOTIF": 0x66, "ELSE": 0x67, "ENDIF": 0x68, "VERIFY": 0x69, "RETURN": 0x6A,
    "TOALTSTACK": 0x6B, "FROMALTSTACK": 0x6C, "2DROP": 0x6D, "2DUP": 0x6E, "3DUP": 0x6F, "2OVER": 0x70, "2ROT": 0x71, "2SWAP": 0x72, "IFDUP": 0x73, "DEPTH": 0x74,
    "DROP": 0x75, "DUP": 0x76, "NIP": 0x77, "OVER": 0x78, "PICK": 0x79, "ROLL": 0x7A, "ROT": 0x7B, "SWAP": 0x7C, "TUCK": 0x7D, "CAT": 0x7E, "SUBSTR": 0x7F,
    "LEFT": 0x80, "RIGHT": 0x81, "SIZE": 0x82, "INVERT": 0x83, "AND": 0x84, "OR": 0x85, "XOR": 0x86, "EQUAL": 0x87, "EQUALVERIFY": 0x88, "RESERVED1": 0x89,
    "RESERVED2": 0x8A, "1ADD": 0x8B, "1SUB": 0x8C, "2MUL": 0x8D, "2DIV": 0x8E, "NEGATE": 0x8F, "ABS": 0x90, "NOT": 0x91, "0NOTEQUAL": 0x92, "ADD": 0x93, "SUB": 0x94,
    "MUL": 0x95, "DIV": 0x96, "MOD": 0x97, "LSHIFT": 0x98, "RSHIFT": 0x99, "BOOLAND": 0x9A, "BOOLOR": 0x9B, "NUMEQUAL": 0x9C, "NUMEQUALVERIFY": 0x9D,
    "NUMNOTEQUAL": 0x9E, "LESSTHAN": 0x9F, "GREATERTHAN": 0xA0, "LESSTHANOREQUAL": 0xA1, "GREATERTHANOREQUAL": 0xA2, "MIN": 0xA3, "MAX": 0xA4, "WITHIN": 0xA5,
    "RIPEMD160": 0xA6, "SHA1": 0xA7, "SHA256": 0xA8, "HASH160": 0xA9, "HASH256": 0xAA, "CODESEPARATOR": 0xAB, "CHECKSIG": 0xAC, "CHECKSIGVERIFY": 0xAD,
    "CHECKMULTISIG": 0xAE, "CHECKMULTISIGVERIFY": 0xAF, "NOP1": 0xB0, "CHECKLOCKTIMEVERIFY": 0xB1, "NOP2": 0xB1, "CHECKSEQUENCEVERIFY": 0xB2, "NOP3": 0xB2,
    "NOP4": 0xB3, "NOP5": 0xB4, "NOP6": 0xB5, "NOP7": 0xB6, "NOP8": 0xB7, "NOP9": 0xB8, "NOP10": 0xB9, "CHECKSIGADD": 0xBA, "INVALIDOPCODE": 0xFF,
}
for _i in range(2, 17):
    OPNAMES[str(_i)] = 0x50 + _i


def parse_core_script(text):
    """Core's ParseScript (core_read.cpp)."""
    out = b""
    for w in text.split():
        if not w:
            continue
        if w.lstrip("-").isdigit() and (w[0] != "-" or len(w) > 1):
            n = int(w)
            if n == -1 or 1 <= n <= 16:
                out += bytes([0x50 + n]) if n != -1 else b"\x4f"
            elif n == 0:
                out += b"\x00"
            else:
                out += push(vch(n))
        elif w.startswith("0x"):
            out += bytes.fromhex(w[2:])
        elif len(w) >= 2 and w[0] == "'" and w[-1] == "'":
            out += push(w[1:-1].encode())
        else:
            name = w[3:] if w.startswith("OP_") else w
            out += bytes([OPNAMES[name]])
    return out


def core_vector_txs(script_sig, spk, amount):
    """BuildCreditingTransaction / BuildSpendingTransaction of Core's script_tests.cpp, as dicts."""
    credit = {"version": 1, "locktime": 0, "ins": [(bytes(32), 0xFFFFFFFF, b"\x00\x00", 0xFFFFFFFF)], "outs": [(amount, spk)]}
    raw = (struct.pack("<I", 1) + b"\x01" + bytes(32) + struct.pack("<I", 0xFFFFFFFF) + S.vb(b"\x00\x00") + struct.pack("<I", 0xFFFFFFFF)
           + b"\x01" + struct.pack("<q", amount) + S.vb(spk) + struct.pack("<I", 0))
    txid = S.dsha(raw)[::-1]
    spend = {"version": 1, "locktime": 0, "ins": [(txid, 0, script_sig, 0xFFFFFFFF)], "outs": [(amount, b"")]}
    return credit, spend


def load_core_script_tests():
    """[(witness, amount_sats, scriptSig, scriptPubKey, flags, expected, comment, raw_row)]; taproot placeholder rows skipped."""
    vec = json.load(open(os.path.join(os.path.dirname(os.path.abspath(__file__)), "vectors", "script_tests.json")))
    out = []
    for row in vec:
        if len(row) < 4:
            continue
        wit = []
        amount = 0
        r = list(row)
        if isinstance(r[0], list):
            w = r.pop(0)
            amount = int(round(w[-1] * 100_000_000))
            wit = w[:-1]
        if any(isinstance(x, str) and x.startswith("#") for x in wit) or "#" in r[0] or "#" in r[1]:
            out.append(("placeholder", row))
            continue
        flags = [f for f in r[2].split(",") if f and f != "NONE"]
        out.append(([bytes.fromhex(x) for x in wit], amount, parse_core_script(r[0]), parse_core_script(r[1]), flags, r[3], r[4] if len(r) > 4 else "", row))
    return out


def run_core_vector(v):
    wit, amount, ssig, spk, flags, expected, comment, row = v
    flags = set(flags)
    if "CLEANSTACK" in flags:  # script_tests.cpp DoTest: CLEANSTACK implies P2SH and WITNESS
        flags |= {"P2SH", "WITNESS"}
    if "WITNESS" in flags:
        flags |= {"P2SH"}
    credit, spend = core_vector_txs(ssig, spk, amount)
    chk = Checker(spend, 0, amount, [(amount, spk)])
    try:
        verify_script(ssig, spk, wit, flags, chk)
        return "OK"
    except Err as e:
        return e.args[0]


# the json spells a ScriptError by the short names of script_tests.cpp's table; where the vendored file and Core's source
# name one situation differently (an IF on an empty stack) both are taken: the verdict is what the property constrains
ALIASES = {"UNKNOWN_ERROR": {"SCRIPTNUM", "UNKNOWN_ERROR"}, "SIG_NULLFAIL": {"NULLFAIL"}, "UNBALANCED_CONDITIONAL": {"UNBALANCED_CONDITIONAL", "INVALID_STACK_OPERATION"}}


def self_gate():
    n = 0
    bad = []
    for v in load_core_script_tests():
        if v[0] == "placeholder":
            continue
        got = run_core_vector(v)
        exp = v[5]
        n += 1
        if got != exp and exp not in ALIASES.get(got, ()):
            bad.append((got, exp, v[7]))
    assert not bad, f"{len(bad)} of {n} script_tests.json vectors disagree, e.g. {bad[:3]}"
    return n
