"""An independent reader/writer of the raw PSBT key-value structure (BIP174): magic, then maps of
<keylen><key><vallen><value> pairs, each map closed by a 0x00 separator.  Nothing of btclib."""
from __future__ import annotations

import base64
import json
import os

MAGIC = b"psbt\xff"
VEC = os.path.join(os.path.dirname(os.path.abspath(__file__)), "vectors")


def _cs(data, pos):
    f = data[pos]
    if f < 0xFD:
        return f, pos + 1
    w = {0xFD: 2, 0xFE: 4, 0xFF: 8}[f]
    return int.from_bytes(data[pos + 1:pos + 1 + w], "little"), pos + 1 + w


def _wcs(n):
    if n < 0xFD:
        return bytes([n])
    if n <= 0xFFFF:
        return b"\xfd" + n.to_bytes(2, "little")
    if n <= 0xFFFFFFFF:
        return b"\xfe" + n.to_bytes(4, "little")
    return b"\xff" + n.to_bytes(8, "little")


def read_maps(raw: bytes):
    """-> list of maps, each a list of (key_bytes, value_bytes) in wire order."""
    assert raw[:5] == MAGIC, "magic"
    pos = 5
    maps = []
    cur = []
    while pos < len(raw):
        klen, pos = _cs(raw, pos)
        if klen == 0:
            maps.append(cur)
            cur = []
            continue
        key = raw[pos:pos + klen]
        assert len(key) == klen
        pos += klen
        vlen, pos = _cs(raw, pos)
        val = raw[pos:pos + vlen]
        assert len(val) == vlen
        pos += vlen
        cur.append((key, val))
    assert not cur, "unterminated map"
    return maps


def write_maps(maps) -> bytes:
    out = MAGIC
    for m in maps:
        for k, v in m:
            out += _wcs(len(k)) + k + _wcs(len(v)) + v
        out += b"\x00"
    return out


def multiset(maps):
    return [sorted(m) for m in maps]


def valid_vectors():
    """[(label, raw_bytes)] of every vendored psbt the BIPs call valid."""
    out = []
    for f in ("bip174", "bip370", "bip371", "bip373"):
        d = json.load(open(os.path.join(VEC, f + "_test_vectors.json")))
        for sect in ("valid psbts", "lock time psbts"):
            for i, v in enumerate(d.get(sect, [])):
                if sect == "lock time psbts" and v.get("lock time") is None:
                    continue  # BIP370: no lock time satisfies every input -- a psbt a parser may refuse
                out.append((f"{f}/{sect}/{i}", base64.b64decode(v["encoded psbt"])))
    d = json.load(open(os.path.join(VEC, "bip375_test_vectors.json")))
    for i, v in enumerate(d.get("valid", [])):
        p = v["psbt"]
        try:
            out.append((f"bip375/valid/{i}", base64.b64decode(p)))
        except Exception:  # noqa: BLE001
            out.append((f"bip375/valid/{i}", bytes.fromhex(p)))
    return out


def self_gate():
    n = 0
    for label, raw in valid_vectors():
        maps = read_maps(raw)
        assert write_maps(maps) == raw, label
        assert len(maps) >= 1
        n += 1
    return n
