"""Harness-side builders of valid inputs (transactions, blocks).  They use btclib's
constructors — an input has to be a btclib object — but never decide a verdict."""
from __future__ import annotations

import hashlib
from datetime import datetime, timezone

REGTEST_BITS = bytes.fromhex("207fffff")
COMMIT_PREFIX = bytes.fromhex("6a24aa21a9ed")


def h256(b):
    return hashlib.sha256(hashlib.sha256(b).digest()).digest()


def simple_tx(tag: int, out_scripts, prev_scripts_n=1, witness=False, version=2, lock_time=0):
    from btclib.script.witness import Witness
    from btclib.tx import OutPoint, Tx, TxIn, TxOut

    vin = [TxIn(OutPoint(hashlib.sha256(b"prev%d-%d" % (tag, i)).digest(), i), b"\x51" if not witness else b"", 0xFFFFFFFE,
                Witness([bytes([tag % 256, i])]) if witness else Witness(), check_validity=False)
           for i in range(prev_scripts_n)]
    vout = [TxOut(1000 + j, s, check_validity=False) for j, s in enumerate(out_scripts)]
    return Tx(version, lock_time, vin, vout, check_validity=False)


def coinbase_tx(height_tag: int, out_scripts, witness_commitment: bytes | None = None, nonce: bytes | None = None):
    from btclib.script.witness import Witness
    from btclib.tx import OutPoint, Tx, TxIn, TxOut

    vout = [TxOut(50_0000_0000 + j, s, check_validity=False) for j, s in enumerate(out_scripts)]
    if witness_commitment is not None:
        vout.append(TxOut(0, COMMIT_PREFIX + witness_commitment, check_validity=False))
    w = Witness([nonce]) if nonce is not None else Witness()
    vin = [TxIn(OutPoint(), b"\x02" + height_tag.to_bytes(2, "little"), 0xFFFFFFFF, w, check_validity=False)]
    return Tx(1, 0, vin, vout, check_validity=False)


def ref_merkle_root(hashes):
    lvl = list(hashes)
    while len(lvl) > 1:
        if len(lvl) % 2:
            lvl.append(lvl[-1])
        lvl = [h256(lvl[i] + lvl[i + 1]) for i in range(0, len(lvl), 2)]
    return lvl[0]


def ref_witness_commitment(txs, nonce=bytes(32)):
    """BIP141: hash256(witness merkle root || nonce), coinbase wtxid taken as zero."""
    wt = [bytes(32)] + [h256(t.serialize(include_witness=True, check_validity=False)) for t in txs[1:]]
    return h256(ref_merkle_root(wt) + nonce)


def block_from(txs, time_s=1_600_000_000, bits=REGTEST_BITS, mine=True, merkle_root=None):
    """A regtest block over txs (txs[0] must be a coinbase); merkle root from the reference model."""
    from btclib.block import Block, BlockHeader
    from btclib.block.mining import mine as mine_

    root = merkle_root if merkle_root is not None else ref_merkle_root(
        [h256(t.serialize(include_witness=False, check_validity=False)) for t in txs])[::-1]
    hdr = BlockHeader(0x20000000, bytes(32), root, datetime.fromtimestamp(time_s, timezone.utc), bits, 0, check_validity=False)
    if mine:
        solved = mine_(hdr)
        assert solved is not None
        hdr = solved
    return Block(hdr, txs, check_validity=False)


def segwit_block(tag, n_tx, out_scripts_per_tx, nonce=bytes(32), **kw):
    body = [simple_tx(tag * 16 + i, out_scripts_per_tx[i % len(out_scripts_per_tx)], witness=True) for i in range(n_tx)]
    cb0 = coinbase_tx(tag, [b"\x51"], bytes(32), nonce)
    commitment = ref_witness_commitment([cb0] + body, nonce)
    cb = coinbase_tx(tag, [b"\x51"], commitment, nonce)
    return block_from([cb] + body, **kw)
