#!/bin/sh
# Offline setup: nothing to build (pure Python run by /venv/bin/python against /repo's working tree).
# Byte-compile the framework and run the reference models' self-gates on their published vectors.
cd "$(dirname "$0")" || exit 2
mkdir -p evidence replays .work
/venv/bin/python -m compileall -q mc models checks >/dev/null 2>&1
/venv/bin/python -m models.gates || exit 2
echo "setup ok"
