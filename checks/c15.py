"""C15 — miniscript typing, compilation, read-back and satisfaction are consistent.

E1 over an expression grammar enumerated to depth 3 (both contexts), the type system deciding which strings are
expressions.  Static: script size as predicted, from_script(script) compiles back to the same script, text round trip.
Dynamic: for every sane expression x every assignment of available keys / preimages / (version, lock time, sequence),
node.satisfy() is judged three ways: (1) an independent evaluator of the spending condition says 'false' => no
satisfaction may be produced; (2) a produced witness must make the library's engine AND the Core transcription
(models/script_ref) accept the p2wsh / tapscript spend, with real signatures over the real digest; (3) witness bytes,
element count, executed ops and peak stack stay within the node's predicted bounds."""
from __future__ import annotations

import hashlib
import itertools

from mc.core import Stats, backend, lib_errors, shard_round_robin
from models import bip340_ref as B
from models import ec_ref as R
from models import script_ref as SR
from models import sighash_ref as SH
from models import taproot_ref as TR

PROPERTY = "C15"
LEVEL = "model_checking"
RULE = ("evals = expression strings tried (static) + (sane expression, availability assignment) pairs (dynamic); states = sane expressions; "
        "transitions = satisfactions run through both interpreters.  Non-trivial = a well-typed expression with a combinator or two wrappers "
        "(static), an assignment under which some but not all branches are open (dynamic)")
ASSUMPTIONS = ["grammar: 16 leaves x wrappers to length 2, binary/ternary combinators over singly wrapped leaves, depth-3 nestings over a reduced leaf set; 3 keys",
               "availability: 8 key subsets x preimages known or not x 4 (version, lock time, sequence) settings", "satisfy() may refuse a true condition (non-malleability): counted, not judged",
               "spending-condition evaluator transcribed from BIP379's semantics table in this file"]
META = {"engine": "E1 enumeration of a typed grammar + exhaustive availability assignments; two interpreters as oracles",
        "technique": "model checking: bounded-exhaustive enumeration of miniscript expressions to depth 3 in both contexts x all availability assignments of a small alphabet, each satisfaction executed on the implementation's interpreter and on an independent transcription of Core's",
        "note": "Trusts models/script_ref.py (gated on 1228 Core vectors), models/sighash_ref.py, and the spending-condition evaluator here."}

PRV = {"A": 2, "B": 3, "C": 4}
PUB = {k: R.mul_fast(v, B.G_K1, B.P_K1, 0) for k, v in PRV.items()}
SEC = {k: bytes([2 + (p[1] & 1)]) + p[0].to_bytes(32, "big") for k, p in PUB.items()}
PRE = b"x" * 32
H32 = {"sha256": hashlib.sha256(PRE).digest(), "hash256": hashlib.sha256(hashlib.sha256(PRE).digest()).digest()}
H20 = {"ripemd160": hashlib.new("ripemd160", PRE).digest(), "hash160": hashlib.new("ripemd160", hashlib.sha256(PRE).digest()).digest()}
NUMS = bytes.fromhex("50929b74c1a04954b78b4b6035e97a5e078a5a0f28ec96d547bfee9ace803ac0")


# ------------------------------------------------------------------------------------------------ ASTs
def key_txt(c, ctx):
    return SEC[c].hex() if ctx == "P2WSH" else SEC[c][1:].hex()


def render(a, ctx):
    t = a[0]
    if t == "const":
        return str(a[1])
    if t == "key":
        return f"{a[1]}({key_txt(a[2], ctx)})"
    if t in ("older", "after"):
        return f"{t}({a[1]})"
    if t == "hash":
        return f"{a[1]}({(H32.get(a[1]) or H20[a[1]]).hex()})"
    if t == "multi":
        return f"{'multi' if ctx == 'P2WSH' else 'multi_a'}({a[1]},{','.join(key_txt(c, ctx) for c in a[2])})"
    if t == "wrap":
        inner = render(a[2], ctx)
        # wrappers concatenate: a:s:X is written as:X
        if a[2][0] == "wrap":
            return a[1] + inner
        return f"{a[1]}:{inner}"
    if t == "op":
        return f"{a[1]}({','.join(render(x, ctx) for x in a[2])})"
    if t == "thresh":
        return f"thresh({a[1]},{','.join(render(x, ctx) for x in a[2])})"
    raise AssertionError(a)


def holds(a, env):
    """The spending condition of the expression under what is available (BIP379's semantics column)."""
    keys, pre, version, lock, seq = env
    t = a[0]
    if t == "const":
        return bool(a[1])
    if t == "key":
        return a[2] in keys
    if t == "older":
        n = a[1]
        if version < 2 or seq & (1 << 31):
            return False
        if (n & (1 << 22)) != (seq & (1 << 22)):
            return False
        return (n & 0xFFFF) <= (seq & 0xFFFF)
    if t == "after":
        n = a[1]
        if (n >= 500_000_000) != (lock >= 500_000_000):
            return False
        return n <= lock and seq != 0xFFFFFFFF
    if t == "hash":
        return pre
    if t == "multi":
        return sum(c in keys for c in a[2]) >= a[1]
    if t == "wrap":
        return holds(a[2], env)
    if t == "thresh":
        return sum(holds(x, env) for x in a[2]) >= a[1]
    if t == "op":
        n, xs = a[1], a[2]
        if n in ("and_v", "and_b", "and_n"):
            return holds(xs[0], env) and holds(xs[1], env)
        if n in ("or_b", "or_c", "or_d", "or_i"):
            return holds(xs[0], env) or holds(xs[1], env)
        if n == "andor":
            return (holds(xs[0], env) and holds(xs[1], env)) or holds(xs[2], env)
    raise AssertionError(a)


def mentions(a):
    out = {"keys": set(), "hash": False, "time": False}

    def walk(x):
        if x[0] == "key":
            out["keys"].add(x[2])
        elif x[0] == "multi":
            out["keys"].update(x[2])
        elif x[0] == "hash":
            out["hash"] = True
        elif x[0] in ("older", "after"):
            out["time"] = True
        elif x[0] == "wrap":
            walk(x[2])
        elif x[0] in ("op", "thresh"):
            for y in x[2]:
                walk(y)
    walk(a)
    out["keys"] = frozenset(out["keys"])
    return out


def nodes(a):
    if a[0] == "wrap":
        return 1 + nodes(a[2])
    if a[0] in ("op", "thresh"):
        return 1 + sum(nodes(x) for x in a[2])
    return 1


LEAVES = [("const", 0), ("const", 1), ("key", "pk_k", "A"), ("key", "pk_h", "A"), ("key", "pk", "A"), ("key", "pkh", "B"), ("key", "pk", "C"),
          ("older", 1), ("older", 4194305), ("after", 1), ("after", 500000000),
          ("hash", "sha256"), ("hash", "hash256"), ("hash", "ripemd160"), ("hash", "hash160"),
          ("multi", 1, ("A", "B")), ("multi", 2, ("A", "B", "C"))]
WR = ["a", "s", "c", "d", "v", "j", "n", "t", "l", "u"]
BIN = ["and_v", "and_b", "or_b", "or_c", "or_d", "or_i", "and_n"]


def wrapped(e, depth=2):
    yield e
    for w in WR:
        yield ("wrap", w, e)
    if depth >= 2:
        for w1, w2 in itertools.product(WR, repeat=2):
            yield ("wrap", w1, ("wrap", w2, e))


def level1():
    return [w for leaf in LEAVES for w in wrapped(leaf)]


def level2():
    one = [w for leaf in LEAVES for w in wrapped(leaf, 1)]
    for op in BIN:
        for x, y in itertools.product(one, repeat=2):
            yield ("op", op, (x, y))
    small = [w for leaf in LEAVES[:9] for w in wrapped(leaf, 1)]
    for x, y, z in itertools.product(small[:40], small[:40], small[:12]):
        yield ("op", "andor", (x, y, z))
    for k in (1, 2):
        for x, y in itertools.product(one, repeat=2):
            yield ("thresh", k, (x, y))
    few = [w for leaf in (LEAVES[4], LEAVES[5], LEAVES[6], LEAVES[7], LEAVES[11]) for w in wrapped(leaf, 1)]
    for k in (1, 2, 3):
        for x, y, z in itertools.product(few[:22], few, few):
            yield ("thresh", k, (x, y, z))


def level2b():
    """Binary combinators with one argument under TWO wrappers (su:, sl:, dv:, ...), over a reduced leaf set.  Not filtered
    by what is well typed on its own: whether the composition types is the parser's to say, each time."""
    base = [LEAVES[0], LEAVES[1], LEAVES[4], LEAVES[5], LEAVES[6], LEAVES[7], LEAVES[9], LEAVES[11]]
    twice = [("wrap", w1, ("wrap", w2, leaf)) for leaf in base for w1, w2 in itertools.product(WR, repeat=2)]
    one, _ = level3_parts()
    for op in BIN:
        for x in twice:
            for y in one:
                yield ("op", op, (x, y))
                yield ("op", op, (y, x))
    for k in (1, 2):
        for x in twice:
            for y in one[:21]:
                yield ("thresh", k, (y, x))


def level3_parts():
    """Depth 3 over a reduced leaf set: an inner combinator (wrapped or not) as either argument of an outer one."""
    base = [LEAVES[4], LEAVES[5], LEAVES[6], LEAVES[7], LEAVES[11]]  # pk(A) pkh(B) pk(C) older(1) sha256
    one = [w for leaf in base for w in (leaf, ("wrap", "v", leaf), ("wrap", "s", leaf), ("wrap", "a", leaf), ("wrap", "n", leaf), ("wrap", "j", leaf), ("wrap", "d", ("wrap", "v", leaf)))]
    inner = []
    for op in BIN:
        for x, y in itertools.product(one, repeat=2):
            inner.append(("op", op, (x, y)))
    for x, y, z in itertools.product(one[:14], one[:14], one[:7]):
        inner.append(("op", "andor", (x, y, z)))
    return one, inner


def level3(inner_ok, one, outer_w=("", "v", "s", "a", "j", "n", "d", "t", "l", "u")):
    for d2 in inner_ok:
        for w in outer_w:
            wd = d2 if not w else ("wrap", w, d2)
            for op in BIN:
                for x in one:
                    yield ("op", op, (wd, x))
                    yield ("op", op, (x, wd))
            for k in (1, 2):
                for x in one[:14]:
                    yield ("thresh", k, (wd, x))
                    yield ("thresh", k, (x, wd))


# ------------------------------------------------------------------------------------------------ static
def _known(ctx):
    from btclib.hashes import hash160
    ks = [SEC[c] if ctx == "P2WSH" else SEC[c][1:] for c in "ABC"]
    return {hash160(k): k for k in ks}


def _static_shard(arg):
    ctx, asts, want_sane = arg
    from btclib.descriptors import miniscript as ms

    C = ms.P2WSH if ctx == "P2WSH" else ms.TAPSCRIPT
    st = Stats()
    errs = lib_errors()
    known = _known(ctx)
    sane = []
    for a in asts:
        st.evals += 1
        e = render(a, ctx)
        try:
            node = ms.parse(e, C)
        except errs:
            continue
        except Exception as ex:  # noqa: BLE001
            st.violation("C15/parse-foreign-exception/" + type(ex).__name__, {"ctx": ctx, "expr": e}, repr(ex)[:80], "a refusal")
            continue
        st.outcomes["well-typed"] += 1
        try:
            is_sane = node.is_sane
        except Exception as ex:  # noqa: BLE001
            st.violation("C15/is_sane-raises", {"ctx": ctx, "expr": e}, repr(ex)[:80], "bool")
            continue
        if not is_sane:
            continue
        st.states += 1
        if nodes(a) > 2:
            st.nontrivial += 1
        case = {"ctx": ctx, "expr": e}
        try:
            sc = node.script()
            if len(sc) != node.script_size:
                st.violation("C15/script-size-differs-from-prediction", case, len(sc), node.script_size)
            try:
                back = ms.from_script(sc, C, known)
                if back.script() != sc:
                    st.violation("C15/read-back-compiles-to-another-script", case, back.script().hex()[:40], sc.hex()[:40])
            except errs as ex:
                st.violation("C15/own-script-not-read-back", case, repr(ex)[:100], "an expression")
            again = ms.parse(str(node), C)
            if again != node:
                st.violation("C15/text-round-trip-not-equal", case, str(again)[:80], str(node)[:80])
        except errs as ex:
            st.violation("C15/sane-expression-does-not-compile", case, repr(ex)[:100], "a script")
            continue
        except Exception as ex:  # noqa: BLE001
            st.violation("C15/static-foreign-exception/" + type(ex).__name__, case, repr(ex)[:100], "a script")
            continue
        if want_sane:
            sane.append(a)
    st.notes.setdefault("sane", {}).setdefault(ctx, []).extend(sane)
    return st


def _enumerate(ctx_obj, depth3=True):
    """-> {ctx: [asts]} of every expression string to try."""
    l1 = level1()
    l2 = list(level2())
    return l1 + l2 + list(level2b())


def static(ctx):
    st = Stats()
    all_asts = _enumerate(ctx)
    one, inner = level3_parts()
    for c in ("P2WSH", "tapscript"):
        shards = [(c, sh, False) for sh in shard_round_robin(all_asts, 64)]
        st.merge(ctx.pmap(_static_shard, shards))
        # depth 3: inner combinators that are well typed (the parser decides), then every outer placement
        inner_ok = _well_typed(c, inner)
        l3 = list(level3(inner_ok if not ctx.quick else inner_ok[::3], one))
        st.merge(ctx.pmap(_static_shard, [(c, sh, False) for sh in shard_round_robin(l3, 96)]))
        st.notes[f"strings_{c}"] = len(all_asts) + len(l3)
        st.notes[f"inner_well_typed_{c}"] = len(inner_ok)
    st.notes.pop("sane", None)
    return st


def _well_typed(c, asts):
    from btclib.descriptors import miniscript as ms
    C = ms.P2WSH if c == "P2WSH" else ms.TAPSCRIPT
    errs = lib_errors()
    out = []
    for a in asts:
        try:
            ms.parse(render(a, c), C)
            out.append(a)
        except errs:
            pass
    return out


# ------------------------------------------------------------------------------------------------ dynamic
ENVS_TX = [(2, 0, 0xFFFFFFFF), (2, 1, 1), (2, 500_000_000, 4194305), (1, 1, 1), (2, 1, 0xFFFFFFFF), (2, 500_000_000, 1)]
KEYSETS = [frozenset(s) for r in range(4) for s in itertools.combinations("ABC", r)]


def _spend_objects(ctx, script, version, lock, seq):
    """-> (tx dict for the models, btclib Tx without witness, prevout amount, spk, leaf hash / None, control / None)"""
    amount = 100_000
    if ctx == "P2WSH":
        spk = b"\x00\x20" + hashlib.sha256(script).digest()
        lh = control = None
    else:
        lh = TR.leaf_hash(0xC0, script)
        qx, parity = TR.tweak_pubkey(int.from_bytes(NUMS, "big"), lh)
        spk = b"\x51\x20" + qx.to_bytes(32, "big")
        control = bytes([0xC0 | parity]) + NUMS
    txd = {"version": version, "locktime": lock, "ins": [(bytes(range(32)), 0, b"", seq)], "outs": [(90_000, b"\x00\x14" + bytes(20))], "wit": []}
    return txd, amount, spk, lh, control


def _dynamic_shard(arg):
    ctx, asts, serving = arg
    from btclib.descriptors import miniscript as ms
    from btclib.descriptors.miniscript import SpendContext
    from btclib.ecc import dsa, ssa
    from btclib.script.engine import verify_input
    from btclib.script.witness import Witness
    from btclib.tx import OutPoint, Tx, TxIn, TxOut

    C = ms.P2WSH if ctx == "P2WSH" else ms.TAPSCRIPT
    st = Stats()
    errs = lib_errors()
    flags = {"P2SH", "WITNESS", "DERSIG", "LOW_S", "STRICTENC", "NULLDUMMY", "NULLFAIL", "MINIMALIF", "CHECKLOCKTIMEVERIFY", "CHECKSEQUENCEVERIFY", "WITNESS_PUBKEYTYPE", "TAPROOT", "MINIMALDATA", "CLEANSTACK"}
    with backend(serving):
        for a in asts:
            e = render(a, ctx)
            try:
                node = ms.parse(e, C)
                if not node.is_sane:
                    continue
                script = node.script()
            except errs:
                continue
            st.states += 1
            bounds = (node.max_witness_size, node.max_stack_items, node.max_ops, node.max_exec_stack_items, node.max_witness_stack)
            # exact reductions: the satisfier reads only what the expression names, so lock settings are enumerated only for
            # expressions holding a timelock, preimage availability only for those holding a hash, and key subsets over its own keys
            named = mentions(a)
            envs_tx = ENVS_TX if named["time"] else ENVS_TX[:1]
            keysets = [k for k in KEYSETS if k <= named["keys"]]
            pres = (False, True) if named["hash"] else (False,)
            for version, lock, seq in envs_tx:
                txd, amount, spk, lh, control = _spend_objects(ctx, script, version, lock, seq)
                # real signatures over the real digest, one per key
                if ctx == "P2WSH":
                    digest = SH.segwit_v0(txd, 0, script, 1, amount)
                    sig = {c: dsa.sign_(digest, PRV[c]).serialize() + b"\x01" for c in "ABC"}
                    keyid = {c: SEC[c] for c in "ABC"}
                else:
                    digest = SH.taproot(txd, 0, [(amount, spk)], 0, ext=SH.tapleaf_ext(lh))
                    sig = {c: ssa.sign_(digest, PRV[c]).serialize() for c in "ABC"}
                    keyid = {c: SEC[c][1:] for c in "ABC"}
                for keys in keysets:
                    for pre in pres:
                        st.evals += 1
                        env = (keys, pre, version, lock, seq)
                        cond = holds(a, env)
                        spend = SpendContext(sha256_preimages={H32["sha256"]: PRE} if pre else {}, hash256_preimages={H32["hash256"]: PRE} if pre else {},
                                             ripemd160_preimages={H20["ripemd160"]: PRE} if pre else {}, hash160_preimages={H20["hash160"]: PRE} if pre else {},
                                             locktime=lock, sequence=seq, version=version)
                        case = {"ctx": ctx, "expr": e, "keys": sorted(keys), "preimages": pre, "version": version, "lock": lock, "seq": hex(seq), "bindings": serving}
                        try:
                            sat = node.satisfy({keyid[c]: sig[c] for c in keys}, spend)
                        except errs:
                            st.outcomes[("refused", cond)] += 1
                            continue
                        except Exception as ex:  # noqa: BLE001
                            st.violation("C15/satisfy-foreign-exception/" + type(ex).__name__, case, repr(ex)[:100], "a witness or a refusal")
                            continue
                        st.transitions += 1
                        if 0 < len(keys) < 3 or not cond:
                            st.nontrivial += 1
                        if not cond:
                            st.violation("C15/satisfaction-produced-for-a-false-condition", case, [x.hex()[:16] for x in sat], "no satisfaction")
                            continue
                        st.outcomes[("satisfied", len(sat))] += 1
                        wit = list(sat) + [script] + ([control] if control else [])
                        # (2a) the implementation's engine
                        tx = Tx(version, lock, [TxIn(OutPoint(bytes(range(32)), 0), b"", seq, Witness(wit))], [TxOut(90_000, b"\x00\x14" + bytes(20))])
                        try:
                            verify_input([TxOut(amount, spk)], tx, 0)
                        except errs as ex:
                            st.violation("C15/engine-rejects-the-satisfaction", case, repr(ex)[:100], "accepted")
                            continue
                        # (2b) Core's interpreter, transcribed: verdict and the executed ops / peak stack
                        SR.LAST.clear()
                        try:
                            SR.verify_script(b"", spk, wit, flags, SR.Checker(txd, 0, amount, [(amount, spk)]))
                        except SR.Err as ex:
                            st.violation("C15/core-transcription-rejects-the-satisfaction", case, str(ex)[:60], "accepted")
                            continue
                        # (3) bounds
                        mws, msi, mops, mexec, mstack = bounds
                        size = sum(len(x) + (1 if len(x) < 253 else 3) for x in sat)
                        if mws is not None and size > mws:
                            st.violation("C15/witness-larger-than-predicted", case, size, mws)
                        if msi is not None and len(sat) > msi:
                            st.violation("C15/more-witness-elements-than-predicted", case, len(sat), msi)
                        if ctx == "P2WSH" and mops is not None and SR.LAST.get("nop", 0) > mops:
                            st.violation("C15/more-ops-executed-than-predicted", case, SR.LAST.get("nop"), mops)
                        if mexec is not None and SR.LAST.get("peak", 0) - 0 > mexec + 1:
                            # the transcription's peak counts the witness script's own initial stack; +1 for the script element popped before execution
                            st.violation("C15/deeper-stack-than-predicted", case, SR.LAST.get("peak"), mexec)
    return st


def satisfaction(ctx):
    st = Stats()
    one, inner = level3_parts()
    for c in ("P2WSH", "tapscript"):
        inner_ok = _well_typed(c, inner)
        # quick: every depth-3 nesting with the inner combinator unwrapped; thorough: also under the v:, s:, a: and j: wrappers, on both arms
        # (all ten outer wrappers are in the static sweep; the dynamic one over all of them is ~1e5 more expressions per context)
        cand = list(itertools.chain(level1(), level2(), level2b(), level3(inner_ok, one, ctx.pick(("",), ("", "v", "s", "a", "j")))))
        # the parser and is_sane decide, in parallel
        sane = []
        with_notes = [_sane_collect(ctx, c, cand)]
        for lst in with_notes:
            sane.extend(lst)
        # dedupe by rendering
        seen, uniq = set(), []
        for a in sane:
            e = render(a, c)
            if e not in seen:
                seen.add(e)
                uniq.append(a)
        st.notes[f"sane_{c}"] = len(uniq)
        for serving in ((True, False) if not ctx.quick else (True,)):
            sub = uniq if serving else uniq[::5]
            st.merge(ctx.pmap(_dynamic_shard, [(c, sh, serving) for sh in shard_round_robin(sub, 128)]))
        if ctx.quick:
            st.merge(ctx.pmap(_dynamic_shard, [(c, sh, False) for sh in shard_round_robin(uniq[::9], 32)]))
    return st


def _sane_collect(ctx, c, cand):
    pool = ctx.pool()
    futs = [pool.submit(_sane_only, (c, sh)) for sh in shard_round_robin(cand, 64)]
    out = []
    for f in futs:
        out.extend(f.result())
    return out


def _sane_only(arg):
    c, asts = arg
    from btclib.descriptors import miniscript as ms
    errs = lib_errors()
    C = ms.P2WSH if c == "P2WSH" else ms.TAPSCRIPT
    out = []
    for a in asts:
        try:
            n = ms.parse(render(a, c), C)
            if n.is_sane:
                out.append(a)
        except errs:
            pass
    return out


SUBS = [("static", static), ("satisfaction", satisfaction)]
