"""C17 — block commitments: compact targets, retargeting, work, merkle roots and proofs,
BIP158 filters, compact blocks.  Engine E1 (bounded-exhaustive enumeration against
reference models transcribed from Bitcoin Core / the BIPs; nothing of btclib is
used on the reference side)."""
from __future__ import annotations

import hashlib
import itertools
from datetime import datetime, timedelta, timezone

from mc.core import Stats, lib_errors, shard_round_robin

PROPERTY = "C17"
LEVEL = "exploration"
RULE = ("E1: every compact value exponent(256) x mantissa bytes over a boundary alphabet, every target "
        "length 0..32 x top bytes over the same alphabet, every timespan x target of a lattice, every hash "
        "list of length 1..k over a 3-hash alphabet x every (leaf, index, branch mutation), every Golomb value "
        "sequence, every block/pool combination of the compact-block alphabet; non-trivial = the model does "
        "not classify the case as degenerate (zero target / overflow / single-leaf tree / empty filter)")
ASSUMPTIONS = [
    "reference models (models/pow_ref.py, inline merkle/GCS/siphash transcriptions) are faithful to Core/BIP158/BIP152; gated on published vectors",
    "hashlib sha256 is correct",
]


def h256(b):
    return hashlib.sha256(hashlib.sha256(b).digest()).digest()


# ---------------------------------------------------------------- compact targets
def set_compact(nc):
    """arith_uint256::SetCompact -> (value, negative, overflow); value unbounded."""
    size = nc >> 24
    word = nc & 0x007FFFFF
    if size <= 3:
        word >>= 8 * (3 - size)
        val = word
    else:
        val = word << (8 * (size - 3))
    neg = word != 0 and (nc & 0x00800000) != 0
    over = word != 0 and (size > 34 or (word > 0xFF and size > 33) or (word > 0xFFFF and size > 32))
    return val, neg, over


def get_compact(v):
    """arith_uint256::GetCompact (fNegative = false)."""
    size = (v.bit_length() + 7) // 8
    c = v << (8 * (3 - size)) if size <= 3 else v >> (8 * (size - 3))
    if c & 0x00800000:
        c >>= 8
        size += 1
    return c | (size << 24)


A16 = [0x00, 0x01, 0x02, 0x7F, 0x80, 0x81, 0xFE, 0xFF, 0x10, 0x40, 0xC0, 0x0F, 0xF0, 0x55, 0xAA, 0x03]


def alphabet(n, seed):
    base = list(A16)
    extra = [x for x in range(256) if x not in base]
    # deterministic rotation by seed: which generic bytes stand beside the boundary ones
    rot = seed % len(extra)
    extra = extra[rot:] + extra[:rot]
    step = max(1, len(extra) // max(1, n - len(base)))
    return (base + extra[::step])[:n] if n > len(base) else base[:n]


def _compact_shard(arg):
    exps, alpha = arg
    from btclib.block import proof_of_work as pw
    from btclib.exceptions import BTClibValueError

    st = Stats()
    for e in exps:
        for m in itertools.product(alpha, repeat=3):
            bits = bytes([e, *m])
            nc = int.from_bytes(bits, "big")
            st.evals += 1
            val, neg, over = set_compact(nc)
            assert over == (val >= 2**256)
            try:
                t = int.from_bytes(pw.target_from_bits(bits), "big")
                got_over = False
            except BTClibValueError:
                got_over = True
            if got_over != over:
                st.violation("C17/compact/overflow", {"bits": bits.hex()}, got_over, over)
            elif not got_over and t != val:
                st.violation("C17/compact/target_from_bits", {"bits": bits.hex()}, hex(t), hex(val))
            if pw.is_negative_bits(bits) != neg:
                st.violation("C17/compact/is_negative_bits", {"bits": bits.hex()}, not neg, neg)
            st.outcomes[("over" if over else "neg" if neg else "zero" if val == 0 else "ok")] += 1
            if not over and val:
                st.nontrivial += 1
                back = pw.bits_from_target(val.to_bytes(32, "big"))
                bi = int.from_bytes(back, "big")
                if bi != get_compact(val):
                    st.violation("C17/compact/bits_from_target", {"bits": bits.hex(), "target": hex(val)}, back.hex(), hex(get_compact(val)))
                else:
                    t2 = int.from_bytes(pw.target_from_bits(back), "big")
                    if t2 > val:
                        st.violation("C17/compact/rounds-up", {"target": hex(val)}, hex(t2), "<= target")
                    # canonical bits (what GetCompact writes) are a fixed point
                    if not neg and get_compact(val) == nc and back != bits:
                        st.violation("C17/compact/canonical-roundtrip", {"bits": bits.hex()}, back.hex(), bits.hex())
                # work = GetBlockProof: (~t / (t+1)) + 1
                w = pw.block_work(bits)
                exp_w = ((2**256 - 1 - val) // (val + 1)) + 1
                if w != exp_w:
                    st.violation("C17/work/block_work", {"bits": bits.hex()}, w, exp_w)
    st.sample({"bits": bytes([exps[0], *alpha[:3]]).hex()})
    return st


def _target_shard(arg):
    lens, alpha = arg
    from btclib.block import proof_of_work as pw

    st = Stats()
    for L in lens:
        for top in itertools.product(alpha, repeat=min(3, L)):
            for tail in ((0,), (0xFF,)) if L > 3 else ((0,),):
                v = int.from_bytes(bytes(top) + bytes(tail * (L - 3) if L > 3 else b""), "big")
                st.evals += 1
                back = int.from_bytes(pw.bits_from_target(v.to_bytes(32, "big")), "big")
                exp = get_compact(v)
                if back != exp:
                    st.violation("C17/compact/bits_from_target-by-length", {"target": hex(v)}, hex(back), hex(exp))
                if v:
                    st.nontrivial += 1
                    val, neg, over = set_compact(back)
                    if neg or over or val > v:
                        st.violation("C17/compact/rounds-up-or-negative", {"target": hex(v)}, hex(back), "0 <= decode <= target")
                st.outcomes[min(L, 4)] += 1
    return st


def compact(ctx):
    alpha = alphabet(ctx.pick(16, 40), ctx.seed)
    st = ctx.pmap(_compact_shard, [(sh, alpha) for sh in shard_round_robin(range(256), 64)])
    st.merge(ctx.pmap(_target_shard, [(sh, alpha) for sh in shard_round_robin(range(0, 33), 16)]))
    st.notes["mantissa_alphabet"] = len(alpha)
    return st


# ---------------------------------------------------------------- retarget
T2W = 14 * 24 * 60 * 60


def calc_next_work(nbits, first_time, last_time, limit_bits):
    span = last_time - first_time
    span = max(span, T2W // 4)
    span = min(span, T2W * 4)
    val, _, _ = set_compact(nbits)
    new = (val * span) % 2**256
    new //= T2W
    lim, _, _ = set_compact(limit_bits)
    if new > lim:
        new = lim
    return get_compact(new)


def _retarget_shard(arg):
    bits_list, spans = arg
    from btclib.block import proof_of_work as pw

    st = Stats()
    t0 = datetime(2020, 1, 1, tzinfo=timezone.utc)
    for bits in bits_list:
        for lim in (b"\x1d\x00\xff\xff", b"\x20\x7f\xff\xff", b"\x1e\x03\x77\xae"):
            for sp in spans:
                st.evals += 1
                got = pw.next_bits(bits, t0, t0 + timedelta(seconds=sp), pow_limit_bits=lim)
                exp = calc_next_work(int.from_bytes(bits, "big"), 0, sp, int.from_bytes(lim, "big"))
                st.outcomes[("clamp-lo" if sp < T2W // 4 else "clamp-hi" if sp > 4 * T2W else "mid")] += 1
                if T2W // 4 <= sp <= 4 * T2W:
                    st.nontrivial += 1
                if int.from_bytes(got, "big") != exp:
                    st.violation("C17/retarget/next_bits", {"bits": bits.hex(), "span": sp, "limit": lim.hex()}, got.hex(), hex(exp))
    return st


def retarget(ctx):
    spans = [-5, 0, 1, T2W // 4 - 1, T2W // 4, T2W // 4 + 1, T2W - 1, T2W, T2W + 1, 2 * T2W + 12345,
             4 * T2W - 1, 4 * T2W, 4 * T2W + 1, 10 * T2W, T2W * 3 // 7 + ctx.seed % 1000]
    bits = []
    for e in list(range(1, 35)):
        for m in (b"\x00\xff\xff", b"\x7f\xff\xff", b"\x01\x00\x00", b"\x00\x80\x00", b"\x12\x34\x56", b"\x00\x00\x01"):
            b = bytes([e]) + m
            v, neg, over = set_compact(int.from_bytes(b, "big"))
            if not over:
                bits.append(b)
    return ctx.pmap(_retarget_shard, [(sh, spans) for sh in shard_round_robin(bits, 16)])


def work_and_windows(ctx):
    """block_work / chain_work against Core's GetBlockProof (2^256 // (target + 1)); the retarget window's first height for
    every height of three periods; hash_rate against exact rational arithmetic."""
    from fractions import Fraction

    from btclib.block import proof_of_work as pw

    st = Stats()
    errs = lib_errors()
    alpha = alphabet(ctx.pick(16, 40), ctx.seed)
    works = []
    for e in range(0, 36):
        for m in alpha:
            nc = (e << 24) | m
            b = nc.to_bytes(4, "big")
            val, neg, over = set_compact(nc)
            st.evals += 1
            exp = None if (neg or over or val == 0) else (1 << 256) // (val + 1)   # Core: bnTarget == 0 or negative or overflow -> 0 work
            try:
                got = pw.block_work(b)
            except errs:
                got = None
            if exp is not None:
                st.nontrivial += 1
            if got != exp and not (exp is None and got == 0):
                st.violation("C17/work/block_work", {"bits": b.hex()}, got, exp)
            if exp is not None and len(works) < 40:
                works.append((b, exp))
    for k in range(0, len(works) + 1, 5):
        st.evals += 1
        seq = [b for b, _ in works[:k]]
        try:
            got = pw.chain_work(seq)
        except errs:
            got = None
        if got != sum(w for _, w in works[:k]):
            st.violation("C17/work/chain_work", {"blocks": k}, got, sum(w for _, w in works[:k]))
    for hgt in range(-1, 3 * 2016 + 2):
        st.evals += 1
        exp = hgt - 2015 if hgt >= 0 and (hgt + 1) % 2016 == 0 else None
        try:
            got = pw.retarget_first_height(hgt)
        except errs:
            got = None
        if exp is not None:
            st.nontrivial += 1
        if got != exp and not (hgt < 0 and exp is None):
            st.violation("C17/retarget/first-height", {"last_height": hgt}, got, exp)
    for diff, span, n in itertools.product((1, 2, 1.5, 10**12, 0.5), (1, 600, 1209600, 0.25), (1, 6, 2016)):
        st.evals += 1
        exp = Fraction(diff) * 2**32 * n / Fraction(span)
        try:
            got = pw.hash_rate(diff, span, n)
        except errs:
            got = None
        if got is None or abs(Fraction(got) - exp) > exp / 10**12:
            st.violation("C17/work/hash_rate", {"difficulty": diff, "timespan": span, "blocks": n}, got, float(exp))
    for bad in ((0, 1, 1), (1, 0, 1), (1, 1, 0), (-1, 1, 1), (1, -5, 1)):
        st.evals += 1
        try:
            pw.hash_rate(*bad)
            st.violation("C17/work/hash_rate-accepts-nonsense", {"args": bad}, "a rate", "refused")
        except errs:
            pass
    return st


# ---------------------------------------------------------------- merkle
def ref_root(hs):
    mutated = False
    lvl = list(hs)
    while len(lvl) > 1:
        for i in range(0, len(lvl) - 1, 2):
            if lvl[i] == lvl[i + 1]:
                mutated = True
        if len(lvl) % 2:
            lvl.append(lvl[-1])
        lvl = [h256(lvl[i] + lvl[i + 1]) for i in range(0, len(lvl), 2)]
    return lvl[0], mutated


def ref_branch(hs, idx):
    br = []
    lvl = list(hs)
    while len(lvl) > 1:
        if len(lvl) % 2:
            lvl.append(lvl[-1])
        br.append(lvl[idx ^ 1])
        idx //= 2
        lvl = [h256(lvl[i] + lvl[i + 1]) for i in range(0, len(lvl), 2)]
    return br


def ref_verify(leaf, branch, j, root):
    """Verifier model: recompute; refuse the CVE-2012-2459 shape (right child equal to its
    sibling) and an index that the branch is too short for."""
    if j < 0:
        return False
    cur = leaf
    for sib in branch:
        if len(sib) != 32:
            return False
        if j & 1:
            if sib == cur:
                return False
            cur = h256(sib + cur)
        else:
            cur = h256(cur + sib)
        j >>= 1
    return j == 0 and cur == root


def _merkle_shard(arg):
    lists, mode = arg
    from btclib.block import merkle_proof
    from btclib.hashes import hash256, merkle_root_and_mutated_from_hashes

    st = Stats()
    errs = lib_errors()
    for hs in lists:
        k = len(hs)
        st.evals += 1
        r, mu = merkle_root_and_mutated_from_hashes(list(hs), hash256)
        rr, rm = ref_root(hs)
        if (r, mu) != (rr, rm):
            st.violation("C17/merkle/root-or-mutated", {"leaves": [h.hex()[:8] for h in hs]}, [r.hex(), mu], [rr.hex(), rm])
        if k > 1:
            st.nontrivial += 1
        distinct = len(set(hs)) == k
        for i in range(k):
            br = ref_branch(hs, i)
            depth = len(br)
            # the correct proof
            cases = [("right", hs[i], br, i)]
            # every other index up to two past the level width
            cases += [("index", hs[i], br, j) for j in range(0, 2**depth + 2) if j != i]
            # every other leaf at this index
            cases += [("leaf", other, br, i) for other in set(hs) if other != hs[i]]
            if mode == "full":
                # a single-bit flip in each sibling (bit chosen by position), truncation, extension
                for lv in range(depth):
                    for bit in (0, 7, 255):
                        sib = bytearray(br[lv])
                        sib[bit // 8] ^= 1 << (bit % 8)
                        cases.append(("flip", hs[i], br[:lv] + [bytes(sib)] + br[lv + 1:], i))
                if depth:
                    cases.append(("trunc", hs[i], br[:-1], i))
                cases.append(("ext", hs[i], br + [hs[0]], i))
            for kind, leaf, branch, j in cases:
                st.evals += 1
                exp = ref_verify(leaf, branch, j, rr)
                try:
                    got = merkle_proof.verify(leaf[::-1], [b[::-1] for b in branch], j, rr[::-1])
                except errs as e:  # a predicate must answer, not raise (C19 shares this)
                    got = "raised " + type(e).__name__
                st.outcomes[(kind, got if isinstance(got, bool) else "raise")] += 1
                if got != exp:
                    st.violation(f"C17/merkle/verify/{kind}", {"k": k, "leaf_index": i, "claimed_index": j, "kind": kind,
                                                               "leaves": [h.hex()[:8] for h in hs]}, got, exp)
                # semantic half, independent of the verifier model: in a tree of distinct hashes
                # nothing but the right (leaf, index) pair is proved by the right branch
                if distinct and not rm and kind in ("index", "leaf", "flip", "trunc") and got is True:
                    st.violation(f"C17/merkle/proves-another/{kind}", {"k": k, "leaf_index": i, "claimed_index": j}, True, False)
                if kind == "right" and not rm and got is not True:
                    st.violation("C17/merkle/right-proof-refused", {"k": k, "leaf_index": i}, got, True)
    if lists:
        st.sample({"leaves": [h.hex()[:8] for h in lists[0]]})
    return st


def merkle(ctx):
    A = [h256(bytes([i])) for i in range(3)]
    kmax = ctx.pick(8, 10)
    lists = [hs for k in range(1, kmax + 1) for hs in itertools.product(A, repeat=k)]
    st = ctx.pmap(_merkle_shard, [(sh, "plain") for sh in shard_round_robin(lists, 64)])
    # distinct-hash lists of every length up to 17/33 with all mutations
    D = [h256(b"d" + bytes([i, ctx.seed % 251])) for i in range(40)]
    dl = [tuple(D[:k]) for k in range(1, ctx.pick(18, 34))]
    # two-value lists to length 12 (duplicated tails at every level)
    B = [hs for k in range(1, ctx.pick(9, 13)) for hs in itertools.product(A[:2], repeat=k)]
    st.merge(ctx.pmap(_merkle_shard, [(sh, "full") for sh in shard_round_robin(dl + B, 64)]))
    st.notes["max_list_len_3hash"] = kmax
    return st


# ---------------------------------------------------------------- BIP158
def sip_ref(k0, k1, data):
    M = (1 << 64) - 1

    def rotl(x, b):
        return ((x << b) | (x >> (64 - b))) & M

    v0 = k0 ^ 0x736F6D6570736575
    v1 = k1 ^ 0x646F72616E646F6D
    v2 = k0 ^ 0x6C7967656E657261
    v3 = k1 ^ 0x7465646279746573

    def rnd():
        nonlocal v0, v1, v2, v3
        v0 = (v0 + v1) & M; v1 = rotl(v1, 13); v1 ^= v0; v0 = rotl(v0, 32)
        v2 = (v2 + v3) & M; v3 = rotl(v3, 16); v3 ^= v2
        v0 = (v0 + v3) & M; v3 = rotl(v3, 21); v3 ^= v0
        v2 = (v2 + v1) & M; v1 = rotl(v1, 17); v1 ^= v2; v2 = rotl(v2, 32)

    n = len(data)
    for off in range(0, n - n % 8, 8):
        m = int.from_bytes(data[off:off + 8], "little")
        v3 ^= m; rnd(); rnd(); v0 ^= m
    m = int.from_bytes(data[n - n % 8:], "little") | ((n & 0xFF) << 56)
    v3 ^= m; rnd(); rnd(); v0 ^= m
    v2 ^= 0xFF
    rnd(); rnd(); rnd(); rnd()
    return v0 ^ v1 ^ v2 ^ v3


def gcs_ref(key16, elements, P=19, M=784931):
    """BIP158 construction -> bytes (CompactSize N || Golomb-Rice coded sorted deltas)."""
    k0 = int.from_bytes(key16[:8], "little")
    k1 = int.from_bytes(key16[8:16], "little")
    els = sorted(set(elements))
    N = len(els)
    F = N * M
    hashed = sorted((sip_ref(k0, k1, e) * F) >> 64 for e in els)
    bits = []
    last = 0
    for v in hashed:
        d = v - last
        last = v
        q, r = d >> P, d & ((1 << P) - 1)
        bits += [1] * q + [0]
        bits += [(r >> (P - 1 - i)) & 1 for i in range(P)]
    while len(bits) % 8:
        bits.append(0)
    body = bytes(int("".join(map(str, bits[i:i + 8])), 2) for i in range(0, len(bits), 8))
    assert N < 0xFD
    return bytes([N]) + body, hashed


def _golomb_shard(arg):
    seqs, p = arg
    from btclib.block import block_filter as bf

    st = Stats()
    for seq in seqs:
        st.evals += 1
        w = bf._BitWriter()
        for v in seq:
            bf._golomb_encode(w, v, p)
        data = w.flush()
        # reference encoding
        bits = []
        for v in seq:
            q, r = v >> p, v & ((1 << p) - 1)
            bits += [1] * q + [0] + [(r >> (p - 1 - i)) & 1 for i in range(p)]
        while len(bits) % 8:
            bits.append(0)
        exp = bytes(int("".join(map(str, bits[i:i + 8])), 2) for i in range(0, len(bits), 8))
        if data != exp:
            st.violation("C17/bip158/golomb-encode", {"p": p, "values": seq}, data.hex(), exp.hex())
            continue
        rd = bf._BitReader(data)
        back = [bf._golomb_decode(rd, p) for _ in seq]
        if back != list(seq):
            st.violation("C17/bip158/golomb-decode", {"p": p, "values": seq}, back, list(seq))
        if len(seq) > 1:
            st.nontrivial += 1
        st.outcomes[len(data)] += 1
    return st


def bip158(ctx):
    from btclib.hashes import siphash

    st = Stats()
    # siphash on every length 0..40 x 3 fills x 3 keys
    keys = [(0, 0), (0x0706050403020100, 0x0F0E0D0C0B0A0908), ((1 << 64) - 1, (1 << 63) + ctx.seed)]
    # model gate: the SipHash-2-4 reference vector (key 00..0f, message 00..0e)
    if sip_ref(keys[1][0], keys[1][1], bytes(range(15))) != 0xA129CA6149BE45E5:
        from mc.core import HarnessError
        raise HarnessError("siphash reference model fails its published vector")
    for n in range(0, 41):
        for fill in (0x00, 0xFF, None):
            data = bytes(range(n)) if fill is None else bytes([fill]) * n
            for k0, k1 in keys:
                st.evals += 1
                got = siphash(k0, k1, data)
                exp = sip_ref(k0, k1, data)
                if n:
                    st.nontrivial += 1
                if got != exp:
                    st.violation("C17/bip158/siphash", {"len": n, "fill": fill, "k0": k0, "k1": k1}, got, exp)
    # Golomb-Rice codec: every sequence of length <= 3 over [0, 2^(p+2)] for small p; boundary values for p=19
    for p, vals, maxlen in ((1, range(0, 9), 3), (2, range(0, 17), ctx.pick(2, 3)),
                            (19, [0, 1, 2**19 - 1, 2**19, 2**19 + 1, 2**20, 2**21 - 1, 2**21], ctx.pick(2, 3))):
        seqs = [s for n in range(1, maxlen + 1) for s in itertools.product(vals, repeat=n)]
        st.merge(ctx.pmap(_golomb_shard, [(sh, p) for sh in shard_round_robin(seqs, 32)]))
    st.merge(_filters(ctx))
    return st


def _filter_shard(arg):
    combos, tag = arg
    from btclib.block.block_filter import BasicBlockFilter
    from models.build import block_from, coinbase_tx, simple_tx

    st = Stats()
    for out_scripts, prev_scripts in combos:
        st.evals += 1
        txs = [coinbase_tx(tag, [b"\x51"])]
        if out_scripts or prev_scripts:
            txs.append(simple_tx(tag, list(out_scripts), prev_scripts_n=len(prev_scripts)))
        blk = block_from(txs, mine=False, time_s=1_600_000_000 + tag)
        f = BasicBlockFilter.from_block(blk, list(prev_scripts))
        # BIP158 contents rule, independently: outputs that are non-empty and not OP_RETURN (coinbase too), prevouts non-empty
        els = {b"\x51"} | {s for s in out_scripts if s and s[0] != 0x6A} | {s for s in prev_scripts if s}
        bh_internal = blk.header.hash[::-1]
        exp_bytes, hashed = gcs_ref(bh_internal[:16], els)
        got = f.serialize()
        if len(els) > 1:
            st.nontrivial += 1
        case = {"outs": [s.hex() for s in out_scripts], "prevs": [s.hex() for s in prev_scripts], "tag": tag}
        if got != exp_bytes:
            st.violation("C17/bip158/filter-bytes", case, got.hex(), exp_bytes.hex())
            continue
        if f.element_hashes != hashed:
            st.violation("C17/bip158/element_hashes", case, f.element_hashes, hashed)
        for s in els:
            if not f.match(s):
                st.violation("C17/bip158/no-match-for-member", dict(case, script=s.hex()), False, True)
        if not f.match_any(sorted(els, reverse=True)):
            st.violation("C17/bip158/match_any-misses", case, False, True)
        # match_any over watch lists: every subset (<= 4) of a pool of absent scripts, alone and with each member added,
        # in both orders; the reference answer is membership of the hashed set (a false positive is a hash collision,
        # predicted by the model, never excused; a false negative is never right)
        F = len(hashed) * 784931
        absent = [b"\x00\x14" + bytes([j]) * 20 for j in range(1, 9)]
        hset = set(hashed)

        members = sorted(els)[:3]
        k0_, k1_ = int.from_bytes(bh_internal[:8], "little"), int.from_bytes(bh_internal[8:16], "little")
        verdict = {sc: ((sip_ref(k0_, k1_, sc) * F >> 64) in hset if F else False) for sc in absent + members}

        def ref_in(sc):
            return verdict[sc]

        for r in range(0, 5):
            for sub in itertools.combinations(absent, r):
                for extra in [None] + members:
                    for q in ([*sub] + ([extra] if extra else []), ([extra] if extra else []) + [*sub][::-1]):
                        st.evals += 1
                        if extra is not None and r >= 2:
                            st.nontrivial += 1
                        exp = any(ref_in(x) for x in q)
                        try:
                            gotm = f.match_any(q)
                        except Exception as e:  # noqa: BLE001
                            gotm = "raised " + type(e).__name__
                        if gotm is not exp:
                            st.violation("C17/bip158/match_any-differs-from-membership", dict(case, absent=r, member=extra.hex() if extra else None), gotm, exp)
        g = BasicBlockFilter.parse(got, blk.header.hash)
        if g.serialize() != got or g.element_hashes != hashed:
            st.violation("C17/bip158/parse-roundtrip", case, g.serialize().hex(), got.hex())
        st.outcomes[len(els)] += 1
    return st


def _collision_shard(tag):
    """Two DIFFERENT scripts whose hashed values collide under this block's key: BIP158 keeps both (N counts scripts, the
    second codes a zero delta).  The pair is found by search over p2wpkh scripts with the reference SipHash."""
    from btclib.block.block_filter import BasicBlockFilter
    from models.build import block_from, coinbase_tx, simple_tx

    st = Stats()
    # the block's hash does not depend on the prevout scripts, so the key is known before the pair is chosen
    txs = [coinbase_tx(tag, [b"\x51"]), simple_tx(tag, [b"\x52"], prev_scripts_n=2)]
    blk = block_from(txs, mine=False, time_s=1_600_000_000 + tag)
    bh = blk.header.hash[::-1]
    k0, k1 = int.from_bytes(bh[:8], "little"), int.from_bytes(bh[8:16], "little")
    N = 4   # elements: 0x51 (coinbase), 0x52, and the two prevouts
    F = N * 784931
    seen = {}
    pair = None
    for j in range(200_000):
        sc = b"\x00\x14" + j.to_bytes(20, "big")
        v = (sip_ref(k0, k1, sc) * F) >> 64
        if v in seen:
            pair = (seen[v], sc)
            break
        seen[v] = sc
    st.evals += 1
    if pair is None:
        st.outcomes["no-collision-found"] += 1
        return st
    st.nontrivial += 1
    case = {"tag": tag, "colliding": [pair[0].hex(), pair[1].hex()]}
    els = {b"\x51", b"\x52", pair[0], pair[1]}
    exp_bytes, hashed = gcs_ref(bh[:16], els)
    try:
        f = BasicBlockFilter.from_block(blk, list(pair))
    except Exception as e:  # noqa: BLE001
        st.violation("C17/bip158/collision/filter-refused", case, repr(e)[:80], exp_bytes.hex())
        return st
    if f.serialize() != exp_bytes:
        st.violation("C17/bip158/collision/filter-bytes", case, f.serialize().hex(), exp_bytes.hex())
    for sc in els:
        if f.match(sc) is not True or f.match_any([b"\x00\x14" + bytes(20), sc]) is not True:
            st.violation("C17/bip158/collision/no-match-for-member", dict(case, script=sc.hex()), False, True)
    g = BasicBlockFilter.parse(exp_bytes, blk.header.hash)
    if g.serialize() != exp_bytes or sorted(g.element_hashes) != hashed:
        st.violation("C17/bip158/collision/parse-roundtrip", case, g.serialize().hex(), exp_bytes.hex())
    st.outcomes["collision-kept"] += 1
    return st


def _filters(ctx):
    scripts = [b"\x52", b"\x00\x14" + bytes(20), b"\x76\xa9\x14" + bytes(range(20)) + b"\x88\xac",
               b"\x51\x20" + bytes(range(32)), b"\x6a\x04test", b"", b"\x6a"]
    combos = []
    for r in range(0, ctx.pick(4, 5)):
        for outs in itertools.combinations(scripts, r):
            for pr in range(0, 3):
                for prevs in itertools.combinations(scripts[:6], pr):
                    combos.append((outs, prevs))
    # duplicates weigh once
    combos.append(((scripts[0], scripts[0], scripts[1]), (scripts[1], scripts[1])))
    shards = shard_round_robin(combos, 32)
    st = ctx.pmap(_filter_shard, [(sh, 1 + (ctx.seed + i) % 7) for i, sh in enumerate(shards)])
    st.merge(ctx.pmap(_collision_shard, list(range(1, ctx.pick(5, 17)))))
    return st


# ---------------------------------------------------------------- compact blocks (BIP152)
def _cmpct_shard(arg):
    cases, narrow = arg
    import btclib.p2p.compact_blocks as cb
    from btclib.block.proof_of_work import REGTEST_POW_LIMIT_BITS
    from btclib.exceptions import BTClibValueError
    from models.build import segwit_block

    st = Stats()
    old = cb._MAX_SHORT_ID
    if narrow:
        cb._MAX_SHORT_ID = 0xF  # a width, not logic: makes pool collisions exist (DESIGN 2.6)
    try:
        for ntx, prefilled_mask, pool_kind in cases:
            blk = segwit_block(3, ntx - 1, [[b"\x51"], [b"\x52", b"\x53"]])
            txs = blk.transactions
            probe = cb.CmpctBlock(blk.header, 7, [], [], check_validity=False)
            pre_idx = [0] + [i for i in range(1, ntx) if prefilled_mask >> (i - 1) & 1]
            rest = [i for i in range(ntx) if i not in pre_idx]
            sids = [probe.short_id(txs[i].hash) for i in rest]
            if len(set(sids)) != len(sids):
                st.outcomes["own-short-id-collision"] += 1
                try:
                    cmp_ = cb.CmpctBlock(blk.header, 7, sids, [cb.PrefilledTransaction(i, txs[i]) for i in pre_idx])
                    cb.reconstruct(cmp_, [txs[i] for i in rest])
                    st.violation("C17/cmpct/duplicate-short-ids-accepted", {"ntx": ntx, "mask": prefilled_mask}, "accepted", "refused")
                except BTClibValueError:
                    pass
                st.evals += 1
                continue
            cmp_ = cb.CmpctBlock(blk.header, 7, sids, [cb.PrefilledTransaction(i, txs[i]) for i in pre_idx])
            decoys = segwit_block(9, 6, [[b"\x54"]]).transactions[1:]
            for pool in pool_kind(txs, rest, decoys):
                st.evals += 1
                part = cb.reconstruct(cmp_, pool)
                # model: a position is filled iff exactly one distinct wtxid of the pool has its short id
                want = {}
                for i, sid in zip(rest, sids):
                    cands = {t.hash for t in pool if probe.short_id(t.hash) == sid}
                    want[i] = next(t for t in pool if t.hash in cands) if len(cands) == 1 else None
                exp_missing = [i for i in rest if want[i] is None]
                case = {"ntx": ntx, "prefilled": pre_idx, "pool": [t.hash.hex()[:8] for t in pool], "narrow": narrow}
                if part.missing_indexes != exp_missing:
                    st.violation("C17/cmpct/missing-indexes", case, part.missing_indexes, exp_missing)
                    continue
                wrong = [i for i in rest if want[i] is not None and part.transactions[i].hash != want[i].hash]
                if wrong:
                    st.violation("C17/cmpct/wrong-tx-in-position", case, wrong, [])
                    continue
                filled_right = all(want[i] is None or want[i].hash == txs[i].hash for i in rest)
                if filled_right:
                    full = part.fill([txs[i] for i in exp_missing], check_validity=False)
                    st.nontrivial += 1 if rest else 0
                    if full.serialize(check_validity=False) != blk.serialize(check_validity=False):
                        st.violation("C17/cmpct/reconstruction-differs", case, full.header.hash.hex(), blk.header.hash.hex())
                    else:
                        full.assert_valid(REGTEST_POW_LIMIT_BITS)
                    st.outcomes[("full", len(exp_missing))] += 1
                else:
                    # a colliding decoy sits in a position: the block check is what must catch it
                    full = part.fill([txs[i] for i in exp_missing], check_validity=False)
                    try:
                        full.assert_valid(REGTEST_POW_LIMIT_BITS)
                        st.violation("C17/cmpct/collision-passes-block-check", case, "valid", "refused")
                    except BTClibValueError:
                        st.outcomes["collision-caught-by-block-check"] += 1
    finally:
        cb._MAX_SHORT_ID = old
    return st


def _pools_small(txs, rest, decoys):
    have = [txs[i] for i in rest]
    yield []
    yield have
    yield have[::-1]
    yield have + decoys
    yield decoys + have[::-1]
    for k in range(len(have)):
        yield have[:k] + have[k + 1:]
        yield have[:k] + have[k + 1:] + decoys
    yield have + have  # the same transaction twice is not a collision


def compact_blocks(ctx):
    cases = []
    for ntx in range(1, ctx.pick(5, 6) + 1):
        for mask in range(0, 1 << (ntx - 1)):
            cases.append((ntx, mask, _pools_small))
    st = Stats()
    for narrow in (False, True):
        st.merge(ctx.pmap(_cmpct_shard, [(sh, narrow) for sh in shard_round_robin(cases, 16)]))
    return st


# ---------------------------------------------------------------- block validity (header root, witness commitment)
def block_validity(ctx):
    import copy

    from btclib.block import Block
    from btclib.block.proof_of_work import REGTEST_POW_LIMIT_BITS
    from btclib.exceptions import BTClibValueError
    from models.build import block_from, coinbase_tx, ref_witness_commitment, segwit_block, simple_tx

    st = Stats()

    def judge(blk, expect_ok, key, case):
        st.evals += 1
        try:
            blk.assert_valid(REGTEST_POW_LIMIT_BITS)
            ok = True
        except BTClibValueError:
            ok = False
        st.outcomes[(key, ok)] += 1
        if ok != expect_ok:
            st.violation("C17/block/" + key, case, ok, expect_ok)

    for ntx in range(1, ctx.pick(6, 9)):
        blk = segwit_block(5, ntx - 1, [[b"\x51"], [b"\x52"]])
        judge(blk, True, "valid-segwit-block-refused", {"ntx": ntx})
        st.nontrivial += 1
        legacy = block_from([coinbase_tx(6, [b"\x51"])] + [simple_tx(40 + i, [b"\x52"]) for i in range(ntx - 1)])
        judge(legacy, True, "valid-legacy-block-refused", {"ntx": ntx})
        # header root flipped in each of 3 bit positions: must be refused (re-mined so PoW is not the reason)
        for bit in (0, 100, 255):
            root = bytearray(blk.header.merkle_root)
            root[bit // 8] ^= 1 << (bit % 8)
            bad = block_from(blk.transactions, merkle_root=bytes(root))
            judge(bad, False, "wrong-merkle-root-accepted", {"ntx": ntx, "bit": bit})
        # a transaction swapped / dropped / duplicated at each position under the same header
        for i in range(1, ntx):
            txs = list(blk.transactions)
            for kind, newtxs in (("drop", txs[:i] + txs[i + 1:]), ("dup", txs[:i + 1] + [txs[i]] + txs[i + 1:]),
                                 ("swap", txs[:i] + [simple_tx(99, [b"\x55"], witness=True)] + txs[i + 1:])):
                judge(Block(blk.header, newtxs, check_validity=False), False, "tampered-tx-list-accepted", {"ntx": ntx, "i": i, "kind": kind})
            # witness replaced in tx i: txid unchanged, header root still right, the commitment must catch it
            from btclib.script.witness import Witness
            t2 = copy.deepcopy(txs[i])
            t2.vin[0].script_witness = Witness([b"\xee"])
            assert t2.id == txs[i].id
            judge(Block(blk.header, txs[:i] + [t2] + txs[i + 1:], check_validity=False), False, "witness-tamper-accepted", {"ntx": ntx, "i": i})
        # the coinbase is the only transaction with a witness (alone, or with legacy transactions behind it): the commitment
        # is still owed, and a coinbase witness without one is Core's "unexpected-witness"
        leg = [simple_tx(60 + i, [b"\x52"]) for i in range(ntx - 1)]
        cb_ok0 = coinbase_tx(7, [b"\x51"], bytes(32), bytes(32))
        goodc = ref_witness_commitment([cb_ok0] + leg)
        judge(block_from([coinbase_tx(7, [b"\x51"], goodc, bytes(32))] + leg), True, "coinbase-only-witness/valid-refused", {"ntx": ntx})
        for kind, cbx in (("flip", coinbase_tx(7, [b"\x51"], bytes([goodc[0] ^ 1]) + goodc[1:], bytes(32))),
                          ("nonce", coinbase_tx(7, [b"\x51"], goodc, b"\x01" + bytes(31))),
                          ("absent-but-witness", coinbase_tx(7, [b"\x51"], None, bytes(32)))):
            st.nontrivial += 1
            judge(block_from([cbx] + leg), False, "coinbase-only-witness/bad-commitment-accepted", {"ntx": ntx, "kind": kind})
        if ntx > 1:
            # commitment flipped / wrong nonce / absent
            body = blk.transactions[1:]
            good = ref_witness_commitment(blk.transactions)
            for kind, cbx in (("flip", coinbase_tx(5, [b"\x51"], bytes([good[0] ^ 1]) + good[1:], bytes(32))),
                              ("nonce", coinbase_tx(5, [b"\x51"], good, b"\x01" + bytes(31))),
                              ("absent", coinbase_tx(5, [b"\x51"], None, bytes(32))),
                              ("short-nonce", coinbase_tx(5, [b"\x51"], good, bytes(31)))):
                judge(block_from([cbx] + body), False, "bad-witness-commitment-accepted", {"ntx": ntx, "kind": kind})
            # last of two commitments wins (Core's GetWitnessCommitmentIndex)
            from btclib.tx import TxOut
            cb2 = coinbase_tx(5, [b"\x51"], bytes(32), bytes(32))
            cb2.vout.append(TxOut(0, bytes.fromhex("6a24aa21a9ed") + ref_witness_commitment([cb2] + body), check_validity=False))
            judge(block_from([cb2] + body), True, "last-commitment-wins", {"ntx": ntx})
    return st


SUBS = [
    ("compact", compact),
    ("retarget", retarget),
    ("work_and_windows", work_and_windows),
    ("merkle", merkle),
    ("bip158", bip158),
    ("compact_blocks", compact_blocks),
    ("block_validity", block_validity),
]
