"""C16 — interactive protocols complete: honest parties always agree.

E4: specs/MuSigSession.tla (K = 1..3 signers) explored by TLC, every edge replayed with the real
btclib.ecc.musig2 under every key order / duplicate keys / tweak sequence / message length of the
parameter alphabet; invariants per edge: a partial signature verifies as soon as it exists, the
aggregate verifies under an INDEPENDENT BIP340 verifier for the INDEPENDENT BIP327 aggregate key.
E1: adaptor sessions; ECDH / ElligatorSwift / Pedersen / Borromean on toy curves over all key pairs;
ECIES and DLEQ single-field alterations; silent payments sender -> scanner over input mixes."""
from __future__ import annotations

import hashlib
import itertools
import re
import secrets

from mc.core import Stats, backend, lib_errors, rebound, shard_round_robin
from models import bip340_ref as B
from models import ec_ref as R
from models.sighash_ref import tagged
from checks.c01 import curve_key, make_curve

PROPERTY = "C16"
LEVEL = "model_checking"
RULE = ("states/transitions = TLC's state graph of MuSigSession.tla for K=1,2,3 (7/17/43 states), every edge replayed on real "
        "sessions for every parameterisation: signer multisets over 4 keys (all orders, duplicates), 7 tweak sequences "
        "(plain/x-only, length <= 2), message lengths {0,32,33}, both backends; two-party schemes: every key pair on toy "
        "curves; every single-field alteration of ECIES envelopes / DLEQ statements. Non-trivial = more than one signer, a "
        "tweak, an odd-y aggregate or nonce, or an altered statement")
ASSUMPTIONS = ["completeness only: parties are honest (the property says so)", "models: BIP327 KeyAgg/ApplyTweak and BIP340 verify transcribed (gated on BIP340 vectors)", "more than 3 signers are outside the bound"]
META = {"engine": "E4 TLC + edge replay for MuSig2 sessions; E1 for two-party schemes",
        "technique": "model checking: TLA+ session model explored by TLC, every edge replayed on the implementation over an exhaustive parameter alphabet; bounded-exhaustive enumeration of key pairs on toy curves",
        "note": "Trusts the TLA+ session spec, models/bip340_ref.py, and the inline BIP327 KeyAgg transcription."}

P, N, G = B.P_K1, B.N_K1, B.G_K1


def cbytes(Pt):
    return bytes([2 + (Pt[1] & 1)]) + Pt[0].to_bytes(32, "big")


def cpoint(b):
    Pt = B.lift_x(int.from_bytes(b[1:], "big"), B.K1)
    return Pt if b[0] == 2 else (Pt[0], P - Pt[1])


def ref_keyagg(pks, tweaks):
    """BIP327 KeyAgg + ApplyTweak -> the aggregate point Q."""
    L = tagged("KeyAgg list", b"".join(pks))
    second = next((pk for pk in pks[1:] if pk != pks[0]), None)
    Q = None
    for pk in pks:
        a = 1 if pk == second else int.from_bytes(tagged("KeyAgg coefficient", L + pk), "big") % N
        Q = R.add(Q, R.mul_fast(a, cpoint(pk), P, 0), P, 0)
    for t, xonly in tweaks:
        g = N - 1 if (xonly and Q[1] % 2) else 1
        Q = R.add(R.mul_fast(g, Q, P, 0), R.mul_fast(int.from_bytes(t, "big"), G, P, 0), P, 0)
    return Q


TW = [hashlib.sha256(b"t1").digest(), hashlib.sha256(b"t2").digest()]
TWEAKSEQS = [[]] + [[(TW[0], x)] for x in (False, True)] + [[(TW[0], a), (TW[1], b)] for a in (False, True) for b in (False, True)]


def _session_shard(arg):
    combos, graphs = arg
    from btclib.ecc import musig2

    st = Stats()
    errs = lib_errors()
    for ks, tws, msg, serving in combos:
        k = len(ks)
        nodes, edges, paths = graphs[k]
        with backend(serving):
            pks = [musig2.individual_pub_key(q) for q in ks]
            tweaks = [t for t, _ in tws]
            xo = [x for _, x in tws]
            Q = ref_keyagg(pks, tws)
            case0 = {"keys": ks, "xonly": xo, "msg_len": len(msg), "bindings": serving}
            try:
                libQ = musig2.key_agg_and_tweak(pks, tweaks, xo).Q
            except errs as e:
                st.violation("C16/musig2/key-agg-refused", case0, repr(e)[:80], "aggregate key")
                continue
            if libQ != Q:
                st.violation("C16/musig2/aggregate-key-not-bip327", case0, hex(libQ[0]), hex(Q[0]))
                continue

            def run(path):
                """Replay a path of the model on fresh real objects; returns the session state and the last step's result."""
                S = {"nonces": {}, "ctx": None, "psigs": {}, "verified": {}, "sig": None}
                for step in path:
                    m = re.match(r"(\w+)(?:\((\d+)\))?", step)
                    act, i = m.group(1), (int(m.group(2)) - 1 if m.group(2) else None)
                    if act == "NonceGen":
                        S["nonces"][i] = musig2.nonce_gen_(hashlib.sha256(bytes([i]) + msg).digest(), ks[i], pks[i], None, msg)
                    elif act == "NonceAgg":
                        agg = musig2.nonce_agg([S["nonces"][j][1] for j in range(k)])
                        S["ctx"] = musig2.SessionContext(agg, pks, tweaks, xo, msg)
                    elif act == "Sign":
                        S["psigs"][i] = musig2.sign(S["nonces"][i][0], ks[i], S["ctx"])
                    elif act == "Verify":
                        S["verified"][i] = musig2.partial_sig_verify_(S["psigs"][i], S["nonces"][i][1], pks[i], S["ctx"])
                    elif act == "Aggregate":
                        S["sig"] = musig2.partial_sig_agg([S["psigs"][j] for j in range(k)], S["ctx"])
                return S

            for s, t, label in edges:
                if label == "Next":
                    continue
                st.evals += 1
                st.transitions += 1
                st.traces += 1
                case = dict(case0, path=paths[s], action=label)
                try:
                    S = run(paths[s] + [label])
                except errs as e:
                    st.violation(f"C16/musig2/honest-step-refused/{label.split('(')[0]}", case, repr(e)[:100], "the step succeeds")
                    continue
                except Exception as e:  # noqa: BLE001
                    st.violation("C16/musig2/foreign-exception", case, repr(e)[:100], "the step succeeds")
                    continue
                if k > 1 or tws:
                    st.nontrivial += 1
                # observable state equals the model's target state
                tgt = nodes[t]
                exp_signed = set(int(x) - 1 for x in re.findall(r"\d+", re.search(r"signed = \{(.*?)\}", tgt).group(1)))
                if set(S["psigs"]) != exp_signed:
                    st.violation("C16/musig2/state-differs-from-model", case, sorted(S["psigs"]), sorted(exp_signed))
                if label.startswith("Verify"):
                    i = int(re.search(r"\d+", label).group()) - 1
                    if S["verified"][i] is not True:
                        st.violation("C16/musig2/honest-partial-signature-rejected", dict(case, signer=i), False, True)
                if label.startswith("Sign"):
                    # independently of the library's verifier: s_i*G == R_i-ish is internal; the final check below binds it
                    pass
                if label == "Aggregate":
                    sig = S["sig"]
                    if not B.verify(msg, Q[0], sig.r, sig.s, B.K1):
                        st.violation("C16/musig2/aggregate-signature-invalid-under-bip340", case, (hex(sig.r)[:18], hex(sig.s)[:18]), "valid for the BIP327 key")
                    st.outcomes[(k, len(tws), Q[1] & 1)] += 1
            st.states += len(nodes)
    if combos:
        st.sample({"keys": combos[0][0], "tweaks": [x for _, x in combos[0][1]], "msg_len": len(combos[0][2])})
    return st


def musig2_sessions(ctx):
    from mc.tlc import run_tlc

    graphs = {}
    for k in (1, 2, 3):
        g = run_tlc("MuSigSession.tla", constants={"K": k})
        graphs[k] = (g.nodes, g.edges, g.path)
    keys = [3, 5, 7, (N - 1) // 2]
    combos = []
    msgs = [b"", bytes(32), bytes(33)]
    for serving in (True, False):
        for k in (1, 2):
            for ks in itertools.product(keys[: (4 if k == 1 else 3)], repeat=k):
                for tws in TWEAKSEQS:
                    for msg in msgs:
                        combos.append((ks, tws, msg, serving))
        k3 = list(itertools.permutations(keys[:3], 3)) + [(3, 3, 5), (5, 3, 3), (3, 5, 3), (7, 7, 7)]
        for ks in k3:
            for tws in (TWEAKSEQS if not ctx.quick else TWEAKSEQS[:4]):
                for msg in (msgs if not ctx.quick else msgs[1:2]):
                    combos.append((ks, tws, msg, serving))
    st = ctx.pmap(_session_shard, [(sh, graphs) for sh in shard_round_robin(combos, 64)])
    st.notes["tlc_graphs"] = {k: {"states": len(v[0]), "edges": len(v[1])} for k, v in graphs.items()}
    st.notes["parameterisations"] = len(combos)
    return st


def musig2_adaptor(ctx):
    from btclib.ecc import musig2

    st = Stats()
    errs = lib_errors()
    for serving in (True, False):
        with backend(serving):
            for ks in ((3,), (3, 5), (5, 3), (3, 3), (3, 5, 7)):
                for tws in TWEAKSEQS[:4]:
                    for t in (1, 2, N - 1, int.from_bytes(hashlib.sha256(b"adaptor%d" % ctx.seed).digest(), "big") % N or 1):
                        for msg in (bytes(32), b"", bytes(33)):
                            st.evals += 1
                            st.nontrivial += 1
                            pks = [musig2.individual_pub_key(q) for q in ks]
                            T = cbytes(R.mul_fast(t, G, P, 0))
                            case = {"keys": ks, "xonly": [x for _, x in tws], "t": hex(t)[:12], "msg_len": len(msg), "bindings": serving}
                            try:
                                nonces = [musig2.nonce_gen_(hashlib.sha256(bytes([i]) + msg).digest(), q, pk, None, msg) for i, (q, pk) in enumerate(zip(ks, pks))]
                                agg = musig2.nonce_agg([pn for _, pn in nonces])
                                c = musig2.SessionContext(agg, pks, [x for x, _ in tws], [x for _, x in tws], msg, adaptor=T)
                                psigs = [musig2.sign(sn, q, c) for (sn, _), q in zip(nonces, ks)]
                                for i, (ps, (_, pn), pk) in enumerate(zip(psigs, nonces, pks)):
                                    if musig2.partial_sig_verify_(ps, pn, pk, c) is not True:
                                        st.violation("C16/adaptor/honest-partial-signature-rejected", dict(case, signer=i), False, True)
                                pre = musig2.partial_sig_agg_adaptor(psigs, c)
                                sig = musig2.adapt(pre, t, c)
                                Q = ref_keyagg(pks, tws)
                                if not B.verify(msg, Q[0], sig.r, sig.s, B.K1):
                                    st.violation("C16/adaptor/completed-signature-invalid", case, "invalid", "valid under BIP340")
                                if B.verify(msg, Q[0], pre.r, pre.s, B.K1):
                                    st.violation("C16/adaptor/pre-signature-already-valid", case, "valid", "invalid until adapted")
                                got_t = musig2.extract_adaptor(sig, pre, c)
                                if int.from_bytes(got_t, "big") != t:
                                    st.violation("C16/adaptor/extracted-secret-wrong", case, got_t.hex()[:18], hex(t)[:18])
                            except errs as e:
                                st.violation("C16/adaptor/honest-step-refused", case, repr(e)[:100], "completes")
    return st


# ------------------------------------------------------------------------------------------ two-party schemes on toy curves
def _toy_pairs_shard(plist):
    from btclib.curves import mult
    from btclib.ecc import dh, pedersen

    st = Stats()
    errs = lib_errors()
    for params in plist:
        ec = make_curve(params)
        if ec is None:
            continue
        p, a, b, Gt, n, h = params
        ck = curve_key(params)
        tab = R.subgroup_table(Gt, n, p, a)
        for dU in range(1, n):
            for dV in range(1, n):
                st.evals += 1
                QU, QV = tab[dU], tab[dV]
                try:
                    s1 = dh.diffie_hellman(dU, QV, 20, None, ec)
                    s2 = dh.diffie_hellman(dV, QU, 20, None, ec)
                except errs as e:
                    shared = tab[dU * dV % n]
                    if shared is not None:
                        st.violation("C16/ecdh/refused", {"curve": ck, "dU": dU, "dV": dV}, repr(e)[:60], "shared secret")
                    continue
                if dU != dV:
                    st.nontrivial += 1
                if s1 != s2:
                    st.violation("C16/ecdh/parties-disagree", {"curve": ck, "dU": dU, "dV": dV}, s1.hex(), s2.hex())
                # the shared secret is the KDF of x(dU*dV*G) (ANSI X9.63 with sha256, one block)
                z = tab[dU * dV % n][0].to_bytes((p.bit_length() + 7) // 8, "big")
                exp = hashlib.sha256(z + (1).to_bytes(4, "big")).digest()[:20]
                if s1 != exp:
                    st.violation("C16/ecdh/not-x963-kdf-of-shared-x", {"curve": ck, "dU": dU, "dV": dV}, s1.hex(), exp.hex())
        # Pedersen: every (r, v) opens; every other (r', v') with a different commitment refuses
        if n <= 13:
            try:
                H = pedersen.second_generator(ec)
            except errs:
                H = None
            if H is not None:
                commits = {}
                for r in range(1, n):
                    for v in range(0, n):
                        st.evals += 1
                        try:
                            C = pedersen.commit(r, v, ec)
                        except errs:
                            continue
                        commits[(r, v)] = C
                        if pedersen.verify(r, v, C, ec) is not True:
                            st.violation("C16/pedersen/own-opening-refused", {"curve": ck, "r": r, "v": v}, False, True)
                for (r, v), C in list(commits.items())[:: max(1, len(commits) // 40)]:
                    for (r2, v2), C2 in commits.items():
                        st.evals += 1
                        got = pedersen.verify(r2, v2, C, ec)
                        if got is not (C2 == C):
                            st.violation("C16/pedersen/wrong-opening-verdict", {"curve": ck, "commit": (r, v), "opening": (r2, v2)}, got, C2 == C)
        st.outcomes[(p, n)] += 1
    return st


def toy_two_party(ctx):
    params = [c for c in R.universe_params(ctx.pick(13, 19)) if c[4] <= ctx.pick(19, 31)]
    return ctx.pmap(_toy_pairs_shard, shard_round_robin(params, 96))


def _ellswift_shard(plist):
    from btclib.ecc import ellswift

    st = Stats()
    errs = lib_errors()
    for params in plist:
        p, a, b, Gt, n, h = params
        ec = make_curve(params)
        if ec is None:
            continue
        ck = curve_key(params)
        pts = {pt for pt in R.points(p, a, b)}
        xs = sorted({pt[0] for pt in pts if pt[1] != 0})
        try:
            ellswift._constants(ec)
        except errs:
            st.outcomes["curve-not-supported"] += 1
            continue
        # decode of every (u, t): lands on the curve
        for u in range(p):
            for t in range(p):
                st.evals += 1
                try:
                    x = ellswift._xswiftec_var(u, t, ec)
                except errs as e:
                    # the map is total on a curve it supports: every pair of field elements decodes
                    st.violation("C16/ellswift/decode-refused", {"curve": ck, "u": u, "t": t}, repr(e)[:60], "an x of the curve")
                    continue
                if x not in {pt[0] for pt in pts}:
                    st.violation("C16/ellswift/decode-off-curve", {"curve": ck, "u": u, "t": t}, x, "an x of the curve")
        # inverse: for every x, u, case: decode(u, inv(x,u,case)) == x
        for x in xs:
            for u in range(1, p):  # the encoder draws u from 1..p-1; decode reads a zero u as one
                for case in range(8):
                    st.evals += 1
                    try:
                        t = ellswift._xswiftec_inv_var(x, u, case, ec)
                    except errs:
                        continue
                    if t is None:
                        continue
                    st.nontrivial += 1
                    back = ellswift._xswiftec_var(u, t, ec)
                    if back != x:
                        st.violation("C16/ellswift/inverse-does-not-round-trip", {"curve": ck, "x": x, "u": u, "case": case}, back, x)
        # xdh agreement for all key pairs; the encoder's randomness is owned through the secrets seam: the draw sequence
        # walks every (u, case) pair from a chosen start, so every start index is one environment answer; a full lap
        # without an encoding is a livelock of the retry loop (horizon = one lap)
        tab = R.subgroup_table(Gt, n, p, a)
        lap = 8 * (p - 1)

        class Lap(Exception):
            pass

        def encoder_env(start):
            state = {"j": start, "draws": 0}

            def randbelow(k):
                j = state["j"]
                state["draws"] += 1
                if state["draws"] > 2 * lap + 2:
                    raise Lap()
                if k == 8:
                    state["j"] = j + 1
                    return (j // (p - 1)) % 8
                return j % (p - 1)
            return randbelow

        encs = {}
        for d in range(1, min(n, 8)):
            found = []
            for start in range(lap):
                st.evals += 1
                with rebound(secrets, "randbelow", encoder_env(start)):
                    try:
                        e = ellswift.create_var(d, ec)
                    except Lap:
                        st.violation("C16/ellswift/encoder-never-terminates", {"curve": ck, "d": d}, "no (u, case) encodes this key", "an encoding")
                        break
                    except errs as ex:
                        st.violation("C16/ellswift/encoder-refused", {"curve": ck, "d": d, "start": start}, repr(ex)[:60], "an encoding")
                        continue
                if ellswift.decode_var(e, ec) != tab[d]:
                    st.violation("C16/ellswift/encoding-decodes-to-another-key", {"curve": ck, "d": d, "start": start}, ellswift.decode_var(e, ec), tab[d])
                if e not in found:
                    found.append(e)
            encs[d] = found
        for dA, ea_all in encs.items():
            for dB, eb_all in encs.items():
                for ea in ea_all:
                    for eb in eb_all[:3]:
                        st.evals += 1
                        st.nontrivial += 1
                        try:
                            sa = ellswift.xdh(ea, eb, dA, 0, ec)
                            sb = ellswift.xdh(ea, eb, dB, 1, ec)
                        except errs as e:
                            st.violation("C16/ellswift/xdh-refused", {"curve": ck, "dA": dA, "dB": dB}, repr(e)[:60], "secret")
                            continue
                        if sa != sb:
                            st.violation("C16/ellswift/xdh-parties-disagree", {"curve": ck, "dA": dA, "dB": dB, "ea": ea.hex(), "eb": eb.hex()}, sa.hex()[:16], sb.hex()[:16])
        st.outcomes[(p, n)] += 1
    return st


def ellswift_toy(ctx):
    params = [c for c in R.universe_params(ctx.pick(19, 31)) if c[1] == 0 and c[0] % 3 == 1]
    # several curves per shard, in two orders: state kept between calls (the constants' memo) must not leak from one curve to the next
    st = ctx.pmap(_ellswift_shard, shard_round_robin(params, 8) + [sh[::-1] for sh in shard_round_robin(params, 8)])
    st.notes["curves"] = len(params)
    # secp256k1: both arms agree, both parties agree
    from btclib.ecc import ellswift
    for serving in (True, False):
        with backend(serving):
            for dA, dB in ((1, 2), (N - 1, 3), (5, 5)):
                st.evals += 1
                ea, eb = ellswift.create_var(dA), ellswift.create_var(dB)
                if ellswift.xdh(ea, eb, dA, 0) != ellswift.xdh(ea, eb, dB, 1):
                    st.violation("C16/ellswift/secp256k1-xdh-disagree", {"dA": hex(dA)[:10], "dB": dB, "bindings": serving}, "differ", "equal")
                if ellswift.decode_var(ea) != R.mul_fast(dA, G, P, 0) and ellswift.decode_var(ea)[0] != R.mul_fast(dA, G, P, 0)[0]:
                    st.violation("C16/ellswift/secp256k1-decode", {"dA": hex(dA)[:10], "bindings": serving}, "wrong x", "x of dA*G")
    return st


# ------------------------------------------------------------------------------------------ ECIES, DLEQ, Borromean
def _toy_cipher():
    """A deterministic stand-in for AES-128-CBC/PKCS7 (the library takes the cipher as a parameter): XOR keystream + PKCS7."""
    def keystream(key, iv, n):
        out = b""
        c = 0
        while len(out) < n:
            out += hashlib.sha256(key + iv + c.to_bytes(4, "big")).digest()
            c += 1
        return out[:n]

    def enc(key, iv, pt):
        pad = 16 - len(pt) % 16
        pt = pt + bytes([pad]) * pad
        return bytes(x ^ y for x, y in zip(pt, keystream(key, iv, len(pt))))

    def dec(key, iv, ct):
        pt = bytes(x ^ y for x, y in zip(ct, keystream(key, iv, len(ct))))
        pad = pt[-1]
        if not 1 <= pad <= 16 or pt[-pad:] != bytes([pad]) * pad:
            raise ValueError("bad padding")
        return pt[:-pad]
    return enc, dec


def ecies_dleq_borromean(ctx):
    import base64

    from btclib.curves import mult
    from btclib.ecc import borromean, dleq, ecies

    st = Stats()
    errs = lib_errors()
    enc, dec = _toy_cipher()
    for serving in (True, False):
        with backend(serving):
            # ---- ECIES
            for d in (1, 2, N - 1, 0x1234567):
                Q = R.mul_fast(d, G, P, 0)
                for L in (0, 1, 15, 16, 17, 31, 32, 33, 100):
                    msg = bytes((i * 7 + L) % 256 for i in range(L))
                    st.evals += 1
                    try:
                        arm = ecies.encrypt(msg, Q, enc, eph_prv_key=7 + L)
                        back = ecies.decrypt(arm, d, dec)
                    except errs as e:
                        st.violation("C16/ecies/honest-roundtrip-refused", {"d": hex(d)[:10], "len": L, "bindings": serving}, repr(e)[:80], "message")
                        continue
                    if back != msg:
                        st.violation("C16/ecies/decrypts-to-another-message", {"d": hex(d)[:10], "len": L, "bindings": serving}, back.hex()[:20], msg.hex()[:20])
                    # no other key decrypts it
                    for d2 in (d % (N - 1) + 1, 3, N - 2):
                        if d2 == d:
                            continue
                        st.evals += 1
                        st.nontrivial += 1
                        try:
                            got = ecies.decrypt(arm, d2, dec)
                            st.violation("C16/ecies/other-key-decrypts", {"d": hex(d)[:10], "other": hex(d2)[:10], "len": L, "bindings": serving}, got.hex()[:20], "refusal")
                        except errs:
                            pass
                    # any single-byte change of the envelope is refused (MAC)
                    raw = bytearray(base64.b64decode(arm))
                    for i in range(0, len(raw), max(1, len(raw) // 24)):
                        st.evals += 1
                        st.nontrivial += 1
                        r2 = bytearray(raw)
                        r2[i] ^= 0x01
                        try:
                            got = ecies.decrypt(base64.b64encode(bytes(r2)).decode(), d, dec)
                            st.violation("C16/ecies/altered-envelope-accepted", {"byte": i, "len": L, "bindings": serving}, got.hex()[:20], "refusal")
                        except errs:
                            pass
            # ---- DLEQ
            for a_ in (1, 2, N - 1, 0xABCDEF):
                for b_ in (3, N - 2):
                    A = R.mul_fast(a_, G, P, 0)
                    Bp = R.mul_fast(b_, G, P, 0)
                    C = R.mul_fast(a_ * b_ % N, G, P, 0)
                    for msg in (None, bytes(32), bytes(range(32))):
                        st.evals += 1
                        try:
                            proof = dleq.generate_proof(a_, Bp, bytes(32), G, msg)
                        except errs as e:
                            st.violation("C16/dleq/honest-proof-refused", {"a": hex(a_)[:10], "bindings": serving}, repr(e)[:80], "proof")
                            continue
                        if dleq.verify_proof(A, Bp, C, proof, G, msg) is not True:
                            st.violation("C16/dleq/own-proof-rejected", {"a": hex(a_)[:10], "msg": msg, "bindings": serving}, False, True)
                        other = R.mul_fast(99, G, P, 0)
                        alts = {"A": (other, Bp, C, proof, G, msg), "B": (A, other, C, proof, G, msg), "C": (A, Bp, other, proof, G, msg), "G": (A, Bp, C, proof, other, msg),
                                "msg": (A, Bp, C, proof, G, bytes([1]) * 32), "proof-e": (A, Bp, C, bytes([proof[0] ^ 1]) + proof[1:], G, msg), "proof-s": (A, Bp, C, proof[:63] + bytes([proof[63] ^ 1]), G, msg)}
                        for nm, args in alts.items():
                            st.evals += 1
                            st.nontrivial += 1
                            try:
                                got = dleq.verify_proof(*args)
                            except Exception as e:  # noqa: BLE001
                                got = "raised " + type(e).__name__
                            if got is not False:
                                st.violation("C16/dleq/altered-statement-accepted/" + nm, {"a": hex(a_)[:10], "bindings": serving}, got, False)
    # ---- Borromean on a toy curve and secp256k1: ring shapes <= (2, 2)
    from btclib.curves import secp256k1
    toy = make_curve((23, 5, 1, (0, 1), 31, 1))
    for ec, qs in ((secp256k1, [11, 12, 13, 14]), (toy, [3, 5, 7, 9]) if toy else (secp256k1, [21, 22, 23, 24])):
        pubs = [mult(q, None, ec) for q in qs]
        for shape in ((1,), (2,), (1, 1), (2, 1), (1, 2), (2, 2)):
            rings = []
            idx = 0
            for ln in shape:
                rings.append([pubs[(idx + j) % 4] for j in range(ln)])
                idx += ln
            for real in itertools.product(*[range(ln) for ln in shape]):
                st.evals += 1
                keys = []
                for ri, pos in enumerate(real):
                    keys.append(qs[pubs.index(rings[ri][pos])])
                ctr = itertools.count(3)
                try:
                    with rebound(secrets, "randbelow", lambda k, ctr=ctr: next(ctr) * 7 % k):  # the forged s values are the environment's
                        sig = borromean.sign(b"msg", [5 + i for i in range(len(shape))], list(real), keys, rings, ec)
                except errs as e:
                    if ec is not secp256k1 and ("implausible" in repr(e) or "infinity" in repr(e)):
                        st.outcomes["toy-zero-challenge"] += 1  # e == 0 mod n or s*G == e*Q: one in n on a toy curve, documented in sign
                        continue
                    st.violation("C16/borromean/honest-sign-refused", {"shape": shape, "real": real, "curve": getattr(ec, "name", "toy")}, repr(e)[:80], "signature")
                    continue
                except Exception as e:  # noqa: BLE001
                    st.violation("C16/borromean/foreign-exception", {"shape": shape, "real": real}, repr(e)[:80], "signature")
                    continue
                try:
                    ok = borromean.verify(b"msg", sig, rings, ec)
                except Exception as e:  # noqa: BLE001
                    ok = "raised " + type(e).__name__
                if ok is not True:
                    st.violation("C16/borromean/own-signature-rejected", {"shape": shape, "real": real, "curve": getattr(ec, "name", "toy")}, ok, True)
                st.nontrivial += 1
                # another message / an altered ring member does not verify
                try:
                    bad = borromean.verify(b"other", sig, rings, ec)
                except Exception:  # noqa: BLE001
                    bad = False
                if bad is True and ec is secp256k1:
                    st.violation("C16/borromean/other-message-accepted", {"shape": shape}, True, False)
    return st


# ------------------------------------------------------------------------------------------ silent payments
def silent_payments(ctx):
    from btclib import silent_payments as sp
    from btclib.hashes import hash160
    from btclib.tx import OutPoint

    st = Stats()
    errs = lib_errors()
    b_scan, b_spend = 11, 12
    B_scan, B_spend = R.mul_fast(b_scan, G, P, 0), R.mul_fast(b_spend, G, P, 0)
    odd = next(k for k in range(2, 60) if R.mul_fast(k, G, P, 0)[1] % 2)
    even = next(k for k in range(2, 60) if R.mul_fast(k, G, P, 0)[1] % 2 == 0)

    def spk_for(kind, d):
        Q = R.mul_fast(d, G, P, 0)
        c = cbytes(Q)
        if kind == "p2wpkh":
            return b"\x00\x14" + hash160(c)
        if kind == "p2pkh":
            return b"\x76\xa9\x14" + hash160(c) + b"\x88\xac"
        if kind == "p2sh-p2wpkh":
            return b"\xa9\x14" + hash160(b"\x00\x14" + hash160(c)) + b"\x87"
        return b"\x51\x20" + Q[0].to_bytes(32, "big")

    kinds = [("p2wpkh", 21), ("p2pkh", 22), ("p2sh-p2wpkh", 23), ("p2tr", even), ("p2tr", odd)]
    for serving in (True, False):
        with backend(serving):
            addr = sp.address_from_keys(B_scan, B_spend)
            laddr1 = sp.labeled_address_from_keys(b_scan, B_spend, 1)
            laddr0 = sp.labeled_address_from_keys(b_scan, B_spend, 0)
            labels = sp.label_lookup(b_scan, [0, 1])
            for size in (1, 2, 3):
                for mix in itertools.combinations_with_replacement(range(len(kinds)), size):
                    ins = [kinds[i] for i in mix]
                    # distinct keys per input position so that sums do not cancel by construction
                    prvs = [(d + 100 * j, spk_for(kind, d + 100 * j)) for j, (kind, d) in enumerate(ins)]
                    pubs = [(R.mul_fast(d, G, P, 0), spk) for d, spk in prvs]
                    for outpoints in ([OutPoint(bytes([j + 1]) * 32, j) for j in range(size)], [OutPoint(bytes([9 - j]) * 32, 3 - j) for j in range(size)]):
                        for recipients in ([addr], [addr, addr], [addr, laddr1], [laddr0, addr, laddr1, addr]):
                            st.evals += 1
                            st.nontrivial += 1
                            case = {"inputs": [k for k, _ in ins], "recipients": len(recipients), "bindings": serving}
                            try:
                                outs = sp.output_keys(prvs, outpoints, recipients)
                            except errs as e:
                                st.violation("C16/silent-payments/sender-refused", case, repr(e)[:80], "outputs")
                                continue
                            decoys = [R.mul_fast(77, G, P, 0)[0].to_bytes(32, "big")]
                            try:
                                found = sp.scan_transaction_outputs(b_scan, B_spend, outpoints, pubs, decoys + outs[::-1], labels)
                                # the light client's server sums what BIP352 names: a taproot input contributes its even-y key
                                evens = [(pk if (kind != "p2tr" or pk[1] % 2 == 0) else (pk[0], P - pk[1])) for (pk, _), (kind, _) in zip(pubs, ins)]
                                tweak = sp.tweak_data(outpoints, sp.pub_key_sum(evens))
                                light = sp.scan_outputs(b_scan, B_spend, tweak, outs + decoys, labels)
                            except errs as e:
                                st.violation("C16/silent-payments/scanner-refused", case, repr(e)[:80], "found outputs")
                                continue
                            for which, res in (("full", found), ("light", light)):
                                got = sorted(o.pub_key for o in res)
                                if got != sorted(outs):
                                    st.violation(f"C16/silent-payments/{which}-scanner-misses-or-invents-outputs", case, [g.hex()[:10] for g in got], [o.hex()[:10] for o in sorted(outs)])
                                for o in res:
                                    d = sp.prv_key_from_tweak(b_spend, o.prv_key_tweak)
                                    if R.mul_fast(d, G, P, 0)[0].to_bytes(32, "big") != o.pub_key:
                                        st.violation(f"C16/silent-payments/{which}-spending-key-does-not-open-output", case, "mismatch", o.pub_key.hex()[:10])
            # input keys that cancel are refused
            st.evals += 1
            try:
                sp.output_keys([(21, spk_for("p2wpkh", 21)), (N - 21, spk_for("p2wpkh", N - 21))], [OutPoint(bytes([1]) * 32, 0)], [addr])
                st.violation("C16/silent-payments/cancelling-keys-accepted", {"bindings": serving}, "outputs", "refusal")
            except errs:
                pass
    return st


# ------------------------------------------------------------------------------------------ BIP373 roles over a PSBT
def _psbt_shard(combos):
    import json
    import os

    from btclib.ecc import musig2
    from btclib.psbt import Psbt
    from btclib.psbt import musig2 as role
    from btclib.script.script_pub_key import ScriptPubKey
    from btclib.tx.tx_out import TxOut
    from models import sighash_ref as SH
    from models import taproot_ref as TR

    vec = json.load(open(os.path.join(os.path.dirname(__file__), "..", "models", "vectors", "bip373_test_vectors.json")))
    template = vec["valid psbts"][0]["encoded psbt"]
    st = Stats()
    errs = lib_errors()
    for ks, mode, order, serving in combos:
        st.evals += 1
        case = {"keys": ks, "mode": mode, "signing_order": order, "bindings": serving}
        if len(ks) > 1 or mode != "output-key":
            st.nontrivial += 1
        with backend(serving):
            try:
                psbt = Psbt.b64decode(template)
                pin = psbt.inputs[0]
                pin.taproot_hd_key_paths.clear()
                pin.musig2_participant_pub_keys.clear()
                pks = [musig2.individual_pub_key(q) for q in ks]
                agg = role.add_participant_pub_keys(pin, pks)
                Qagg = ref_keyagg(pks, [])
                if agg != cbytes(Qagg):
                    st.violation("C16/psbt/aggregate-key-not-bip327", case, agg.hex()[:20], cbytes(Qagg).hex()[:20])
                    continue
                if mode == "output-key":
                    out_x = Qagg[0]
                else:
                    root = b"" if mode == "internal-key" else hashlib.sha256(b"root").digest()
                    pin.taproot_internal_key = Qagg[0].to_bytes(32, "big")
                    pin.taproot_merkle_root = root
                    out_x = TR.tweak_pubkey(Qagg[0], root)[0]
                spk = b"\x51\x20" + out_x.to_bytes(32, "big")
                pin.witness_utxo = TxOut(pin.witness_utxo.value, ScriptPubKey(spk))
                # one party per distinct key; `order` permutes who goes first in each round
                parties = list(dict.fromkeys(ks))
                parties = [parties[i % len(parties)] for i in order][: len(parties)] if len(set(order)) >= len(parties) else parties
                secs = {q: role.nonce_gen(psbt, 0, q, agg) for q in parties}
                # the psbt survives a serialization between the rounds (the parties exchange it)
                secs_items = list(secs.items())
                psbt = Psbt.b64decode(psbt.b64encode())
                for q, sn in reversed(secs_items):
                    role.partial_sign(psbt, 0, sn, q, agg)
                psbt = Psbt.b64decode(psbt.b64encode())
                for pk in dict.fromkeys(pks):
                    if role.partial_sig_verify(psbt, 0, pk, agg) is not True:
                        st.violation("C16/psbt/honest-partial-signature-rejected", dict(case, key=pk.hex()[:12]), False, True)
                sig = role.partial_sigs_agg(psbt, 0, agg)
            except errs as e:
                st.violation("C16/psbt/honest-session-refused", case, repr(e)[:120], "a signature")
                continue
            tx = SH.parse_tx(psbt.tx.serialize(include_witness=False))
            msg = SH.taproot(tx, 0, [(pin.witness_utxo.value, spk)], 0)
            if not B.verify(msg, out_x, sig.r, sig.s, B.K1):
                st.violation("C16/psbt/aggregate-does-not-spend-the-output", case, "invalid under the output key", "valid BIP340 signature of the BIP341 digest")
            if psbt.inputs[0].taproot_key_spend_signature != sig.serialize():
                st.violation("C16/psbt/signature-not-filed", case, "missing", "PSBT_IN_TAP_KEY_SIG")
            st.outcomes[(len(ks), len(set(ks)), mode)] += 1
    return st


def psbt_roles(ctx):
    keys = [3, 5, (N - 1) // 2]
    lists = [ks for k in (1, 2, 3) for ks in itertools.product(keys, repeat=k)]
    combos = []
    for serving in (True, False):
        for ks in lists:
            for mode in ("output-key", "internal-key", "internal-key+root"):
                orders = [(0, 1, 2), (2, 1, 0), (1, 0, 2)] if len(set(ks)) > 1 else [(0, 1, 2)]
                for order in orders:
                    combos.append((ks, mode, order, serving))
    st = ctx.pmap(_psbt_shard, shard_round_robin(combos, 64))
    st.notes["participant_lists"] = len(lists)
    return st


# ------------------------------------------------------------------------------------------ key derivation functions
def kdfs(ctx):
    """ANSI X9.63 KDF and HKDF (RFC 5869) against direct transcriptions, at every size around the hash-block boundaries."""
    import hmac as _hmac

    from btclib import kdf

    st = Stats()
    errs = lib_errors()

    def ref_x963(z, size, hf, info):
        out, c = b"", 1
        while len(out) < size:
            out += hf(z + c.to_bytes(4, "big") + (info or b"")).digest()
            c += 1
        return out[:size]

    def ref_extract(ikm, salt, hf):
        return _hmac.new(salt if salt else bytes(hf().digest_size), ikm, hf).digest()

    def ref_expand(prk, size, hf, info):
        out, t, i = b"", b"", 1
        while len(out) < size:
            t = _hmac.new(prk, t + (info or b"") + bytes([i]), hf).digest()
            out += t
            i += 1
        return out[:size]

    # RFC 5869 A.1 gates the transcription
    prk = ref_extract(bytes.fromhex("0b" * 22), bytes(range(13)), hashlib.sha256)
    if ref_expand(prk, 42, hashlib.sha256, bytes(range(0xF0, 0xFA))).hex() != "3cb25f25faacd57a90434f64d0362f2a2d2d0a90cf1a5a4c5db02d56ecc4c5bf34007208d5b887185865":
        from mc.core import HarnessError
        raise HarnessError("HKDF transcription fails RFC 5869 A.1")
    for hfname in ("sha256", "sha1", "sha512"):
        hf = getattr(hashlib, hfname)
        hlen = hf().digest_size
        sizes = sorted({1, 2, hlen - 1, hlen, hlen + 1, 2 * hlen - 1, 2 * hlen, 2 * hlen + 1, 3 * hlen, 100, 254 * hlen, 255 * hlen - 1, 255 * hlen})
        for z in (b"", b"\x00", bytes(range(32)), b"z" * 65):
            for info in (None, b"", b"info", bytes(80)):
                for size in sizes:
                    st.evals += 2
                    st.nontrivial += 1
                    case = {"hf": hfname, "z_len": len(z), "info": None if info is None else len(info), "size": size}
                    try:
                        got = kdf.ansi_x9_63_kdf(z, size, hf, info)
                    except errs as e:
                        got = "refused " + repr(e)[:40]
                    if got != ref_x963(z, size, hf, info):
                        st.violation("C16/kdf/ansi-x9.63-differs", case, got[:16].hex() if isinstance(got, bytes) else got, ref_x963(z, size, hf, info)[:16].hex())
                    for salt in (None, b"", b"salt", bytes(hlen), bytes(200)):
                        st.evals += 1
                        exp = ref_expand(ref_extract(z, salt, hf), size, hf, info)
                        try:
                            got = kdf.hkdf(z, size, hf, salt, info) if _hkdf_positional(kdf) else kdf.hkdf(z, size, hf, salt=salt, info=info)
                        except errs as e:
                            got = "refused " + repr(e)[:40]
                        if got != exp:
                            st.violation("C16/kdf/hkdf-differs", dict(case, salt=None if salt is None else len(salt)), got[:16].hex() if isinstance(got, bytes) else got, exp[:16].hex())
        # sizes no KDF can answer are refused
        for bad in (0, -1, 255 * hlen + 1):
            st.evals += 1
            try:
                kdf.hkdf_expand(bytes(hlen), bad, hf, None)
                st.violation("C16/kdf/invalid-size-accepted", {"hf": hfname, "size": bad}, "bytes", "refused")
            except errs:
                pass
    return st


def _hkdf_positional(kdf):
    import inspect
    ps = list(inspect.signature(kdf.hkdf).parameters.values())
    return all(p.kind == p.POSITIONAL_OR_KEYWORD for p in ps[:5]) and [p.name for p in ps[:5]] == ["ikm", "size", "hf", "salt", "info"]


# ------------------------------------------------------------------------------------------ BIP375 roles over a PSBT
def _bip375_shard(combos):
    import copy

    from btclib import silent_payments as sp
    from btclib.bip32 import bip32, rootxprv_from_seed
    from btclib.psbt import silent_payments as psp
    from checks import psbt_common as PC
    from models import taproot_ref as TRm

    st = Stats()
    errs = lib_errors()
    root = rootxprv_from_seed(b"\x05" * 32)
    paths = {"wpkh": "m/84h/0h/0h/0/%d", "tr-key": "m/86h/0h/0h/0/%d", "pkh": "m/44h/0h/0h/0/%d", "sh-wpkh": "m/49h/0h/0h/0/%d"}
    b_scan, b_spend = 11, 12
    Bs, Bp = R.mul_fast(b_scan, G, P, 0), R.mul_fast(b_spend, G, P, 0)
    for mix, recips, flow, serving in combos:
        case = {"inputs": mix, "recipients": recips, "flow": flow, "bindings": serving}
        st.evals += 1
        st.nontrivial += 1
        with backend(serving):
            try:
                addr = sp.address_from_keys(Bs, Bp)
                laddr = sp.labeled_address_from_keys(b_scan, Bp, 1)
                labels = sp.label_lookup(b_scan, [0, 1])
                addresses = [addr if r == "plain" else laddr for r in recips]
                psbt, prevouts = PC.build(mix, None, seq=5, lock=0, v2=True)
                while len(psbt.outputs) < len(recips):
                    psbt.outputs.append(copy.deepcopy(psbt.outputs[0]))
                del psbt.outputs[len(recips):]
                for o, a in zip(psbt.outputs, addresses):
                    S_, M_, _ = sp.keys_from_address(a)
                    o.script_pub_key = b""
                    o.sp_v0_info = cbytes(S_) + cbytes(M_)
                psbt.assert_valid()
                prvs = []
                for i, k in enumerate(mix):
                    x = bip32.BIP32KeyData.b58decode(bip32.derive(root, paths[k] % i))
                    d = int.from_bytes(x.key[1:], "big")
                    prvs.append(TRm.tweak_seckey(d, b"") if k == "tr-key" else d)
                if flow == "per-input":
                    for i, d in enumerate(prvs):
                        psp.set_input_share(psbt, i, d, bytes(32))
                elif flow == "per-input-reversed":
                    for i, d in reversed(list(enumerate(prvs))):
                        psp.set_input_share(psbt, i, d, bytes([i]) * 32)
                else:
                    psp.set_global_share(psbt, prvs, bytes(32))
                psp.assert_shares_as_valid(psbt)
                psp.set_output_scripts(psbt)
                psp.assert_as_valid(psbt)
            except errs as e:
                st.violation("C16/bip375/honest-roles-refused", case, repr(e)[:100], "output scripts")
                continue
            scripts = [o.script_pub_key for o in psbt.outputs]
            # (1) they are what the address-level sender computes from the same inputs
            outpoints = [pin.prev_out for pin in psbt.inputs]
            spks = [po.script_pub_key.script for po in prevouts]
            # BIP352 takes the private key of the key the output shows: for taproot that is the tweaked one, already in prvs
            try:
                direct = sp.output_keys(list(zip(prvs, spks)), outpoints, addresses)
            except errs as e:
                st.violation("C16/bip375/address-level-sender-refused", case, repr(e)[:100], "output keys")
                continue
            if sorted(scripts) != sorted(b"\x51\x20" + k for k in direct):
                st.violation("C16/bip375/scripts-differ-from-bip352-sender", case, [x.hex()[:16] for x in scripts], [k.hex()[:12] for k in direct])
            if any(len(x) != 34 or x[:2] != b"\x51\x20" for x in scripts) or len(set(scripts)) != len(scripts):
                st.violation("C16/bip375/scripts-malformed-or-repeated", case, [x.hex()[:16] for x in scripts], "distinct p2tr scripts")
            # (2) the recipient's scanner finds every one of them and can spend it
            pubs = [(R.mul_fast(d, G, P, 0), spk) for d, spk in zip(prvs, spks)]
            try:
                found = sp.scan_transaction_outputs(b_scan, Bp, outpoints, pubs, [x[2:] for x in scripts], labels)
            except errs as e:
                st.violation("C16/bip375/scanner-refused", case, repr(e)[:100], "found outputs")
                continue
            if sorted(o.pub_key for o in found) != sorted(x[2:] for x in scripts):
                st.violation("C16/bip375/scanner-misses-outputs", case, len(found), len(scripts))
            for o in found:
                d = sp.prv_key_from_tweak(b_spend, o.prv_key_tweak)
                if R.mul_fast(d, G, P, 0)[0].to_bytes(32, "big") != o.pub_key:
                    st.violation("C16/bip375/spending-key-does-not-open-output", case, "mismatch", o.pub_key.hex()[:12])
            # (3) the Extractor's check is not vacuous: a flipped share, proof or script is refused
            for what in ("share", "proof", "script"):
                st.evals += 1
                q = copy.deepcopy(psbt)
                holder = q if flow == "global" else q.inputs[0]
                try:
                    if what == "script":
                        q.outputs[0].script_pub_key = q.outputs[0].script_pub_key[:-1] + bytes([q.outputs[0].script_pub_key[-1] ^ 1])
                    else:
                        field = holder.sp_ecdh_shares if what == "share" else holder.sp_dleq_proofs
                        key = next(iter(field))
                        v = field[key]
                        field[key] = v[:-1] + bytes([v[-1] ^ 1])
                    psp.assert_as_valid(q)
                    st.violation("C16/bip375/altered-psbt-accepted/" + what, case, "accepted", "refused")
                except errs:
                    pass
                except StopIteration:
                    st.violation("C16/bip375/no-share-written", case, "empty field", "a share")
            st.outcomes[(len(mix), len(recips), flow)] += 1
    return st


def bip375_roles(ctx):
    kinds = ["wpkh", "tr-key", "pkh", "sh-wpkh"]
    combos = []
    for serving in (True, False):
        for size in (1, 2, 3):
            for mix in itertools.combinations_with_replacement(kinds, size):
                for recips in (("plain",), ("plain", "plain"), ("plain", "labelled"), ("labelled", "plain", "plain")):
                    for flow in ("per-input", "per-input-reversed", "global"):
                        if serving is False and (size == 3 or flow == "per-input-reversed"):
                            continue
                        combos.append((mix, recips, flow, serving))
    st = ctx.pmap(_bip375_shard, shard_round_robin(combos, 64))
    st.notes["combos"] = len(combos)
    return st


SUBS = [
    ("musig2_sessions", musig2_sessions),
    ("musig2_adaptor", musig2_adaptor),
    ("psbt_roles", psbt_roles),
    ("toy_two_party", toy_two_party),
    ("ellswift_toy", ellswift_toy),
    ("ecies_dleq_borromean", ecies_dleq_borromean),
    ("silent_payments", silent_payments),
    ("kdfs", kdfs),
    ("bip375_roles", bip375_roles),
]
