"""C07 — BIP32 derivation obeys the BIP's equations and its algebraic laws.

E2: explicit-state search over the derivation tree.  State = extended key (root, path);
transition = one derivation step with an index of the boundary alphabet; breadth-first to
depth d from three roots x every version prefix x private/neutered x both backends.  In every
state the five fields are compared with models/bip32_ref.py (HMAC-SHA512 + reference ladder),
every split of the path, every path spelling, neuter/derive commutation, hardened-from-public
refusal and parent-key cracking are checked.  Invalid children are an environment answer:
bip32.hmac is rebound to a scripted HMAC."""
from __future__ import annotations

import hashlib
import hmac as real_hmac
import itertools

from mc.core import Stats, backend, lib_errors, rebound, shard_round_robin
from models import bip32_ref as M
from models import ec_ref as R

PROPERTY = "C07"
LEVEL = "model_checking"
RULE = ("states = extended keys reached by BFS over index alphabet {0,1,2^31-1,2^31,2^31+1,2^32-1} to depth d from 3 roots "
        "(seed lengths 16/32/64) ; transitions = single real derivation steps; every state compared field by field with "
        "the reference, from a second history (every split of the path), through every path spelling, neutered, and on "
        "both backends; scripted HMAC answers {n, n+1, 2^256-1, n-k_par, IL making the public child infinity}; "
        "non-trivial = state involves a hardened step, a boundary index, or an invalid child")
ASSUMPTIONS = ["models/bip32_ref.py is BIP32 (gated on the BIP's test vector 1)", "hashlib/hmac are correct", "all seeds and HMAC-SHA512 itself are outside the bound"]
META = {
    "engine": "E2 explicit-state BFS over the derivation tree, with a scripted-HMAC environment",
    "technique": "explicit-state model checking of the derivation tree against an independent BIP32 model; fault enumeration of invalid-child HMAC answers",
    "note": "Trusts models/bip32_ref.py and hashlib. Depth <= 3 (4 thorough) over a 6-index alphabet from 3 roots.",
}

IDX = [0, 1, 2**31 - 1, 2**31, 2**31 + 1, 2**32 - 1]


def spellings(path):
    """Every accepted spelling of a path."""
    def step(i, h):
        return str(i) if i < 2**31 else str(i - 2**31) + h
    out = [list(path), tuple(path)]
    for h in ("h", "'", "H"):
        out.append("m/" + "/".join(step(i, h) for i in path) if path else "m")
        out.append("/".join(step(i, h) for i in path) if path else "")
    out.append(b"".join(i.to_bytes(4, "little") for i in path))  # the PSBT spelling: 32-bit little endian
    if len(path) == 1:
        out.append(path[0])
    return out


def fields(x):
    return (x.version, x.depth, x.parent_fingerprint, x.index, x.chain_code, x.key)


def _tree_shard(arg):
    seed_bytes, version_prv, first_indexes, depth, serving, full_laws = arg
    from btclib.bip32 import bip32
    from btclib.exceptions import BTClibValueError
    from btclib.network import xpubversion_from_xprvversion

    st = Stats()
    errs = lib_errors()
    version_pub = xpubversion_from_xprvversion(version_prv)
    with backend(serving):
        root = bip32.rootxprv_from_seed_(seed_bytes, version_prv)
        xroot = bip32.xpub_from_xprv_(root)
        mk, mc = M.master(seed_bytes)
        exp_root = (version_prv, 0, bytes(4), 0, mc, b"\x00" + mk.to_bytes(32, "big"))
        st.evals += 1
        if fields(root) != exp_root:
            st.violation("C07/root", {"seed": seed_bytes, "version": version_prv}, fields(root), exp_root)
        # model nodes: path -> (k, c, K)
        model = {(): (mk, mc, M.pub(mk))}
        lib = {(): root}
        frontier = [()]
        for d in range(1, depth + 1):
            nxt = []
            for path in frontier:
                k, c, K = model[path]
                for i in (first_indexes if d == 1 else IDX):
                    child = path + (i,)
                    st.transitions += 1
                    st.evals += 1
                    try:
                        ki, ci = M.ckd_prv(k, c, i, K)
                    except M.Invalid:
                        continue  # 2^-127: never happens on real HMACs; scripted in invalid_children
                    Ki = M.pub(ki)
                    model[child] = (ki, ci, Ki)
                    # the transition on the implementation: one step from the parent object
                    got = bip32.derive_(lib[path], [i])
                    lib[child] = got
                    exp = (version_prv, d, M.h160(M.ser(K))[:4], i, ci, b"\x00" + ki.to_bytes(32, "big"))
                    case = {"seed": seed_bytes.hex()[:16], "path": child, "bindings": serving, "version": version_prv.hex()}
                    st.states += 1
                    if any(j >= 2**31 for j in child):
                        st.nontrivial += 1
                    if fields(got) != exp:
                        st.violation("C07/derive/private-fields", case, fields(got), exp)
                        continue
                    # from elsewhere: the whole path in one call, and every split
                    one = bip32.derive_(root, list(child))
                    if one != got:
                        st.violation("C07/derive/one-call-vs-steps", case, fields(one), exp)
                    for cut in range(1, d):
                        two = bip32.derive_(bip32.derive_(root, list(child[:cut])), list(child[cut:]))
                        st.evals += 1
                        if two != got:
                            st.violation("C07/derive/split", dict(case, cut=cut), fields(two), exp)
                    # neutering
                    xp = bip32.xpub_from_xprv_(got)
                    exp_pub = (version_pub, d, exp[2], i, ci, M.ser(Ki))
                    st.evals += 1
                    if fields(xp) != exp_pub:
                        st.violation("C07/neuter/fields", case, fields(xp), exp_pub)
                    if bip32.fingerprint(got) != M.h160(M.ser(Ki))[:4] or bip32.fingerprint(xp) != M.h160(M.ser(Ki))[:4]:
                        st.violation("C07/fingerprint", case, bip32.fingerprint(got), M.h160(M.ser(Ki))[:4])
                    if all(j < 2**31 for j in child):
                        st.evals += 1
                        viapub = bip32.derive_(xroot, list(child))
                        if viapub != xp:
                            st.violation("C07/neuter-derive-commute", case, fields(viapub), exp_pub)
                        # public derivation step by step equals the model's CKDpub
                        Kc, cc = model[path][2], model[path][1]
                        Kc2, cc2 = M.ckd_pub(Kc, cc, i)
                        if (Kc2, cc2) != (Ki, ci):
                            st.violation("C07/model-inconsistent", case, "ckd_pub != pub(ckd_prv)", "equal")
                    else:
                        # the first hardened step from a public key is refused, wherever it sits in the path
                        st.evals += 1
                        try:
                            bip32.derive_(xroot, list(child))
                            st.violation("C07/hardened-from-public-accepted", case, "derived", "BTClibValueError")
                        except BTClibValueError:
                            pass
                        except Exception as e:  # noqa: BLE001
                            st.violation("C07/hardened-from-public-foreign-exception", case, repr(e)[:80], "BTClibValueError")
                    if i < 2**31:
                        # the true parent from (parent xpub, child xprv)
                        st.evals += 1
                        par_pub = bip32.xpub_from_xprv_(lib[path])
                        try:
                            cracked = bip32.crack_prv_key_var(par_pub, got)
                            if cracked != lib[path].b58encode():
                                st.violation("C07/crack/wrong-parent", case, cracked, lib[path].b58encode())
                        except errs as e:
                            st.violation("C07/crack/refused", case, repr(e)[:80], "parent xprv")
                    else:
                        try:
                            bip32.crack_prv_key_var(bip32.xpub_from_xprv_(lib[path]), got)
                            st.violation("C07/crack/hardened-accepted", case, "answered", "BTClibValueError")
                        except BTClibValueError:
                            pass
                    if full_laws:
                        # every spelling of the path, string round trip of the key
                        for sp in spellings(child):
                            st.evals += 1
                            try:
                                alt = bip32.derive_(root, sp)
                            except errs as e:
                                st.violation("C07/path-spelling-refused", dict(case, spelling=repr(sp)[:60]), repr(e)[:80], "derived")
                                continue
                            if alt != got:
                                st.violation("C07/path-spelling-differs", dict(case, spelling=repr(sp)[:60]), fields(alt), exp)
                        s = got.b58encode()
                        if bip32.BIP32KeyData.b58decode(s) != got or bip32.derive(root.b58encode(), list(child)) != s:
                            st.violation("C07/text-roundtrip", case, s, "same key")
                    nxt.append(child)
            frontier = nxt
    st.sample({"seed": seed_bytes.hex()[:16], "version": version_prv.hex(), "first": first_indexes, "depth": depth, "bindings": serving})
    st.outcomes[(serving, len(seed_bytes))] += 1
    return st


def tree(ctx):
    from btclib.network import NETWORKS, XPRV_VERSIONS_ALL

    seeds = [bytes(range(16)), hashlib.sha256(b"seed32-%d" % ctx.seed).digest(), hashlib.sha512(b"seed64").digest()]
    depth = ctx.pick(3, 4)
    shards = []
    main = NETWORKS["mainnet"].bip32_prv
    for s in seeds:
        for serving in (True, False):
            for i in IDX:
                shards.append((s, main, [i], depth, serving, True))
    # every version prefix (BIP32 + SLIP132, every network): depth 2 from one seed, both arms
    for v in sorted(XPRV_VERSIONS_ALL):
        if v == main:
            continue
        for serving in (True, False):
            shards.append((seeds[0], v, IDX, 2, serving, False))
    st = ctx.pmap(_tree_shard, shards)
    st.notes.update({"depth": depth, "roots": len(seeds), "version_prefixes": len(XPRV_VERSIONS_ALL)})
    return st


# --------------------------------------------------------------------- invalid children: scripted HMAC
class _HmacShim:
    """Stands in for the hmac module inside btclib.bip32.bip32: the n-th call to new() answers a scripted digest."""

    def __init__(self, script):
        self.script = dict(script)  # call number -> 64-byte digest
        self.calls = 0

    def new(self, key, msg, digestmod):
        self.calls += 1
        real = real_hmac.new(key, msg, digestmod)
        if self.calls in self.script:
            forced = self.script[self.calls]

            class _D:
                def digest(self_inner):
                    return forced
            return _D()
        return real

    def __getattr__(self, name):
        return getattr(real_hmac, name)


def invalid_children(ctx):
    from btclib.bip32 import bip32
    from btclib.exceptions import BTClibValueError

    st = Stats()
    N = M.N
    seed = bytes(range(16))
    mk, mc = M.master(seed)
    for serving in (True, False):
        with backend(serving):
            root = bip32.rootxprv_from_seed_(seed)
            xroot = bip32.xpub_from_xprv_(root)
            for path in ([0], [2**31], [1, 2], [2**31 + 1, 0, 5]):
                for at in range(1, len(path) + 1):
                    # the parent private key at step `at` (model)
                    k, c = mk, mc
                    for j in path[: at - 1]:
                        k, c = M.ckd_prv(k, c, j)
                    answers = {
                        "IL=n": N.to_bytes(32, "big") + bytes(32),
                        "IL=n+1": (N + 1).to_bytes(32, "big") + bytes(32),
                        "IL=2^256-1": b"\xff" * 32 + bytes(32),
                        "zero-key": ((N - k) % N).to_bytes(32, "big") + bytes(32),
                        "valid-IL=1": (1).to_bytes(32, "big") + bytes(range(32)),
                    }
                    for kind, digest in answers.items():
                        for who, start in (("prv", root), ("pub", xroot)):
                            if who == "pub" and any(j >= 2**31 for j in path):
                                continue
                            if who == "pub" and kind == "zero-key":
                                # public child at infinity: IL*G = -K_par, i.e. IL = n - k_par: the same scripted answer
                                pass
                            st.evals += 1
                            st.transitions += 1
                            shim = _HmacShim({at: digest})
                            with rebound(bip32, "hmac", shim):
                                try:
                                    got = bip32.derive_(start, list(path))
                                    outcome = "derived"
                                except BTClibValueError:
                                    outcome = "refused"
                                except Exception as e:  # noqa: BLE001
                                    outcome = "foreign:" + type(e).__name__
                            case = {"path": path, "scripted_step": at, "answer": kind, "from": who, "bindings": serving}
                            st.outcomes[(kind, who, outcome)] += 1
                            if kind == "valid-IL=1":
                                # control: a scripted valid answer derives, and the child is parent + 1 with the scripted chain code
                                if outcome != "derived":
                                    st.violation("C07/invalid-child/control-refused", case, outcome, "derived")
                                elif at == len(path):
                                    expk = (k + 1) % N
                                    exp_key = (b"\x00" + expk.to_bytes(32, "big")) if who == "prv" else M.ser(M.pub(expk))
                                    if got.key != exp_key or got.chain_code != bytes(range(32)) or got.index != path[-1]:
                                        st.violation("C07/invalid-child/control-wrong-child", case, (got.key.hex(), got.index), exp_key.hex())
                                continue
                            st.nontrivial += 1
                            if outcome != "refused":
                                st.violation("C07/invalid-child/" + kind + ("-silently-replaced" if outcome == "derived" else "-foreign-exception"), case, outcome, "BTClibValueError")
    st.states = st.evals
    return st


# --------------------------------------------------------------------- account derivation, depth limit, path codec
def account_and_limits(ctx):
    from btclib.bip32 import bip32, der_path
    from btclib.exceptions import BTClibValueError

    st = Stats()
    errs = lib_errors()
    seed = hashlib.sha256(b"acct%d" % ctx.seed).digest()
    for serving in (True, False):
        with backend(serving):
            root = bip32.rootxprv_from_seed_(seed)
            acct = bip32.derive_(root, "m/84h/0h/0h")
            xacct = bip32.xpub_from_xprv_(acct)
            ak, ac = M.master(seed)
            for j in (84 + 2**31, 2**31, 2**31):
                ak, ac = M.ckd_prv(ak, ac, j)
            for mx in (acct, xacct):
                for branch in (0, 1, 2, 0xFFFF, 0x10000, 2**31 - 1, 2**31, -1):
                    for idx in (0, 1, 0xFFFF, 0x10000, 2**31 - 1, 2**31, -1):
                        for max_index in (0xFFFF, 0x7FFFFFFF):
                            for only01 in (True, False):
                                st.evals += 1
                                ok_model = (0 <= branch <= max_index) and (0 <= idx <= max_index) and (not only01 or branch in (0, 1)) and branch < 2**31 and idx < 2**31
                                try:
                                    got = bip32.derive_from_account_(mx, branch, idx, only01, max_index)
                                    ok = True
                                except errs:
                                    ok = False
                                except Exception as e:  # noqa: BLE001
                                    st.violation("C07/account/foreign-exception", {"branch": branch, "index": idx, "max_index": max_index}, repr(e)[:80], "library exception")
                                    continue
                                case = {"branch": branch, "index": idx, "max_index": max_index, "branches_0_1_only": only01, "private": mx is acct, "bindings": serving}
                                st.outcomes[(ok_model, ok)] += 1
                                if ok != ok_model:
                                    st.violation("C07/account/acceptance", case, ok, ok_model)
                                    continue
                                if ok:
                                    st.nontrivial += 1
                                    two = bip32.derive_(mx, [branch, idx])
                                    if got != two:
                                        st.violation("C07/account/differs-from-two-step-derive", case, fields(got), fields(two))
                                    k1, c1 = M.ckd_prv(ak, ac, branch)
                                    k2, c2 = M.ckd_prv(k1, c1, idx)
                                    expk = (b"\x00" + k2.to_bytes(32, "big")) if mx is acct else M.ser(M.pub(k2))
                                    if got.key != expk or got.chain_code != c2:
                                        st.violation("C07/account/not-bip32", case, got.key.hex(), expk.hex())
                                    rng = bip32.derive_from_account_range_(mx, branch, [idx, 0, idx], only01, max_index)
                                    if rng[0] != got or rng[2] != got or rng[1] != bip32.derive_(mx, [branch, 0]):
                                        st.violation("C07/account/range-differs", case, [fields(x)[3] for x in rng], "same keys")
            # depth limit: a 255-step chain derives, the 256th step is refused
            x = root
            for _ in range(255):
                x = bip32.derive_(x, [0])
            st.evals += 2
            if x.depth != 255:
                st.violation("C07/depth/255", {"bindings": serving}, x.depth, 255)
            try:
                bip32.derive_(x, [0])
                st.violation("C07/depth/256-accepted", {"bindings": serving}, "derived", "BTClibValueError")
            except BTClibValueError:
                pass
            one = bip32.derive_(root, [0] * 255)
            if one != x:
                st.violation("C07/depth/one-call-vs-steps", {"bindings": serving}, fields(one)[:4], fields(x)[:4])
    # path codec: strings over a grammar alphabet vs a model parser
    toks = ["0", "1", "2147483647", "2147483648", "0h", "0'", "0H", "2147483647h", "2147483648h", "-1", "", " 1 ", "1.0", "0x1", "+1", "h", "m", "01"]
    for bip380 in (False, True):
        for nsteps in (1, 2):
            for steps in itertools.product(toks, repeat=nsteps):
                for prefix in ("", "m/", "M/", "/"):
                    s = prefix + "/".join(steps)
                    st.evals += 1
                    exp = _model_path(s, bip380)
                    try:
                        got = der_path.indexes_from_der_path(s, bip380_enforced=bip380) if bip380 else der_path.indexes_from_der_path(s)
                    except errs:
                        got = None
                    except Exception as e:  # noqa: BLE001
                        st.violation("C07/der_path/foreign-exception", {"s": s, "bip380": bip380}, repr(e)[:80], "library exception")
                        continue
                    st.outcomes[("path", got is not None)] += 1
                    if exp == "unspecified":
                        continue
                    if got != exp:
                        st.violation("C07/der_path/parse", {"s": s, "bip380": bip380}, got, exp)
                    elif got is not None:
                        back = der_path.str_from_der_path(got)
                        if der_path.indexes_from_der_path(back) != got:
                            st.violation("C07/der_path/roundtrip", {"s": s}, back, got)
    st.states = st.evals
    return st


def _model_path(s, bip380):
    """Model of the documented lenient grammar (and the BIP380 one).  'unspecified' where the docstrings leave a choice."""
    steps = [x.strip() for x in s.split("/")]
    if not bip380:
        if steps and steps[0] in ("m", "M"):
            if steps[0] == "M":
                return "unspecified"
            steps = steps[1:]
        steps = [x for x in steps if x != ""]
    out = []
    for x in steps:
        raw = x
        hard = False
        if x and x[-1] in ("h", "'", "H"):
            if bip380 and x[-1] == "H":
                return None
            hard = True
            x = x[:-1]
        if bip380:
            if not (x.isascii() and x.isdigit()) or raw != raw.strip():
                return None
        else:
            if not x or not (x.isascii() and x.lstrip("+-").isdigit()):
                return "unspecified" if x and x.replace("_", "").lstrip("+-").isdigit() else None
            if x[0] in "+-" or x != x.strip():
                return "unspecified" if x[0] == "+" else None
        try:
            v = int(x)
        except ValueError:
            return None
        if not 0 <= v < 2**31:
            return None
        out.append(v + (2**31 if hard else 0))
    return out


# ------------------------------------------------------------------------------------------------ deep chains; history
def deep_and_history(ctx):
    """(a) chains to depth 255 crossing the text form at every split around 127/128; (b) E2: histories over
    {parse a path string, edit the list that was answered, derive}: the answer to a later call never depends on what
    the caller did with an earlier answer."""
    from btclib.bip32 import bip32
    from btclib.bip32.der_path import hardenings_from_der_path, indexes_from_der_path
    from btclib.bip32.key_origin import BIP32KeyOrigin
    from btclib.network import NETWORKS

    st = Stats()
    errs = lib_errors()
    seed = bytes(range(16))
    k, c = M.master(seed)
    main = NETWORKS["mainnet"].bip32_prv
    for serving in (True, False):
        with backend(serving):
            root = bip32.rootxprv_from_seed(seed)
            # model chain: alternating plain / hardened steps
            steps = [(j % 3) + (2**31 if j % 5 == 0 else 0) for j in range(255)]
            chain = [(k, c)]
            for i in steps:
                chain.append(M.ckd_prv(chain[-1][0], chain[-1][1], i))

            def spelled(ix):
                return "/".join(str(i - 2**31) + "h" if i >= 2**31 else str(i) for i in ix)

            for d in (1, 2, 126, 127, 128, 129, 200, 254, 255):
                st.evals += 1
                st.nontrivial += 1
                case = {"depth": d, "bindings": serving}
                try:
                    text = bip32.derive(root, "m/" + spelled(steps[:d]))
                    data = bip32.BIP32KeyData.b58decode(text)
                except errs as e:
                    st.violation("C07/deep/refused", case, repr(e)[:80], "a key at that depth")
                    continue
                kd, cd = chain[d]
                if data.depth != d or data.chain_code != cd or int.from_bytes(data.key[1:], "big") != kd or data.index != steps[d - 1]:
                    st.violation("C07/deep/differs-from-model", case, (data.depth, data.index), (d, steps[d - 1]))
                # every split through the text form around the signed-octet edge
                for cut in sorted({1, 126, 127, 128, 129, d - 1} & set(range(1, d))):
                    st.evals += 1
                    try:
                        head = bip32.derive(root, "m/" + spelled(steps[:cut]))
                        whole = bip32.derive(head, "m/" + spelled(steps[cut:d]))
                    except errs as e:
                        st.violation("C07/deep/split-refused", dict(case, cut=cut), repr(e)[:80], "the same key")
                        continue
                    if whole != text:
                        st.violation("C07/deep/split-differs", dict(case, cut=cut), whole[:20], text[:20])
                # neutered, decoded from text
                try:
                    xp = bip32.xpub_from_xprv(text)
                    if bip32.BIP32KeyData.b58decode(xp).depth != d:
                        st.violation("C07/deep/xpub-depth", case, bip32.BIP32KeyData.b58decode(xp).depth, d)
                except errs as e:
                    st.violation("C07/deep/xpub-refused", case, repr(e)[:80], "an xpub")
            # one level further is refused, not wrapped
            st.evals += 1
            try:
                bip32.derive(root, "m/" + spelled(steps + [0]))
                st.violation("C07/deep/depth-256-accepted", {"bindings": serving}, "a key", "refused")
            except errs:
                pass
            # public-derivation tweaks (BIP328's use): the scalars each unhardened step adds; any hardened index is refused
            K0, c0 = M.pub(k), c
            for path in ([], [0], [1, 2], [2**31 - 1], [0, 2**31 - 1, 5], [2**31], [0, 2**31], [2**31 + 1], [2**32 - 1], [5, 2**31, 1]):
                st.evals += 1
                st.nontrivial += 1
                case = {"path": path, "bindings": serving}
                hardened = any(i >= 2**31 for i in path)
                try:
                    tw = bip32.pub_key_derivation_tweaks(M.ser(K0), c0, path)
                except errs:
                    tw = None
                if hardened:
                    if tw is not None:
                        st.violation("C07/tweaks/hardened-step-from-a-public-key-answered", case, [t.hex()[:10] for t in tw], "refused")
                    continue
                if tw is None:
                    st.violation("C07/tweaks/unhardened-path-refused", case, "refused", "tweaks")
                    continue
                Kc, cc_ = K0, c0
                exp = []
                for i in path:
                    I = real_hmac.new(cc_, M.ser(Kc) + i.to_bytes(4, "big"), "sha512").digest()
                    exp.append(I[:32])
                    Kc, cc_ = M.ckd_pub(Kc, cc_, i)
                if [bytes(t) for t in tw] != exp:
                    st.violation("C07/tweaks/differ-from-bip32", case, [bytes(t).hex()[:10] for t in tw], [t.hex()[:10] for t in exp])
            # (b) histories: an answered list edited by the caller
            paths = ["m/84h/0h/0h", "m/0/1", "m"]
            for path in paths:
                exp_ix = [int(x[:-1]) + 2**31 if x.endswith("h") else int(x) for x in path.split("/")[1:]]
                kk, cc = k, c
                for i in exp_ix:
                    kk, cc = M.ckd_prv(kk, cc, i)
                for edit in ("append", "clear", "set0", "none"):
                    for getter in ("indexes_from_der_path", "hardenings_from_der_path", "BIP32KeyOrigin.der_path", "BIP32KeyOrigin.parse"):
                        st.evals += 1
                        st.states += 1
                        st.transitions += 3
                        st.nontrivial += 1
                        case = {"path": path, "edit": edit, "getter": getter, "bindings": serving}
                        try:
                            if getter == "indexes_from_der_path":
                                got = indexes_from_der_path(path)
                            elif getter == "hardenings_from_der_path":
                                got = hardenings_from_der_path(path)
                            elif getter == "BIP32KeyOrigin.der_path":
                                got = BIP32KeyOrigin(b"\x01\x02\x03\x04", path).der_path
                            else:
                                got = BIP32KeyOrigin.parse(BIP32KeyOrigin(b"\x01\x02\x03\x04", path).serialize()).der_path
                            if isinstance(got, list):
                                if edit == "append":
                                    got.extend([0, 7])
                                elif edit == "clear":
                                    got.clear()
                                elif edit == "set0" and got:
                                    got[0] = 5
                        except errs as e:
                            st.violation("C07/history/getter-refused", case, repr(e)[:80], "a list")
                            continue
                        try:
                            again = indexes_from_der_path(path)
                            text = bip32.derive(root, path)
                            data = bip32.BIP32KeyData.b58decode(text)
                        except errs as e:
                            st.violation("C07/history/refused-after-edit", case, repr(e)[:80], "the same answer")
                            continue
                        if list(again) != exp_ix:
                            st.violation("C07/history/path-parse-depends-on-history", case, list(again), exp_ix)
                        if data.depth != len(exp_ix) or data.chain_code != cc or int.from_bytes(data.key[1:], "big") != kk:
                            st.violation("C07/history/derive-depends-on-history", case, (data.depth, data.index), (len(exp_ix), exp_ix[-1] if exp_ix else 0))
    return st


SUBS = [
    ("tree", tree),
    ("invalid_children", invalid_children),
    ("account_and_limits", account_and_limits),
    ("deep_and_history", deep_and_history),
]
