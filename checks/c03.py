"""C03 — BIP340 Schnorr: sign, verify and batch-verify agree with the BIP for all inputs.

E1: integer-level cores over every (q, k, c) and every (x, c, r, s) on toy curves; the public
API with real hashing for every key x messages x aux; byte-for-byte equality with the BIP's
reference signer on secp256k1 (both backends); batch verification with the random coefficients
as an enumerated environment (every coefficient vector secrets.randbelow can return)."""
from __future__ import annotations

import hashlib
import itertools
import secrets

from mc.core import Stats, backend, lib_errors, rebound, shard_round_robin
from models import bip340_ref as B
from models import ec_ref as R
from checks.c01 import curve_key, make_curve

PROPERTY = "C03"
LEVEL = "exploration"
RULE = ("every (q,k,c) in [1,n)^2 x [0,n) through the signing core; every (x,c,r,s) in [0,p] x [0,n) x [0,p] x [0,n] "
        "through Sig validation + the verification core, on every accepted curve of U(P) with n <= bound; public "
        "sign_/verify_ for every key x 6 message lengths x 3 aux; secp256k1: boundary keys x message lengths 0..N x "
        "aux vs the transcribed BIP340 signer on both backends; batches of size 1..4 from a pool of valid/invalid "
        "members x EVERY coefficient vector; non-trivial = invalid member / boundary r,s,x / odd-y key or nonce")
ASSUMPTIONS = [
    "models/bip340_ref.py is BIP340 (gated on the BIP's vectors 0,1,2,4,6)",
    "on toy curves the byte layout is btclib's documented generalisation (p_size/n_size bytes, leftmost nlen bits)",
    "public keys lifting to a point outside <G> on an even-order curve are judged for totality only (2-torsion point cannot be spelled in-band)",
]
META = {
    "technique": "bounded-exhaustive enumeration of (key, nonce, challenge) and (x, c, r, s) on toy curves vs a BIP340 transcription; batch verification with every random coefficient vector enumerated",
    "note": "Trusts models/bip340_ref.py (gated on BIP340 vectors) and models/ec_ref.py.",
}


def _toy_shard(arg):
    plist, nmax, nmax_sound = arg
    from btclib.ecc import ssa
    from btclib.exceptions import BTClibRuntimeError, BTClibValueError

    st = Stats()
    for params in plist:
        p, a, b, G, n, h = params
        if n > nmax:
            continue
        ec = make_curve(params)
        if ec is None:
            continue
        ck = curve_key(params)
        crv = B.Crv(p, a, b, G, n)
        tab = R.subgroup_table(G, n, p, a)
        allpts = R.points(p, a, b)
        N = len(allpts) + 1
        sub = set(t for t in tab if t)
        lifts = {}
        for (x, y) in allpts:
            if y != 0 and y % 2 == 0:
                lifts[x] = (x, y)
        # ---- signing core: s = k + c*q with even-y adjusted q, k
        for q0 in range(1, n):
            Pq = tab[q0]
            q = q0 if Pq[1] % 2 == 0 else n - q0
            Pq = tab[q]
            for k0 in range(1, n):
                K = tab[k0]
                k = k0 if K[1] % 2 == 0 else n - k0
                K = tab[k]
                for c in range(0, n):
                    st.evals += 1
                    exp_s = (k + c * q) % n
                    try:
                        sig = ssa._sign_(c, q, k, K[0], ec)
                    except BTClibRuntimeError:
                        if c == 0:
                            # BIP340 defines an answer for e = 0 (s = k); the library refuses it, and the repo's suite pins that
                            st.violation("C03/zero-challenge", {"curve": ck, "q": q, "k": k, "c": 0}, "refused", (K[0], exp_s))
                        else:
                            st.violation("C03/sign/refused", {"curve": ck, "q": q, "k": k, "c": c}, "refused", (K[0], exp_s))
                        continue
                    if (sig.r, sig.s) != (K[0], exp_s):
                        st.violation("C03/sign/value", {"curve": ck, "q": q, "k": k, "c": c}, (sig.r, sig.s), (K[0], exp_s))
                        continue
                    if q != q0 or k != k0:
                        st.nontrivial += 1
                    if not B.verify_core(c, Pq, sig.r, sig.s, crv):
                        st.violation("C03/sign/model-rejects-own", {"curve": ck, "q": q, "k": k, "c": c}, (sig.r, sig.s), "valid")
                    try:
                        ssa._assert_as_valid_(c, (Pq[0], Pq[1], 1), sig.r, sig.s, ec, ec._fixed_points)
                    except (BTClibRuntimeError, BTClibValueError) as e:
                        st.violation("C03/verify/own-rejected", {"curve": ck, "q": q, "k": k, "c": c}, repr(e)[:80], "valid")
                    if c:
                        try:
                            xr = ssa._recover_pub_key_(c, sig.r, sig.s, ec)
                            if xr != Pq[0]:
                                st.violation("C03/recover/wrong-key", {"curve": ck, "q": q, "k": k, "c": c}, xr, Pq[0])
                        except BTClibRuntimeError:
                            # s*G - K = c*Q is never infinity for c != 0, q != 0
                            st.violation("C03/recover/raises", {"curve": ck, "q": q, "k": k, "c": c}, "raised", Pq[0])
        if n > nmax_sound:
            continue
        # ---- soundness: every (x, c, r, s)
        for x in range(p + 1):
            Pp = lifts.get(x)
            in_sub = Pp in sub if Pp else True
            for c in range(0, n):
                for r in range(p + 1):
                    for s in range(n + 1):
                        st.evals += 1
                        exp = B.verify_core(c, Pp, r, s, crv) if Pp is not None else False
                        try:
                            ssa.Sig(r, s, ec)  # the range / x-coordinate rules live in Sig validation
                            if Pp is None:
                                raise BTClibValueError("x does not lift")
                            ssa._assert_as_valid_(c, (Pp[0], Pp[1], 1), r, s, ec, ec._fixed_points)
                            got = True
                        except (BTClibValueError, BTClibRuntimeError):
                            got = False
                        except Exception as e:  # noqa: BLE001
                            st.violation("C03/verify/foreign-exception", {"curve": ck, "x": x, "c": c, "r": r, "s": s}, repr(e)[:80], exp)
                            continue
                        st.outcomes[(exp, in_sub)] += 1
                        if not exp:
                            st.nontrivial += 1
                        if got != exp:
                            if in_sub:
                                st.violation("C03/verify/soundness", {"curve": ck, "x": x, "c": c, "r": r, "s": s}, got, exp)
                            elif N % 2:
                                st.violation("C03/verify/soundness-off-subgroup-key", {"curve": ck, "x": x, "c": c, "r": r, "s": s}, got, exp)
                            else:
                                st.notes["off_subgroup_even_order_disagreements_not_judged"] = st.notes.get("off_subgroup_even_order_disagreements_not_judged", 0) + 1
    if plist:
        st.sample({"curve": curve_key(plist[0]), "space": "(q,k,c) and (x,c,r,s)"})
    return st


def toy(ctx):
    P = ctx.pick(13, 19)
    params = list(R.universe_params(P))
    st = ctx.pmap(_toy_shard, [(sh, ctx.pick(17, 23), ctx.pick(7, 11)) for sh in shard_round_robin(params, 96)])
    st.notes["universe_P"] = P
    return st


def _public_shard(arg):
    plist, seed = arg
    from btclib.ecc import ssa

    st = Stats()
    errs = lib_errors()
    msgs = [b"", b"\x00", bytes(31), bytes(range(32)), bytes(33), b"m" * 100]
    auxs = [bytes(32), b"\xff" * 32, hashlib.sha256(b"aux%d" % seed).digest()]
    for params in plist:
        ec = make_curve(params)
        if ec is None:
            continue
        p, a, b, G, n, h = params
        crv = B.Crv(p, a, b, G, n)
        ck = curve_key(params)
        tab = R.subgroup_table(G, n, p, a)
        for q in range(1, n):
            xP = tab[q][0]
            for msg in msgs:
                for aux in auxs:
                    st.evals += 1
                    try:
                        sig = ssa.sign_(msg, q, aux, ec)
                    except errs as e:
                        # a zero challenge (1/n of the hash space on toy curves) is refused by design of the library: known finding
                        c_any = None
                        st.outcomes["sign-refused:" + type(e).__name__] += 1
                        if "zero challenge" in str(e):
                            st.violation("C03/zero-challenge", {"curve": ck, "q": q, "msg": msg, "aux": aux}, "refused", "a signature")
                        else:
                            st.violation("C03/public/sign-refused", {"curve": ck, "q": q, "msg": msg, "aux": aux}, repr(e)[:80], "a signature")
                        continue
                    if tab[q][1] % 2:
                        st.nontrivial += 1
                    if not B.verify(msg, xP, sig.r, sig.s, crv):
                        st.violation("C03/public/signature-fails-bip340-equation", {"curve": ck, "q": q, "msg": msg, "aux": aux}, (sig.r, sig.s), "valid")
                    if ssa.verify_(msg, xP, sig) is not True:
                        st.violation("C03/public/own-rejected", {"curve": ck, "q": q, "msg": msg, "aux": aux}, False, True)
                    sig2 = ssa.sign_(msg, q, aux, ec)
                    if (sig2.r, sig2.s) != (sig.r, sig.s):
                        st.violation("C03/public/not-deterministic", {"curve": ck, "q": q}, (sig2.r, sig2.s), (sig.r, sig.s))
                    # tampering: other message, other key, s+1  -- the model decides (toy hashes collide mod n)
                    for kind, (m2, x2, r2, s2) in (("msg", (msg + b"!", xP, sig.r, sig.s)), ("key", (msg, tab[q % (n - 1) + 1][0], sig.r, sig.s)),
                                                   ("s", (msg, xP, sig.r, (sig.s + 1) % n))):
                        exp = B.verify(m2, x2, r2, s2, crv)
                        if exp is False and B.lift_x(x2, crv) is not None and B.challenge(r2, x2, m2, crv) == 0:
                            continue  # zero challenge: counted under its own key above
                        try:
                            got = ssa.verify_(m2, x2, ssa.Sig(r2, s2, ec, check_validity=False))
                        except Exception as e:  # noqa: BLE001
                            got = "raised " + type(e).__name__
                        if B.lift_x(x2, crv) is not None and B.challenge(r2, x2, m2, crv) == 0:
                            continue
                        if got is not exp:
                            st.violation("C03/public/tampered-" + kind, {"curve": ck, "q": q, "msg": msg}, got, exp)
                # sign-to-contract: the receipt opens, a wrong commitment is refused
                ch = hashlib.sha256(b"commit").digest()
                try:
                    sig, receipt = ssa.sign_(msg, q, auxs[0], ec, commit_hash=ch)
                except errs:
                    continue
                st.evals += 1
                if ssa.verify_(msg, xP, sig, commit_hash=ch, receipt=receipt) is not True:
                    st.violation("C03/commit/receipt-does-not-open", {"curve": ck, "q": q, "msg": msg}, False, True)
                # (a wrong commitment is judged on secp256k1 only: on a toy curve the commitment tweak is a hash mod n <= 19
                # and two commitments collide by design of the size, not of the code)
                if not B.verify(msg, xP, sig.r, sig.s, crv):
                    st.violation("C03/commit/signature-fails-bip340-equation", {"curve": ck, "q": q, "msg": msg}, (sig.r, sig.s), "valid")
    return st


def public_api(ctx):
    P = ctx.pick(13, 19)
    params = [c for c in R.universe_params(P) if c[4] <= 19]
    stride = ctx.pick(4, 1)
    chosen = params[ctx.seed % stride::stride]
    st = ctx.pmap(_public_shard, [(sh, ctx.seed) for sh in shard_round_robin(chosen, 96)])
    st.notes["curves"] = len(chosen)
    return st


# ------------------------------------------------------------------ secp256k1 byte for byte
def _k1_shard(arg):
    keys, seed, maxlen = arg
    from btclib.ecc import ssa

    st = Stats()
    auxs = [bytes(32), b"\x01" * 32, hashlib.sha256(b"aux%d" % seed).digest()]
    for q in keys:
        P = R.mul(q, B.G_K1, B.P_K1, 0)
        for L in list(range(0, maxlen)) + [55, 56, 64, 100, 1000]:
            msg = bytes((i * 7 + L) % 256 for i in range(L))
            for aux in auxs[: (3 if L in (0, 32, 33) else 1)]:
                exp = B.sign(q, msg, aux, B.K1)
                for serving in (True, False):
                    with backend(serving):
                        st.evals += 1
                        sig = ssa.sign_(msg, q, aux)
                        got = (sig.r, sig.s)
                        if L != 32:
                            st.nontrivial += 1
                        if got != exp:
                            st.violation("C03/secp256k1/not-bip340-bytes", {"q": hex(q), "len": L, "aux": aux, "bindings": serving}, (hex(got[0]), hex(got[1])), exp)
                            continue
                        if ssa.verify_(msg, P[0], sig) is not True:
                            st.violation("C03/secp256k1/own-rejected", {"q": hex(q), "len": L, "bindings": serving}, False, True)
                        if L in (0, 32, 33) and aux == auxs[0]:
                            ch = hashlib.sha256(b"commit").digest()
                            csig, receipt = ssa.sign_(msg, q, aux, commit_hash=ch)
                            st.evals += 2
                            if ssa.verify_(msg, P[0], csig, commit_hash=ch, receipt=receipt) is not True or not B.verify(msg, P[0], csig.r, csig.s, B.K1):
                                st.violation("C03/commit/receipt-does-not-open", {"q": hex(q), "len": L, "bindings": serving}, False, True)
                            if ssa.verify_(msg, P[0], csig, commit_hash=hashlib.sha256(b"other").digest(), receipt=receipt) is not False:
                                st.violation("C03/commit/wrong-commitment-accepted", {"q": hex(q), "len": L, "bindings": serving}, True, False)
                        ser = sig.serialize()
                        if ser != exp[0].to_bytes(32, "big") + exp[1].to_bytes(32, "big"):
                            st.violation("C03/secp256k1/serialization", {"q": hex(q), "len": L}, ser.hex(), "r||s")
                        # invalid triples: r >= p, s >= n, x not on curve, x >= p; all must be False (never an exception)
                        for kind, (x2, r2, s2) in (("r>=p", (P[0], B.P_K1, sig.s)), ("s>=n", (P[0], sig.r, B.N_K1)), ("s=n+s", (P[0], sig.r, sig.s + B.N_K1)),
                                                   ("x-not-on-curve", (5, sig.r, sig.s)), ("x>=p", (P[0] + B.P_K1, sig.r, sig.s)),
                                                   ("r+1", (P[0], sig.r + 1, sig.s)), ("s+1", (P[0], sig.r, (sig.s + 1) % B.N_K1))):
                            st.evals += 1
                            exp2 = B.verify(msg, x2, r2, s2, B.K1) if x2 < 2**256 and r2 < 2**256 else False
                            try:
                                data = r2.to_bytes(32, "big") + s2.to_bytes(32, "big") if r2 < 2**256 and s2 < 2**256 else None
                                sg = ssa.Sig(r2, s2, check_validity=False) if data is None else data
                                got2 = ssa.verify_(msg, x2 if x2 < 2**256 else x2, sg)
                            except Exception as e:  # noqa: BLE001
                                got2 = "raised " + type(e).__name__
                            if got2 is not exp2:
                                st.violation("C03/secp256k1/invalid-triple/" + kind, {"q": hex(q), "len": L, "bindings": serving}, got2, exp2)
    return st


def secp256k1(ctx):
    n = B.N_K1
    keys = [1, 2, 3, n - 1, n - 2, (n - 1) // 2, (n + 1) // 2, int.from_bytes(hashlib.sha256(b"key%d" % ctx.seed).digest(), "big") % n or 1]
    maxlen = ctx.pick(36, 70)
    st = ctx.pmap(_k1_shard, [([k], ctx.seed, maxlen) for k in keys])
    st.notes["keys"] = len(keys)
    return st


# ------------------------------------------------------------------ batch = conjunction, coefficients enumerated
class _SecretsShim:
    """Stands in for the `secrets` module inside btclib.ecc.ssa only."""

    def __init__(self, randbelow):
        self.randbelow = randbelow

    def __getattr__(self, name):
        return getattr(secrets, name)


def _batch_shard(arg):
    plist, kmax = arg
    from btclib.ecc import ssa

    st = Stats()
    errs = lib_errors()
    for params in plist:
        ec = make_curve(params)
        if ec is None:
            continue
        p, a, b, G, n, h = params
        crv = B.Crv(p, a, b, G, n)
        ck = curve_key(params)
        tab = R.subgroup_table(G, n, p, a)
        # a pool of members (msg, xP, r, s): valid ones made by the library and confirmed by the model; invalid ones by tampering
        pool = []
        for q in (1, 2, n - 1):
            for msg in (b"a", b"bc"):
                try:
                    sig = ssa.sign_(msg, q, bytes(32), ec)
                except errs:
                    continue
                xP = tab[q][0]
                if not B.verify(msg, xP, sig.r, sig.s, crv):
                    continue
                pool.append((msg, xP, sig.r, sig.s, True))
                s_bad = (sig.s + 1) % n
                if not B.verify(msg, xP, sig.r, s_bad, crv) and B.challenge(sig.r, xP, msg, crv):
                    pool.append((msg, xP, sig.r, s_bad, False))
                s_bad2 = (sig.s + 2) % n
                if not B.verify(msg, xP, sig.r, s_bad2, crv):
                    pool.append((msg, xP, sig.r, s_bad2, False))
        pool = pool[:7]
        if len([m for m in pool if m[4]]) < 2 or len([m for m in pool if not m[4]]) < 2:
            continue

        def defect(m):
            """D = s*G - R - c*P in the reference (None when the member verifies)."""
            msg, xP, r, s, _ = m
            Pp, Rp = B.lift_x(xP, crv), B.lift_x(r, crv)
            c = B.challenge(r, xP, msg, crv)
            D = R.add(R.mul(s, G, p, a), R.neg(R.add(Rp, R.mul(c, Pp, p, a), p, a), p), p, a)
            return D

        for size in range(1, kmax + 1):
            for members in itertools.product(range(len(pool)), repeat=size):
                batch = [pool[i] for i in members]
                nbad = sum(1 for m in batch if not m[4])
                if size == 4 and nbad > 2:
                    continue  # bound of the enumeration at size 4: at most two bad members
                Ds = [defect(m) for m in batch]
                vectors = itertools.product(range(0, n - 1), repeat=size - 1) if size > 1 else [()]
                for vec in vectors:
                    it = iter(vec)
                    # the coefficient draws are ssa's own; every other draw (point and inverse blinding underneath) gets
                    # the default answer 0 -- blinding must not change a verdict, which C01 checks for every answer
                    shim = _SecretsShim(lambda k, it=it: next(it) % k)
                    with rebound(ssa, "secrets", shim), rebound(secrets, "randbelow", lambda k: 0):
                        st.evals += 1
                        try:
                            got = ssa.batch_verify_([m[0] for m in batch], [m[1] for m in batch],
                                                    [ssa.Sig(m[2], m[3], ec, check_validity=False) for m in batch])
                        except Exception as e:  # noqa: BLE001
                            got = "raised " + type(e).__name__
                    coeffs = [1] + [1 + v for v in vec]
                    acc = None
                    for cf, D in zip(coeffs, Ds):
                        acc = R.add(acc, R.mul(cf, D, p, a), p, a)
                    exp_eq = acc is None
                    case = {"curve": ck, "members": members, "coefficients": coeffs, "bad": nbad}
                    if nbad == 0:
                        if got is not True:
                            st.violation("C03/batch/valid-batch-rejected", case, got, True)
                    elif nbad == 1:
                        st.nontrivial += 1
                        if got is not False:
                            st.violation("C03/batch/one-bad-member-accepted", case, got, False)
                    else:
                        st.nontrivial += 1
                        # the scheme's inherent cancellation is predicted, not excused
                        if got is not exp_eq:
                            st.violation("C03/batch/verdict-differs-from-equation", case, got, exp_eq)
                    st.outcomes[(size, nbad, got if isinstance(got, bool) else "raise")] += 1
        # out-of-range members (s + n, s = n, r + p) at every position of valid batches: invalid alone, so invalid together
        good = [m for m in pool if m[4]]
        for size in (2, 3):
            for members in itertools.product(range(len(good)), repeat=size):
                for pos in range(size):
                    for kind, (dr, ds) in (("s+n", (0, n)), ("r+p", (p, 0)), ("s+2n", (0, 2 * n))):
                        st.evals += 1
                        st.nontrivial += 1
                        batch = [good[i] for i in members]
                        sigs = [ssa.Sig(m[2], m[3], ec, check_validity=False) for m in batch]
                        sigs[pos] = ssa.Sig(batch[pos][2] + dr, batch[pos][3] + ds, ec, check_validity=False)
                        with rebound(secrets, "randbelow", lambda k: 1 % k):
                            try:
                                got = ssa.batch_verify_([m[0] for m in batch], [m[1] for m in batch], sigs)
                            except Exception as e:  # noqa: BLE001
                                got = "raised " + type(e).__name__
                        if got is not False:
                            st.violation("C03/batch/out-of-range-member-accepted/" + kind, {"curve": ck, "members": members, "pos": pos}, got, False)
        st.sample({"curve": ck, "pool": len(pool)})
    return st


def batch(ctx):
    params = [c for c in R.universe_params(13) if 5 <= c[4] <= ctx.pick(7, 11) and c[5] == 1]
    stride = max(1, len(params) // ctx.pick(16, 48))
    chosen = params[ctx.seed % stride::stride]
    st = ctx.pmap(_batch_shard, [([c], ctx.pick(3, 4)) for c in chosen])
    st.notes["curves"] = len(chosen)
    return st


def _batch_k1_shard(arg):
    size, seed = arg
    from btclib.ecc import ssa

    st = Stats()
    n = B.N_K1
    members = []
    for i in range(size):
        q = 1 + i
        msg = b"batch-%d-%d" % (i, seed)
        r, s = B.sign(q, msg, bytes(32), B.K1)
        members.append((msg, R.mul(q, B.G_K1, B.P_K1, 0)[0], r, s))
    positions = sorted({0, 1, size // 2, size - 1}) if size > 6 else range(size)
    for serving in (True, False):
        with backend(serving):
            for coeff in (0, 1, n - 2):
                with rebound(secrets, "randbelow", lambda k, c=coeff: c % k):
                    st.evals += 1
                    ok = ssa.batch_verify_([m[0] for m in members], [m[1] for m in members], [ssa.Sig(m[2], m[3]) for m in members])
                    if ok is not True:
                        st.violation("C03/batch/secp256k1-valid-rejected", {"size": size, "coeff": coeff, "bindings": serving}, ok, True)
                    for pos in positions:
                        st.evals += 1
                        st.nontrivial += 1
                        bad = list(members)
                        m = bad[pos]
                        bad[pos] = (m[0], m[1], m[2], (m[3] + 1) % n)
                        got = ssa.batch_verify_([m[0] for m in bad], [m[1] for m in bad], [ssa.Sig(m[2], m[3]) for m in bad])
                        if got is not False:
                            st.violation("C03/batch/secp256k1-bad-member-accepted", {"size": size, "pos": pos, "coeff": coeff, "bindings": serving}, got, False)
                    # a member outside BIP340's ranges (s >= n, r >= p) is invalid on its own even where the equation,
                    # which only sees s mod n, holds: one such member at every position
                    for pos in positions:
                        for kind, (dr, ds) in (("s+n", (0, n)), ("r+p", (B.P_K1, 0))):
                            m = members[pos]
                            if m[2] + dr >= 1 << 256 or m[3] + ds >= 1 << 256:
                                continue
                            st.evals += 1
                            st.nontrivial += 1
                            sigs = [ssa.Sig(x[2], x[3]) for x in members]
                            sigs[pos] = ssa.Sig(m[2] + dr, m[3] + ds, check_validity=False)
                            try:
                                got = ssa.batch_verify_([x[0] for x in members], [x[1] for x in members], sigs)
                            except Exception as e:  # noqa: BLE001
                                got = "raised " + type(e).__name__
                            try:
                                single = ssa.verify_(m[0], m[1], sigs[pos])
                            except Exception as e:  # noqa: BLE001
                                single = "raised " + type(e).__name__
                            if single is not False:
                                st.violation("C03/range/out-of-range-member-verifies-alone/" + kind, {"size": size, "pos": pos, "bindings": serving}, single, False)
                            if got is not False:
                                st.violation("C03/batch/out-of-range-member-accepted/" + kind, {"size": size, "pos": pos, "coeff": coeff, "bindings": serving}, got, False)
                    # a duplicated member is still a valid batch
                    dup = members + [members[0]]
                    st.evals += 1
                    if ssa.batch_verify_([m[0] for m in dup], [m[1] for m in dup], [ssa.Sig(m[2], m[3]) for m in dup]) is not True:
                        st.violation("C03/batch/secp256k1-duplicate-rejected", {"size": size, "coeff": coeff, "bindings": serving}, False, True)
    st.outcomes[size] += 1
    return st


def batch_secp256k1(ctx):
    sizes = [1, 2, 3, 4, 5, 27, 28, 29, 55, 56, 57, 58] if not ctx.quick else [1, 2, 3, 5, 27, 28, 29, 56]
    # the Python arm turns 2 terms per member into a multi-scalar product: the Bos-Coster switch (56 non-zero scalars) sits at 28 members
    st = ctx.pmap(_batch_k1_shard, [(s, ctx.seed) for s in sizes])
    st.notes["sizes"] = sizes
    return st


# ------------------------------------------------------------------------------------------------ held-key signers
def _ssa_signer_shard(arg):
    names, seed = arg
    from btclib.curves import CURVES, secp256k1
    from btclib.ecc import ssa

    st = Stats()
    errs = lib_errors()
    for name in names:
        ec = CURVES[name]
        n = ec.n
        for serving in ((True, False) if ec == secp256k1 else (False,)):
            with backend(serving):
                for hfname in ("sha256", "sha3_256", "blake2s", "sha512", "sha1", "sha224"):
                    hf = getattr(hashlib, hfname)
                    hlen = hf().digest_size
                    for q in (1, n - 1, int.from_bytes(hashlib.sha512(b"ss%d" % seed).digest(), "big") % n or 1):
                        case0 = {"curve": name, "hf": hfname, "q": hex(q)[:14], "bindings": serving}
                        try:
                            signer = ssa.Signer(q, ec, hf)
                        except errs:
                            st.outcomes[("signer-refused", name, hfname)] += 1
                            continue
                        for msg in (b"", bytes(32), b"x" * 70):
                            for aux in (bytes(hlen), bytes(range(hlen))):
                                for spelling in ("sign_", "sign"):
                                    st.evals += 1
                                    if hfname != "sha256" or ec != secp256k1:
                                        st.nontrivial += 1
                                    case = dict(case0, msg_len=len(msg), spelling=spelling)
                                    try:
                                        free = ssa.sign_(msg, q, aux, ec, hf) if spelling == "sign_" else ssa.sign(msg, q, aux, ec, hf)
                                    except errs:
                                        st.outcomes[("free-refused", name, hfname)] += 1
                                        continue
                                    try:
                                        held = signer.sign_(msg, aux) if spelling == "sign_" else signer.sign(msg, aux)
                                    except errs as e:
                                        st.violation("C03/signer/refuses-what-the-free-function-signs/" + spelling, case, repr(e)[:80], "a signature")
                                        continue
                                    except Exception as e:  # noqa: BLE001
                                        st.violation("C03/signer/foreign-exception/" + spelling, case, repr(e)[:80], "a signature")
                                        continue
                                    if bytes(held) != free.serialize():
                                        st.violation("C03/signer/differs-from-free-function/" + spelling, case, bytes(held).hex()[:24], free.serialize().hex()[:24])
                                    try:
                                        ok = ssa.verify_(msg, signer.pub_key if hasattr(signer, "pub_key") else None, held, hf) if False else None
                                    except Exception:  # noqa: BLE001
                                        ok = None
                        signer.wipe()
    return st


def held_key_signers(ctx):
    from btclib.curves import CURVES

    names = sorted(CURVES)
    if ctx.quick:
        names = [nm for nm in names if nm in ("secp256k1", "secp256r1", "secp160r1", "secp112r2", "secp192k1")] or names[:5]
    return ctx.pmap(_ssa_signer_shard, [([nm], ctx.seed) for nm in names])


SUBS = [
    ("toy", toy),
    ("public_api", public_api),
    ("secp256k1", secp256k1),
    ("batch", batch),
    ("batch_secp256k1", batch_secp256k1),
    ("held_key_signers", held_key_signers),
]
