"""C14 — descriptors and wallets derive what they describe and recognise only their own.

E1.  Scripts/addresses of every descriptor function of the alphabet at index edges vs hand assembly from the independent
BIP32 / taproot / address models; text round trip over key-expression spellings; BIP380 checksum vs an independent
polymod; every single-character substitution of checksummed descriptor strings refused; multipath expansion; wallets of
all four kinds answer position_of(script_pub_key(b, i)) == (b, i) and 'not mine' for foreign scripts."""
from __future__ import annotations

import hashlib
import itertools

from mc.core import Stats, backend, lib_errors, shard_round_robin
from models import addr_ref as A
from models import bip32_ref as B32
from models import taproot_ref as TR
from models.sighash_ref import tagged

PROPERTY = "C14"
LEVEL = "exploration"
RULE = ("evals = (descriptor shape, key-expression spelling, network, index) derivations compared with hand assembly + one per corrupted string "
        "+ one per wallet position; non-trivial = an index past 7, a sorted/multi-key/taproot-tree shape, an origin spelling, a corrupted "
        "string, a wallet position other than (0, 0)")
ASSUMPTIONS = ["two key trees; indexes {0..7, 65535, 65536, 2^31-2, 2^31-1}", "descriptor shapes to nesting depth 3 (sh(wsh(multi))), taproot trees to depth 2",
               "single-character substitutions over the 95 printable characters on 6 checksummed strings", "musig() key expressions: aggregate key checked at the BIP328 synthetic xpub"]
META = {"engine": "E1 bounded-exhaustive enumeration against reference models",
        "technique": "model checking: bounded-exhaustive enumeration of descriptor shapes x key spellings x index edges against independent BIP32/BIP341/address models; exhaustive single-character corruption of descriptor strings",
        "note": "Trusts models/bip32_ref.py, models/taproot_ref.py, models/addr_ref.py (each gated on published vectors) and the BIP380 polymod transcribed here."}

INDEXES = [0, 1, 2, 3, 4, 5, 6, 7, 65535, 65536, 2**31 - 2, 2**31 - 1]
H = 2**31

# ------------------------------------------------------------------------------------------------ BIP380 checksum, independently
INPUT_CHARSET = "0123456789()[],'/*abcdefgh@:$%{}IJKLMNOPQRSTUVWXYZ&+-.;<=>?!^_|~ijklmnopqrstuvwxyzABCDEFGH`#\"\\ "
CHECKSUM_CHARSET = "qpzry9x8gf2tvdw0s3jn54khce6mua7l"
GEN = [0xF5DEE51989, 0xA9FDCA3312, 0x1BAB10E32D, 0x3706B1677A, 0x644D626FFD]


def ref_checksum(s):
    def polymod(c, val):
        c0 = c >> 35
        c = ((c & 0x7FFFFFFFF) << 5) ^ val
        for i in range(5):
            if c0 >> i & 1:
                c ^= GEN[i]
        return c

    c, cls, clscount = 1, 0, 0
    for ch in s:
        pos = INPUT_CHARSET.find(ch)
        if pos == -1:
            return None
        c = polymod(c, pos & 31)
        cls = cls * 3 + (pos >> 5)
        clscount += 1
        if clscount == 3:
            c = polymod(c, cls)
            cls = clscount = 0
    if clscount > 0:
        c = polymod(c, cls)
    for _ in range(8):
        c = polymod(c, 0)
    c ^= 1
    return "".join(CHECKSUM_CHARSET[(c >> (5 * (7 - j))) & 31] for j in range(8))


# ------------------------------------------------------------------------------------------------ key trees from the models
VERSIONS = {"mainnet": (bytes.fromhex("0488B21E"), bytes.fromhex("0488ADE4"), "bc", 0x00, 0x05), "testnet": (bytes.fromhex("043587CF"), bytes.fromhex("04358394"), "tb", 0x6F, 0xC4)}


class Tree:
    def __init__(self, seed, path=(48 + H, 0 + H, 0 + H)):
        k, c = B32.master(seed)
        self.fp = B32.h160(B32.ser(B32.pub(k)))[:4]
        parent = None
        for i in path:
            parent = B32.h160(B32.ser(B32.pub(k)))[:4]
            k, c = B32.ckd_prv(k, c, i)
        self.k, self.c, self.path, self.parent = k, c, path, parent
        self.K = B32.pub(k)

    def xpub(self, net):
        v = VERSIONS[net][0]
        return A.b58check_encode(v + bytes([len(self.path)]) + self.parent + self.path[-1].to_bytes(4, "big") + self.c + B32.ser(self.K))

    def xprv(self, net):
        v = VERSIONS[net][1]
        return A.b58check_encode(v + bytes([len(self.path)]) + self.parent + self.path[-1].to_bytes(4, "big") + self.c + b"\x00" + self.k.to_bytes(32, "big"))

    def child_pub(self, steps):
        K, c = self.K, self.c
        for i in steps:
            K, c = B32.ckd_pub(K, c, i)
        return B32.ser(K)

    def child_prv_pub(self, steps):
        k, c = self.k, self.c
        for i in steps:
            k, c = B32.ckd_prv(k, c, i)
        return B32.ser(B32.pub(k))

    def origin(self, style="h"):
        body = "/".join(f"{i - H}{style}" if i >= H else str(i) for i in self.path)
        return f"[{self.fp.hex()}/{body}]"


def trees():
    return Tree(b"\x01" * 16), Tree(b"\x02" * 32), Tree(b"\x03" * 64, path=(86 + H, 1 + H, 7 + H))


def push(b):
    assert len(b) < 76
    return bytes([len(b)]) + b


def h160(b):
    return B32.h160(b)


def ms(m, ks):
    return bytes([0x50 + m]) + b"".join(push(k) for k in ks) + bytes([0x50 + len(ks)]) + b"\xae"


def p2sh(s):
    return b"\xa9" + push(h160(s)) + b"\x87"


def p2wsh(s):
    return b"\x00" + push(hashlib.sha256(s).digest())


def p2tr(xkey: bytes, tree=None):
    h = b"" if tree is None else TR.tree_helper(tree)[1]
    return b"\x51" + push(TR.tweak_pubkey(int.from_bytes(xkey, "big"), h)[0].to_bytes(32, "big"))


def multi_a(m, xs):
    out = push(xs[0]) + b"\xac"
    for x in xs[1:]:
        out += push(x) + b"\xba"
    return out + bytes([0x50 + m]) + b"\x9c"


def address(spk, net):
    _, _, hrp, p2pkh_v, p2sh_v = VERSIONS[net]
    if spk[:2] == b"\x76\xa9":
        return A.b58check_encode(bytes([p2pkh_v]) + spk[3:23])
    if spk[:1] == b"\xa9":
        return A.b58check_encode(bytes([p2sh_v]) + spk[2:22])
    if spk[0] in (0, 0x51) and spk[1] == len(spk) - 2:
        return A.segwit_encode(hrp, 0 if spk[0] == 0 else 1, spk[2:])
    return None


def shapes(net):
    """name -> (text builder(keyexpr a, keyexpr b, keyexpr c), expected(ka, kb, kc))  with ka.. = derived compressed keys"""
    return {
        "pk": (lambda a, b, c: f"pk({a})", lambda ka, kb, kc: push(ka) + b"\xac"),
        "pkh": (lambda a, b, c: f"pkh({a})", lambda ka, kb, kc: b"\x76\xa9" + push(h160(ka)) + b"\x88\xac"),
        "wpkh": (lambda a, b, c: f"wpkh({a})", lambda ka, kb, kc: b"\x00" + push(h160(ka))),
        "sh-wpkh": (lambda a, b, c: f"sh(wpkh({a}))", lambda ka, kb, kc: p2sh(b"\x00" + push(h160(ka)))),
        "sh-pkh": (lambda a, b, c: f"sh(pkh({a}))", lambda ka, kb, kc: p2sh(b"\x76\xa9" + push(h160(ka)) + b"\x88\xac")),
        "wsh-pk": (lambda a, b, c: f"wsh(pk({a}))", lambda ka, kb, kc: p2wsh(push(ka) + b"\xac")),
        "multi": (lambda a, b, c: f"multi(2,{a},{b},{c})", lambda ka, kb, kc: ms(2, [ka, kb, kc])),
        "sortedmulti": (lambda a, b, c: f"sortedmulti(2,{a},{b},{c})", lambda ka, kb, kc: ms(2, sorted([ka, kb, kc]))),
        "sh-multi": (lambda a, b, c: f"sh(multi(1,{a},{b}))", lambda ka, kb, kc: p2sh(ms(1, [ka, kb]))),
        "wsh-sortedmulti": (lambda a, b, c: f"wsh(sortedmulti(2,{a},{b}))", lambda ka, kb, kc: p2wsh(ms(2, sorted([ka, kb])))),
        "sh-wsh-multi": (lambda a, b, c: f"sh(wsh(multi(2,{a},{b},{c})))", lambda ka, kb, kc: p2sh(p2wsh(ms(2, [ka, kb, kc])))),
        "tr": (lambda a, b, c: f"tr({a})", lambda ka, kb, kc: p2tr(ka[1:])),
        "tr-leaf": (lambda a, b, c: f"tr({a},pk({b}))", lambda ka, kb, kc: p2tr(ka[1:], (0xC0, push(kb[1:]) + b"\xac"))),
        "tr-tree": (lambda a, b, c: f"tr({a},{{pk({b}),{{pk({c}),multi_a(2,{a},{b},{c})}}}})",
                    lambda ka, kb, kc: p2tr(ka[1:], [(0xC0, push(kb[1:]) + b"\xac"), [(0xC0, push(kc[1:]) + b"\xac"), (0xC0, multi_a(2, [ka[1:], kb[1:], kc[1:]]))]])),
        "tr-sortedmulti_a": (lambda a, b, c: f"tr({a},sortedmulti_a(1,{b},{c}))", lambda ka, kb, kc: p2tr(ka[1:], (0xC0, multi_a(1, sorted([kb[1:], kc[1:]]))))),
        "rawtr": (lambda a, b, c: f"rawtr({a})", lambda ka, kb, kc: b"\x51" + push(ka[1:])),
    }


def _derive_shard(arg):
    combos = arg
    from btclib.descriptors import add_checksum, checksum, parse
    from btclib.descriptors.descriptors import at_index

    st = Stats()
    errs = lib_errors()
    T = trees()
    for net, shape, spelling, serving in combos:
        with backend(serving):
            build, expect = shapes(net)[shape]
            # key expressions: tree j at branch j, spelled per `spelling`
            def kx(j):
                t = T[j]
                x = t.xpub(net)
                if spelling == "bare":
                    return f"{x}/{j}/*", lambda i, t=t, j=j: t.child_pub([j, i])
                if spelling == "origin-h":
                    return f"{t.origin('h')}{x}/{j}/*", lambda i, t=t, j=j: t.child_pub([j, i])
                if spelling == "origin-apostrophe":
                    return f"{t.origin(chr(39))}{x}/{j}/*", lambda i, t=t, j=j: t.child_pub([j, i])
                if spelling == "fingerprint-only":
                    return f"[{t.fp.hex()}]{x}/{j}/*", lambda i, t=t, j=j: t.child_pub([j, i])
                if spelling == "deep":
                    return f"{x}/{j}/5/*", lambda i, t=t, j=j: t.child_pub([j, 5, i])
                if spelling == "xprv-hardened":
                    return f"{t.xprv(net)}/{j}h/*h", lambda i, t=t, j=j: t.child_prv_pub([j + H, i + H])
                if spelling == "fixed":
                    return f"{x}/{j}/9", lambda i, t=t, j=j: t.child_pub([j, 9])
                if spelling == "hex":
                    return t.child_pub([j, 3]).hex(), lambda i, t=t, j=j: t.child_pub([j, 3])
                raise AssertionError(spelling)

            (ta, fa), (tb, fb), (tc, fc) = kx(0), kx(1), kx(2)
            text = build(ta, tb, tc)
            case0 = {"shape": shape, "spelling": spelling, "network": net, "bindings": serving}
            st.evals += 1
            try:
                full = add_checksum(text)
                prv = {}
                d = parse(full, net, prv)
            except errs as e:
                st.violation("C14/parse-refuses-descriptor/" + shape, case0, repr(e)[:100], "parsed")
                continue
            if full != text + "#" + ref_checksum(text) or checksum(text) != ref_checksum(text):
                st.violation("C14/checksum-differs-from-bip380", case0, full[-8:], ref_checksum(text))
            # text round trip
            try:
                back = parse(str(d), net)
                if back != d:
                    st.violation("C14/text-round-trip-not-equal/" + spelling, case0, str(back)[:80], str(d)[:80])
                if spelling != "xprv-hardened" and str(d).split("#")[0].replace("'", "h") != text.replace("'", "h"):
                    st.violation("C14/text-form-differs/" + spelling, case0, str(d)[:100], text[:100])
            except errs as e:
                st.violation("C14/own-text-refused/" + spelling, case0, repr(e)[:100], "parsed")
            ranged = spelling not in ("fixed", "hex")
            seen_scripts = {}
            for idx in (INDEXES if ranged else [0]):  # a descriptor without a wildcard has one script, at index 0
                st.evals += 1
                if idx > 7 or shape not in ("pk", "pkh", "wpkh") or spelling != "bare":
                    st.nontrivial += 1
                case = dict(case0, index=idx)
                ka, kb, kc = fa(idx), fb(idx), fc(idx)
                exp = expect(ka, kb, kc)
                try:
                    got = d.script_pub_key(idx, prv).script
                except errs as e:
                    st.violation("C14/derivation-refused/" + shape, case, repr(e)[:100], exp.hex()[:40])
                    continue
                if got != exp:
                    st.violation("C14/script-differs-from-hand-assembly/" + shape, case, got.hex()[:60], exp.hex()[:60])
                    continue
                seen_scripts[idx] = got
                exp_addr = address(exp, net)
                if exp_addr is not None:
                    try:
                        ga = d.address(idx, prv)
                    except errs as e:
                        ga = "refused " + repr(e)[:50]
                    if ga != exp_addr:
                        st.violation("C14/address-differs/" + shape, case, ga, exp_addr)
                # at_index: the single-index descriptor derives the same script at any index
                try:
                    fixed = at_index(d, idx) if spelling != "xprv-hardened" else d
                    if spelling != "xprv-hardened" and fixed.script_pub_key(0).script != exp:
                        st.violation("C14/at_index-differs/" + shape, case, "differs", "same script")
                except errs as e:
                    st.violation("C14/at_index-refused/" + shape, case, repr(e)[:80], "descriptor")
                if idx <= 7:
                    pos = d.index_of(got, 10, prv)
                    if ranged and pos != idx:
                        st.violation("C14/index_of-wrong/" + shape, case, pos, idx)
                    if d.index_of(got, idx, prv) is None:
                        st.violation("C14/index_of-misses-at-range-edge/" + shape, case, None, idx)
                    if ranged and idx > 0 and d.index_of(got, idx - 1, prv) is not None and seen_scripts.get(idx) not in [seen_scripts.get(j) for j in range(idx)]:
                        st.violation("C14/index_of-finds-beyond-range/" + shape, case, d.index_of(got, idx - 1, prv), None)
            # not mine
            for foreign in (b"\x00\x14" + bytes(20), b"\x51\x20" + bytes(31) + b"\x01", seen_scripts.get(7, b"\x6a\x00")[:-1] + bytes([seen_scripts.get(7, b"\x6a\x00")[-1] ^ 1])):
                st.evals += 1
                try:
                    pos = d.index_of(foreign, 10, prv)
                except errs:
                    pos = None
                if pos is not None:
                    st.violation("C14/index_of-claims-foreign-script/" + shape, dict(case0, foreign=foreign.hex()[:20]), pos, None)
            if ranged and 65535 in seen_scripts and d.index_of(seen_scripts[65535], 10, prv) is not None:
                st.violation("C14/index_of-claims-script-outside-range/" + shape, case0, 65535, None)
            # out-of-range indexes are refused
            for bad in (-1, 2**31, 2**32):
                try:
                    d.script_pub_key(bad, prv)
                    if ranged:
                        st.violation("C14/out-of-range-index-accepted/" + shape, dict(case0, index=bad), "script", "refused")
                except errs:
                    pass
            st.outcomes[(shape, spelling)] += 1
    return st


def derive(ctx):
    combos = []
    spellings = ["bare", "origin-h", "origin-apostrophe", "fingerprint-only", "deep", "xprv-hardened", "fixed", "hex"]
    for serving in (True, False):
        for net in ("mainnet", "testnet"):
            for shape in shapes(net):
                for sp in spellings:
                    if serving is False and (net == "testnet" or sp not in ("bare", "xprv-hardened")):
                        continue
                    if net == "testnet" and sp not in ("bare", "origin-h", "xprv-hardened"):
                        continue
                    combos.append((net, shape, sp, serving))
    st = ctx.pmap(_derive_shard, shard_round_robin(combos, 64))
    st.notes["combos"] = len(combos)
    return st


# ------------------------------------------------------------------------------------------------ other functions: addr, raw, combo, musig
def special_forms(ctx):
    from btclib.descriptors import add_checksum, parse

    st = Stats()
    errs = lib_errors()
    T = trees()
    for serving in (True, False):
        with backend(serving):
            for net in ("mainnet", "testnet"):
                ka = T[0].child_pub([0, 3])
                spks = {"p2pkh": b"\x76\xa9" + push(h160(ka)) + b"\x88\xac", "p2sh": p2sh(b"\x51"), "p2wpkh": b"\x00" + push(h160(ka)), "p2wsh": p2wsh(b"\x51"), "p2tr": p2tr(ka[1:])}
                for name, spk in spks.items():
                    st.evals += 1
                    addr = address(spk, net)
                    case = {"form": "addr", "kind": name, "network": net, "bindings": serving}
                    try:
                        d = parse(add_checksum(f"addr({addr})"), net)
                        if d.script_pub_key(0).script != spk:
                            st.violation("C14/addr-descriptor-script-differs", case, d.script_pub_key(0).script.hex(), spk.hex())
                        if parse(str(d), net) != d:
                            st.violation("C14/text-round-trip-not-equal/addr", case, str(d), addr)
                        if d.index_of(spk, 3) is None or d.index_of(spks["p2wsh" if name != "p2wsh" else "p2tr"], 3) is not None:
                            st.violation("C14/addr-index_of", case, "wrong", "own script only")
                    except errs as e:
                        st.violation("C14/addr-descriptor-refused", case, repr(e)[:80], "parsed")
                    st.evals += 1
                    try:
                        d = parse(add_checksum(f"raw({spk.hex()})"), net)
                        if d.script_pub_key(0).script != spk or parse(str(d), net) != d:
                            st.violation("C14/raw-descriptor-differs", dict(case, form="raw"), "differs", spk.hex())
                    except errs as e:
                        st.violation("C14/raw-descriptor-refused", dict(case, form="raw"), repr(e)[:80], "parsed")
                # combo(): the four scripts of one key
                x = T[0].xpub(net)
                for idx in (0, 7, 2**31 - 1):
                    st.evals += 1
                    st.nontrivial += 1
                    k = T[0].child_pub([0, idx])
                    exp = [push(k) + b"\xac", b"\x76\xa9" + push(h160(k)) + b"\x88\xac", b"\x00" + push(h160(k)), p2sh(b"\x00" + push(h160(k)))]
                    case = {"form": "combo", "network": net, "index": idx, "bindings": serving}
                    try:
                        d = parse(add_checksum(f"combo({x}/0/*)"), net)
                        got = [s.script for s in d.script_pub_keys(idx)] if hasattr(d, "script_pub_keys") else None
                        if got is not None and sorted(got) != sorted(exp):
                            st.violation("C14/combo-scripts-differ", case, [g.hex()[:16] for g in got], [e.hex()[:16] for e in exp])
                        for e in exp:
                            if d.index_of(e, 10 if idx < 10 else 0) != (idx if idx < 10 else None):
                                if idx < 10:
                                    st.violation("C14/combo-index_of", case, d.index_of(e, 10), idx)
                    except errs as e:
                        st.violation("C14/combo-refused", case, repr(e)[:80], "parsed")
            # musig() key expressions, BIP390: participants sorted (KeySort) then aggregated (KeyAgg);
            # musig(A,B)/b/* derives from the BIP328 synthetic xpub of the aggregate
            from checks.c16 import ref_keyagg, cbytes
            net = "mainnet"
            x0, x1, x2 = (T[j].xpub(net) for j in range(3))
            cc = bytes.fromhex("868087ca02a6f974c4598924c36b57762d32cb45717167e300622c7167e38965")
            for idx in INDEXES:
                for form in ("derive-then-aggregate", "aggregate-then-derive"):
                    st.evals += 1
                    st.nontrivial += 1
                    case = {"form": "musig/" + form, "index": idx, "bindings": serving}
                    if form == "derive-then-aggregate":
                        text = f"tr(musig({x0}/0/*,{x1}/1/*,{x2}/2/*))"
                        keys = sorted([T[0].child_pub([0, idx]), T[1].child_pub([1, idx]), T[2].child_pub([2, idx])])
                        Q = ref_keyagg(keys, [])
                        xonly = Q[0].to_bytes(32, "big")
                    else:
                        text = f"tr(musig({x0},{x1},{x2})/3/*)"
                        keys = sorted([B32.ser(T[j].K) for j in range(3)])
                        Q = ref_keyagg(keys, [])
                        K, c = Q, cc
                        for i in (3, idx):
                            K, c = B32.ckd_pub(K, c, i)
                        xonly = K[0].to_bytes(32, "big")
                    exp = p2tr(xonly)
                    try:
                        d = parse(add_checksum(text), net)
                        got = d.script_pub_key(idx).script
                    except errs as e:
                        st.violation("C14/musig-descriptor-refused", case, repr(e)[:80], exp.hex()[:30])
                        continue
                    if got != exp:
                        st.violation("C14/musig-script-differs-from-hand-assembly/" + form, case, got.hex()[:40], exp.hex()[:40])
                    if parse(str(d), net) != d:
                        st.violation("C14/text-round-trip-not-equal/musig", case, str(d)[:60], text[:60])
    return st


# ------------------------------------------------------------------------------------------------ corruption
def _corrupt_shard(arg):
    strings = arg
    from btclib.descriptors import parse
    from btclib.descriptors.descriptors import multipath_descriptors
    from btclib.wallet.descriptor_wallet import DescriptorWallet

    st = Stats()
    errs = lib_errors()
    chars = [chr(c) for c in range(32, 127)]
    for s, positions in strings:
        for i in positions:
            for c in chars:
                if c == s[i]:
                    continue
                st.evals += 1
                st.nontrivial += 1
                t = s[:i] + c + s[i + 1:]
                try:
                    parse(t)
                    st.violation("C14/corrupted-descriptor-accepted", {"descriptor": s[:30] + "...", "position": i, "char": c, "context": t[max(0, i - 6):i + 6]}, "parsed", "refused")
                except errs:
                    pass
                except Exception as e:  # noqa: BLE001
                    st.violation("C14/corrupted-descriptor-foreign-exception/" + type(e).__name__, {"descriptor": s[:30], "position": i, "char": c}, repr(e)[:80], "library refusal")
                if "<" in s:
                    # the two other readers of descriptor text: the BIP389 expansion and the wallet built on it
                    # (the expansion is textual by design: what it answers is read only when each expansion parses)
                    for nm, reader in (("multipath_descriptors", lambda x: [parse(y) for y in multipath_descriptors(x)]), ("DescriptorWallet.from_descriptor", DescriptorWallet.from_descriptor)):
                        st.evals += 1
                        try:
                            reader(t)
                            st.violation("C14/corrupted-descriptor-accepted/" + nm, {"descriptor": s[:30] + "...", "position": i, "char": c, "context": t[max(0, i - 6):i + 6]}, "read", "refused")
                        except errs:
                            pass
                        except Exception as e:  # noqa: BLE001
                            st.violation("C14/corrupted-descriptor-foreign-exception/" + type(e).__name__, {"reader": nm, "position": i, "char": c}, repr(e)[:80], "library refusal")
            # deletions and insertions of one character shift everything after: also refused
            for t in (s[:i] + s[i + 1:], s[:i] + s[i] + s[i:]):
                st.evals += 1
                try:
                    parse(t)
                    st.violation("C14/corrupted-descriptor-accepted/indel", {"descriptor": s[:30] + "...", "position": i}, "parsed", "refused")
                except errs:
                    pass
                except Exception as e:  # noqa: BLE001
                    st.violation("C14/corrupted-descriptor-foreign-exception/" + type(e).__name__, {"descriptor": s[:30], "position": i}, repr(e)[:80], "library refusal")
    return st


def corruption(ctx):
    from btclib.descriptors import add_checksum

    T = trees()
    net = "mainnet"
    a, b, c = (f"{T[j].origin('h') if j == 0 else ''}{T[j].xpub(net)}/{j}/*" for j in range(3))
    texts = [f"wpkh({a})", f"sortedmulti(2,{a},{b})", f"tr({a},{{pk({b}),multi_a(1,{b},{c})}})", f"sh(wsh(multi(1,{b},{c})))", f"addr({address(b'\x00' + push(bytes(20)), net)})",
             f"wsh(and_v(v:pk({b}),older(5)))", f"pkh({T[0].xpub(net)}/<0;1>/*)", f"wsh(sortedmulti(1,{T[0].xpub(net)}/<1;3>/*,{T[1].xpub(net)}/<0;2>/*))"]
    strings = [add_checksum(t) for t in texts]
    shards = []
    for s in strings:
        pos = list(range(len(s)))
        for chunk in shard_round_robin(pos, 8):
            shards.append([(s, chunk)])
    st = ctx.pmap(_corrupt_shard, shards)
    st.notes["strings"] = len(strings)
    st.notes["total_length"] = sum(len(s) for s in strings)
    # the checksum function on corrupted bodies equals the reference (independent of parse)
    from btclib.descriptors import checksum
    errs = lib_errors()
    for t in texts:
        for i in range(0, len(t), 3):
            for cch in "0(/*h'#x Z~":
                st.evals += 1
                u = t[:i] + cch + t[i + 1:]
                try:
                    got = checksum(u)
                except errs:
                    got = None
                if got != ref_checksum(u):
                    st.violation("C14/checksum-differs-from-bip380", {"text": u[:40], "position": i}, got, ref_checksum(u))
    return st


# ------------------------------------------------------------------------------------------------ multipath
def multipath(ctx):
    from btclib.descriptors import add_checksum, parse
    from btclib.descriptors.descriptors import multipath_descriptors
    from btclib.wallet.descriptor_wallet import DescriptorWallet

    st = Stats()
    errs = lib_errors()
    T = trees()
    net = "mainnet"
    x0, x1 = T[0].xpub(net), T[1].xpub(net)
    forms = {
        "wpkh-2": (f"wpkh({x0}/<0;1>/*)", [f"wpkh({x0}/0/*)", f"wpkh({x0}/1/*)"]),
        "wpkh-3": (f"wpkh({x0}/<0;1;7>/*)", [f"wpkh({x0}/0/*)", f"wpkh({x0}/1/*)", f"wpkh({x0}/7/*)"]),
        "multi-2x2": (f"wsh(sortedmulti(2,{x0}/<0;1>/*,{x1}/<2;3>/*))", [f"wsh(sortedmulti(2,{x0}/0/*,{x1}/2/*))", f"wsh(sortedmulti(2,{x0}/1/*,{x1}/3/*))"]),
        "hardened": (f"pkh({T[0].xprv(net)}/<0h;1h>/*)", [f"pkh({T[0].xprv(net)}/0h/*)", f"pkh({T[0].xprv(net)}/1h/*)"]),
        "tr": (f"tr({x0}/<0;1>/*,pk({x1}/<0;1>/*))", [f"tr({x0}/0/*,pk({x1}/0/*))", f"tr({x0}/1/*,pk({x1}/1/*))"]),
        "none": (f"wpkh({x0}/0/*)", [f"wpkh({x0}/0/*)"]),
    }
    for name, (multi, singles) in forms.items():
        st.evals += 1
        st.nontrivial += 1
        case = {"form": name}
        try:
            got = multipath_descriptors(add_checksum(multi))
        except errs as e:
            st.violation("C14/multipath-refused", case, repr(e)[:80], "expansion")
            continue
        exp = [s + "#" + ref_checksum(s) for s in singles]
        if got != exp:
            st.violation("C14/multipath-expansion-differs", case, [g[:50] for g in got], [e[:50] for e in exp])
            continue
        if len(singles) > 1:
            try:
                wprv = {}
                w = DescriptorWallet.from_descriptor(add_checksum(multi), net, wprv)
                for b, s in enumerate(singles):
                    dprv = {}
                    d = parse(add_checksum(s), net, dprv)
                    for i in (0, 1, 5):
                        st.evals += 1
                        if w.script_pub_key(b, i).script != d.script_pub_key(i, dprv).script:
                            st.violation("C14/multipath-wallet-branch-differs", dict(case, branch=b, index=i), "differs", "the single-path descriptor's script")
                        if w.position_of(d.script_pub_key(i, dprv)) != (b, i):
                            st.violation("C14/wallet-position_of-wrong/descriptor", dict(case, branch=b, index=i), w.position_of(d.script_pub_key(i, dprv)), (b, i))
            except errs as e:
                st.violation("C14/multipath-wallet-refused", case, repr(e)[:80], "wallet")
    # malformed multipath: refused
    for bad in (f"wpkh({x0}/<0>/*)", f"wsh(multi(1,{x0}/<0;1>/*,{x1}/<0;1;2>/*))", f"wpkh({x0}/<0;1/*)"):
        st.evals += 1
        try:
            out = multipath_descriptors(bad)
            for o in out:
                parse(o)
            st.violation("C14/malformed-multipath-accepted", {"text": bad[-30:]}, "expanded", "refused")
        except errs:
            pass
    return st


# ------------------------------------------------------------------------------------------------ wallets
def wallets(ctx):
    from btclib.wallet.descriptor_wallet import DescriptorWallet
    from btclib.wallet.key_wallet import BIP32KeyWallet, KeyWallet
    from btclib.wallet.script_wallet import KeyGroup, ScriptWallet

    st = Stats()
    errs = lib_errors()
    foreign = [b"\x00\x14" + bytes(20), b"\x51\x20" + bytes(31) + b"\x01", b"\x76\xa9\x14" + bytes(20) + b"\x88\xac"]
    for serving in (True, False):
        with backend(serving):
            for net in ("mainnet", "testnet"):
                # --- BIP32KeyWallet: account key at m/purpose'/coin'/0'
                for purpose, stype, mk in ((44, "p2pkh", lambda k: b"\x76\xa9" + push(h160(k)) + b"\x88\xac"), (49, "p2wpkh-p2sh", lambda k: p2sh(b"\x00" + push(h160(k)))),
                                           (84, "p2wpkh", lambda k: b"\x00" + push(h160(k))), (86, "p2tr", lambda k: p2tr(k[1:]))):
                    coin = 0 if net == "mainnet" else 1
                    t = Tree(b"\x09" * 32, path=(purpose + H, coin + H, 0 + H))
                    for keyform in ("xpub", "xprv"):
                        try:
                            w = BIP32KeyWallet(t.xpub(net) if keyform == "xpub" else t.xprv(net), f"m/{purpose}h/{coin}h/0h")
                        except errs as e:
                            st.violation("C14/wallet-refused/bip32", {"purpose": purpose, "network": net, "key": keyform}, repr(e)[:80], "wallet")
                            continue
                        for b in (0, 1):
                            for i in (0, 1, 2, 9):
                                st.evals += 1
                                if (b, i) != (0, 0):
                                    st.nontrivial += 1
                                case = {"wallet": "BIP32KeyWallet", "purpose": purpose, "network": net, "key": keyform, "branch": b, "index": i, "bindings": serving}
                                exp = mk(t.child_pub([b, i]))
                                try:
                                    spk = w.script_pub_key(b, i)
                                    if spk.script != exp:
                                        st.violation("C14/wallet-script-differs/bip32-" + stype, case, spk.script.hex()[:40], exp.hex()[:40])
                                    if w.address(b, i) != address(exp, net):
                                        st.violation("C14/wallet-address-differs/bip32-" + stype, case, w.address(b, i), address(exp, net))
                                    if w.position_of(spk, 10) != (b, i):
                                        st.violation("C14/wallet-position_of-wrong/bip32", case, w.position_of(spk, 10), (b, i))
                                    if i == 9 and w.position_of(spk, 8) is not None:
                                        st.violation("C14/wallet-position_of-beyond-range/bip32", case, w.position_of(spk, 8), None)
                                except errs as e:
                                    st.violation("C14/wallet-position-refused/bip32", case, repr(e)[:80], "script")
                        for f in foreign:
                            st.evals += 1
                            if w.position_of(f, 10) is not None:
                                st.violation("C14/wallet-claims-foreign-script/bip32", {"purpose": purpose, "network": net}, w.position_of(f, 10), None)
                # --- DescriptorWallet over two branches
                T = trees()
                x0, x1 = T[0].xpub(net), T[1].xpub(net)
                for name, text, mk in (("wsh-sortedmulti", f"wsh(sortedmulti(2,{x0}/<0;1>/*,{x1}/<0;1>/*))", lambda b, i: p2wsh(ms(2, sorted([T[0].child_pub([b, i]), T[1].child_pub([b, i])])))),
                                       ("tr", f"tr({x0}/<0;1>/*)", lambda b, i: p2tr(T[0].child_pub([b, i])[1:]))):
                    try:
                        w = DescriptorWallet.from_descriptor(text + "#" + ref_checksum(text), net)
                    except errs as e:
                        st.violation("C14/wallet-refused/descriptor", {"name": name, "network": net}, repr(e)[:80], "wallet")
                        continue
                    for b in (0, 1):
                        for i in (0, 3, 9):
                            st.evals += 1
                            st.nontrivial += 1
                            case = {"wallet": "DescriptorWallet", "name": name, "network": net, "branch": b, "index": i, "bindings": serving}
                            exp = mk(b, i)
                            spk = w.script_pub_key(b, i)
                            if spk.script != exp:
                                st.violation("C14/wallet-script-differs/descriptor-" + name, case, spk.script.hex()[:40], exp.hex()[:40])
                            if w.position_of(spk, 10) != (b, i):
                                st.violation("C14/wallet-position_of-wrong/descriptor", case, w.position_of(spk, 10), (b, i))
                    for f in foreign:
                        st.evals += 1
                        if w.position_of(f, 10) is not None:
                            st.violation("C14/wallet-claims-foreign-script/descriptor", {"name": name}, w.position_of(f, 10), None)
                    # the same two chains under branch LABELS that are not their ordinals (a mapping, in both insertion
                    # orders), and three chains from a three-way multipath: a position is (label, index), never (ordinal, index)
                    from btclib.descriptors.descriptors import multipath_descriptors as _mp, parse as _parse
                    try:
                        d0, d1 = [_parse(y, net) for y in _mp(text + "#" + ref_checksum(text))]
                        labelled = [DescriptorWallet({3: d0, 7: d1}), DescriptorWallet({7: d1, 3: d0}), DescriptorWallet({1: d0, 2: d1})]
                    except errs as e:
                        st.violation("C14/wallet-refused/descriptor-mapping", {"name": name, "network": net}, repr(e)[:80], "wallet")
                        labelled = []
                    for w2 in labelled:
                        labels = w2.branches
                        for ordinal, lab in enumerate(labels):
                            for i in (0, 3, 9):
                                st.evals += 1
                                st.nontrivial += 1
                                case = {"wallet": "DescriptorWallet(mapping)", "name": name, "network": net, "labels": list(labels), "branch": lab, "index": i, "bindings": serving}
                                exp = mk(ordinal, i)
                                spk = w2.script_pub_key(lab, i)
                                if spk.script != exp:
                                    st.violation("C14/wallet-script-differs/descriptor-mapping-" + name, case, spk.script.hex()[:40], exp.hex()[:40])
                                if w2.position_of(spk, 10) != (lab, i):
                                    st.violation("C14/wallet-position_of-wrong/descriptor-mapping", case, w2.position_of(spk, 10), (lab, i))
                                if w2.address(lab, i) != spk.address:
                                    st.violation("C14/wallet-address-differs/descriptor-mapping", case, w2.address(lab, i), spk.address)
                # --- ScriptWallet: a template with one key group
                for stype, wrap in (("p2wsh", p2wsh), ("p2sh", p2sh), ("p2sh-p2wsh", lambda s: p2sh(p2wsh(s)))):
                    for order in ("none", "derived"):
                        try:
                            w = ScriptWallet([KeyGroup(2, [x0, x1])], stype, order, network=net)
                        except errs as e:
                            st.outcomes[("script-wallet-refused", stype, order, repr(e)[:40])] += 1
                            continue
                        for b in (0, 1):
                            for i in (0, 1, 2, 3, 4, 9):
                                st.evals += 1
                                st.nontrivial += 1
                                ks = [T[0].child_pub([b, i]), T[1].child_pub([b, i])]
                                exp = wrap(ms(2, sorted(ks) if order == "derived" else ks))
                                case = {"wallet": "ScriptWallet", "type": stype, "order": order, "network": net, "branch": b, "index": i, "bindings": serving}
                                spk = w.script_pub_key(b, i)
                                if spk.script != exp:
                                    st.violation("C14/wallet-script-differs/script-" + stype, case, spk.script.hex()[:40], exp.hex()[:40])
                                if w.position_of(spk, 10) != (b, i):
                                    st.violation("C14/wallet-position_of-wrong/script", case, w.position_of(spk, 10), (b, i))
                        for f in foreign:
                            st.evals += 1
                            if w.position_of(f, 10) is not None:
                                st.violation("C14/wallet-claims-foreign-script/script", {"type": stype}, w.position_of(f, 10), None)
                # --- KeyWallet: individual keys
                for stype, mk in (("p2pkh", lambda k: b"\x76\xa9" + push(h160(k)) + b"\x88\xac"), ("p2wpkh", lambda k: b"\x00" + push(h160(k))),
                                  ("p2wpkh-p2sh", lambda k: p2sh(b"\x00" + push(h160(k)))), ("p2tr", lambda k: p2tr(k[1:]))):
                    keys = [T[0].child_pub([0, j]) for j in range(4)]
                    try:
                        w = KeyWallet([k.hex() for k in keys], stype, net)
                    except errs as e:
                        st.violation("C14/wallet-refused/key", {"type": stype, "network": net}, repr(e)[:80], "wallet")
                        continue
                    st.evals += 1
                    exp = [address(mk(k), net) for k in keys]
                    if list(w.addresses) != exp:
                        st.violation("C14/wallet-address-differs/key-" + stype, {"network": net, "bindings": serving}, list(w.addresses)[:2], exp[:2])
                    other = address(mk(T[1].child_pub([0, 0])), net)
                    try:
                        w.address_info(other)
                        st.violation("C14/wallet-claims-foreign-address/key", {"type": stype, "network": net}, "info", "refused")
                    except errs:
                        pass
    return st


# ------------------------------------------------------------------------------------------------ BIP44 accounts and Core import
def accounts_and_import(ctx):
    """address_from_der_path and account_descriptors from the master key, from the account key and from every key between,
    for the four purposes on both networks, against hand assembly; and the Core import requests built from them."""
    from btclib import bip44, core_import
    from btclib.descriptors.descriptors import account_descriptors

    st = Stats()
    errs = lib_errors()
    seed = b"\x0b" * 32
    mk = {44: lambda k: b"\x76\xa9" + push(h160(k)) + b"\x88\xac", 49: lambda k: p2sh(b"\x00" + push(h160(k))), 84: lambda k: b"\x00" + push(h160(k)), 86: lambda k: p2tr(k[1:])}
    for serving in (True, False):
        with backend(serving):
            for net in ("mainnet", "testnet"):
                coin = 0 if net == "mainnet" else 1
                for purpose in (44, 49, 84, 86):
                    for account in (0, 1, 2**31 - 1):
                        full = (purpose + H, coin + H, account + H)
                        acct = Tree(seed, path=full)
                        starts = [("master", Tree(seed, path=())), ("purpose", Tree(seed, path=full[:1])), ("coin", Tree(seed, path=full[:2])), ("account", acct)]
                        for sname, t in starts:
                            for keyform in ("xprv", "xpub"):
                                if keyform == "xpub" and sname != "account":
                                    continue   # hardened steps remain: a public key cannot take them
                                xk = _xkey_text(t, net, keyform == "xprv")
                                for b, i in ((0, 0), (1, 0), (0, 7), (1, 2**31 - 1)):
                                    st.evals += 1
                                    if sname != "account" or (b, i) != (0, 0):
                                        st.nontrivial += 1
                                    path = f"m/{purpose}h/{coin}h/{account}h/{b}/{i}"
                                    exp = address(mk[purpose](acct.child_pub([b, i])), net)
                                    case = {"purpose": purpose, "network": net, "account": account, "from": sname, "key": keyform, "path": path, "bindings": serving}
                                    try:
                                        got = bip44.address_from_der_path(xk, path)
                                    except errs as e:
                                        got = "refused " + repr(e)[:60]
                                    if got != exp:
                                        st.violation("C14/bip44/address-differs-from-hand-assembly", case, got, exp)
                                # the account's two descriptors derive the same scripts, and their text is what Core is asked to import
                                st.evals += 1
                                try:
                                    rd, cd = account_descriptors(xk, f"m/{purpose}h/{coin}h/{account}h", acct.fp)  # a key below the root cannot name its master: the caller does
                                except errs as e:
                                    st.violation("C14/bip44/account-descriptors-refused", {"purpose": purpose, "network": net, "from": sname, "key": keyform}, repr(e)[:80], "two descriptors")
                                    continue
                                for b, d in ((0, rd), (1, cd)):
                                    for i in (0, 5, 2**31 - 1):
                                        exp = mk[purpose](acct.child_pub([b, i]))
                                        try:
                                            got = d.script_pub_key(i).script
                                        except errs as e:
                                            got = None
                                        if got != exp:
                                            st.violation("C14/bip44/account-descriptor-script-differs", {"purpose": purpose, "network": net, "from": sname, "branch": b, "index": i}, got.hex()[:30] if got else None, exp.hex()[:30])
                                try:
                                    reqs = core_import.account_import_requests(rd, cd, 0, key_range=(0, 99))
                                    texts = [r["desc"] for r in reqs]
                                    body = [t.split("#")[0] for t in texts]
                                    if [t.split("#")[1] for t in texts] != [ref_checksum(x) for x in body] or [r["internal"] for r in reqs] != [False, True] or any(r.get("range") != [0, 99] for r in reqs):
                                        st.violation("C14/core-import/request-fields", {"purpose": purpose, "network": net}, [(r["desc"][-9:], r["internal"], r.get("range")) for r in reqs], "checksummed text, receive then change, range [0, 99]")
                                    if [str(rd).split("#")[0], str(cd).split("#")[0]] != body:
                                        st.violation("C14/core-import/text-is-not-the-descriptor", {"purpose": purpose, "network": net}, body[0][:40], str(rd)[:40])
                                except errs as e:
                                    st.violation("C14/core-import/refused", {"purpose": purpose, "network": net}, repr(e)[:80], "two requests")
                    # the coin type has to agree with the key's network
                    st.evals += 1
                    wrong = 1 - coin
                    try:
                        bip44.address_from_der_path(_xkey_text(Tree(seed, path=()), net, True), f"m/{purpose}h/{wrong}h/0h/0/0")
                        st.violation("C14/bip44/coin-type-of-another-network-accepted", {"purpose": purpose, "network": net}, "address", "refused")
                    except errs:
                        pass
    # range arithmetic of the import helpers
    for have in (None, (0, 10), (5, 20), (0, 999)):
        for want in ((0, 0), (0, 10), (3, 30), (100, 2000)):
            st.evals += 1
            try:
                got = core_import.widened_range(want, have)
            except errs as e:
                st.violation("C14/core-import/widened-range-refused", {"have": have, "want": want}, repr(e)[:60], "a range")
                continue
            exp = want if have is None else (min(have[0], want[0]), max(have[1], want[1]))
            if not (got[0] <= exp[0] and got[1] >= exp[1]):   # never narrower than either; how much wider is Core's keypool policy
                st.violation("C14/core-import/widened-range-narrower", {"have": have, "want": want}, got, exp)
    return st


def _xkey_text(t, net, prv):
    """Serialize a Tree node as an extended key text (depth/parent/index of its own path)."""
    v = VERSIONS[net][1 if prv else 0]
    depth = len(t.path)
    parent = t.parent if depth else bytes(4)
    index = t.path[-1] if depth else 0
    body = v + bytes([depth]) + parent + index.to_bytes(4, "big") + t.c + ((b"\x00" + t.k.to_bytes(32, "big")) if prv else B32.ser(t.K))
    return A.b58check_encode(body)


SUBS = [("derive", derive), ("special_forms", special_forms), ("corruption", corruption), ("multipath", multipath), ("wallets", wallets), ("accounts_and_import", accounts_and_import)]
