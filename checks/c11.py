"""C11 — PSBT roles are lossless, order-independent and never alias their arguments.

E1/E2.  (a) combine as a join: every vendored valid PSBT is split at the raw key-value level (independent map reader)
into copies each missing one pair (or carrying a falsy-valued variant of one); every ordered pair, and permutations x
bracketings of triples, must give back the union of pairs, identically for every order; combine([p, p]) == p.
(b) PSBTs of different transactions / versions are refused.  (c) BFS over role sequences (sign by either signer, to_v0,
to_v2, combine with an earlier state, finalize): the unsigned transaction never changes, every role returns a fresh
object (identity walk) and leaves its arguments byte-identical.  (d) every single-pair tampering of a signer's answer
is refused by assert_signatures_only, the untampered answer accepted."""
from __future__ import annotations

import collections
import dataclasses
import itertools

from mc.core import Stats, backend, lib_errors, shard_round_robin
from models import psbt_map_ref as M
from checks import psbt_common as PC

PROPERTY = "C11"
LEVEL = "model_checking"
RULE = ("states = distinct PSBT serializations reached by role sequences (BFS to the stated depth) and combine operands; transitions = role "
        "applications / combine calls; evals additionally count raw-pair tamperings of signer answers.  Non-trivial = a combine whose operands "
        "differ, a role applied to a non-initial state, a tampering that parses")
ASSUMPTIONS = ["operands that conflict are outside the property", "PSBT_GLOBAL_TX_MODIFIABLE merges by BIP370's AND/OR rule, not by union",
               "role sequences to depth 3 (quick) / 4 (thorough) from 4 seeds; triples of the first 4 copies per vector"]
META = {"engine": "E2 explicit-state BFS over role sequences + E1 over raw key-value splits",
        "technique": "model checking: explicit-state breadth-first search over PSBT role sequences with per-edge invariants, and bounded-exhaustive enumeration of operand splits x orders x bracketings against an independent key-value union oracle",
        "note": "Trusts models/psbt_map_ref.py (gated on 72 vendored PSBTs) and the identity-walk aliasing detector in this file."}

TX_MODIFIABLE = b"\x06"


def kvset(raw):
    return collections.Counter((mi, k, v) for mi, m in enumerate(M.read_maps(raw)) for k, v in m)


def _without_modifiable(c):
    return collections.Counter({k: v for k, v in c.items() if not (k[0] == 0 and k[1] == TX_MODIFIABLE)})


def mutable_ids(obj, out=None, depth=0):
    """ids of every mutable object reachable from obj (lists, dicts, bytearrays, sets, non-frozen btclib dataclasses)."""
    if out is None:
        out = {}
    if depth > 12 or isinstance(obj, (bytes, str, int, float, bool, type(None))):
        return out
    if isinstance(obj, (list, dict, set, bytearray)):
        if id(obj) in out:
            return out
        out[id(obj)] = type(obj).__name__
        if isinstance(obj, dict):
            for k, v in obj.items():
                mutable_ids(k, out, depth + 1)
                mutable_ids(v, out, depth + 1)
        elif isinstance(obj, (list, set)):
            for v in obj:
                mutable_ids(v, out, depth + 1)
        return out
    if isinstance(obj, tuple):
        for v in obj:
            mutable_ids(v, out, depth + 1)
        return out
    if dataclasses.is_dataclass(obj) and not isinstance(obj, type):
        frozen = obj.__dataclass_params__.frozen
        if not frozen:
            if id(obj) in out:
                return out
            out[id(obj)] = type(obj).__name__
        for f in dataclasses.fields(obj):
            try:
                mutable_ids(getattr(obj, f.name), out, depth + 1)
            except AttributeError:
                pass
    return out


def shared(a, b):
    ia, ib = mutable_ids(a), mutable_ids(b)
    return sorted({ia[i] for i in ia.keys() & ib.keys()})


# ------------------------------------------------------------------------------------------------ (a) combine as a join
def _join_shard(arg):
    vectors, n_pair, n_triple = arg
    from btclib.psbt.psbt import Psbt, combine

    st = Stats()
    errs = lib_errors()
    for label, raw in vectors:
        try:
            p = Psbt.parse(raw)
        except errs:
            continue
        base = p.serialize()
        maps = M.read_maps(base)
        copies = []
        for mi, m in enumerate(maps):
            for ai, (k, v) in enumerate(m):
                mm = [list(x) for x in maps]
                del mm[mi][ai]
                try:
                    copies.append((("drop", mi, k.hex()[:10]), Psbt.parse(M.write_maps(mm)), None))
                except errs:
                    pass
                # a falsy-valued variant of the atom: whole' carries it, bare does not
                if len(v) in (1, 4, 8) and any(v) and not (mi == 0 and k == TX_MODIFIABLE):
                    mz = [list(x) for x in maps]
                    mz[mi][ai] = (k, bytes(len(v)))
                    try:
                        whole0 = Psbt.parse(M.write_maps(mz))
                        bare = Psbt.parse(M.write_maps(mm))
                    except errs:
                        continue
                    copies.append((("zero", mi, k.hex()[:10]), whole0, bare))
        # idempotence and single operand
        st.evals += 1
        st.states += 1
        try:
            for ops in ([p], [p, p], [p, p, p]):
                c = combine(ops)
                st.transitions += 1
                if c.serialize() != base:
                    st.violation("C11/combine/not-idempotent", {"vector": label, "operands": len(ops)}, "differs", "the psbt itself")
                sh = shared(c, p)
                if sh or c is p:
                    st.violation("C11/combine/result-aliases-operand", {"vector": label, "operands": len(ops)}, sh, "a fresh object")
        except errs as e:
            st.violation("C11/combine/refuses-itself", {"vector": label}, repr(e)[:80], "the psbt")
        drops = [(d, q) for d, q, b in copies if b is None][:n_pair]
        # ---- ordered pairs of drop-copies
        for (da, qa), (db, qb) in itertools.permutations(drops, 2):
            _combine_case(st, label, [(da, qa), (db, qb)], combine, errs)
        # ---- falsy variants: (bare, whole0) in both orders
        for d, whole0, bare in copies:
            if bare is None:
                continue
            for ops in ([(("bare",) + d[1:], bare), (d, whole0)], [(d, whole0), (("bare",) + d[1:], bare)]):
                _combine_case(st, label, ops, combine, errs, tag="falsy-value")
        # ---- triples: permutations x bracketings agree
        tri = drops[:n_triple]
        # three copies that each ADD an atom of their own to the global map (an unknown key type, and a fourth with
        # a global xpub-like unknown): in a triple of drop-copies every atom is still held by two operands, so a merge
        # that skips the middle operand's global fields is only visible when the middle operand alone holds something
        adds = []
        for j in range(3):
            ma = [list(x) for x in maps]
            ma[0].append((bytes([0xF0 + j, 0x51 + j]), bytes([j + 1]) * (j + 1)))
            try:
                adds.append((("add", 0, ma[0][-1][0].hex()), Psbt.parse(M.write_maps(ma))))
            except errs:
                break
        trios = list(itertools.combinations(tri, 3)) + ([tuple(adds)] if len(adds) == 3 else [])
        for trio in trios:
            results = set()
            union = None
            for perm in itertools.permutations(trio):
                qs = [q for _, q in perm]
                try:
                    flat = combine(qs).serialize()
                    left = combine([combine(qs[:2]), qs[2]]).serialize()
                    right = combine([qs[0], combine(qs[1:])]).serialize()
                except errs:
                    st.outcomes["triple-refused"] += 1
                    continue
                st.evals += 3
                st.transitions += 5
                st.nontrivial += 3
                results |= {flat, left, right}
                want = collections.Counter()
                for q in qs:
                    want |= kvset(q.serialize())
                union = want
            if len(results) > 1:
                st.violation("C11/combine/order-or-grouping-dependent", {"vector": label, "trio": [d for d, _ in trio]}, f"{len(results)} distinct results", "one")
            if results and union is not None:
                got = _without_modifiable(kvset(next(iter(results))))
                if got != _without_modifiable(union):
                    st.violation("C11/combine/triple-lossy", {"vector": label, "trio": [d for d, _ in trio]}, _fmt((_without_modifiable(union) - got)), "the union of the operands' pairs")
        st.outcomes[("vector", len(maps))] += 1
    return st


def _fmt(counter):
    return [(m, k.hex()[:12], v.hex()[:16]) for m, k, v in sorted(counter.elements())[:3]]


def _combine_case(st, label, ops, combine, errs, tag="pair"):
    st.evals += 1
    st.states += len(ops)
    descs = [d for d, _ in ops]
    qs = [q for _, q in ops]
    before = [q.serialize() for q in qs]
    case = {"vector": label, "operands": descs}
    try:
        c = combine(qs)
    except errs as e:
        msg = str(e)
        if "mismatched" in msg or "different" in msg:
            st.outcomes["identity-differs (refused)"] += 1   # the removed pair was part of the transaction's identity
        else:
            st.violation(f"C11/combine/{tag}/refused", case, msg[:100], "the union")
        return
    except Exception as e:  # noqa: BLE001
        st.violation(f"C11/combine/{tag}/foreign-exception", case, repr(e)[:100], "the union")
        return
    st.transitions += 1
    st.nontrivial += 1
    if [q.serialize() for q in qs] != before:
        st.violation(f"C11/combine/{tag}/operand-mutated", case, "changed", "unchanged")
    sh = [s for q in qs for s in shared(c, q)]
    if sh:
        st.violation(f"C11/combine/{tag}/result-aliases-operand", case, sorted(set(sh)), "a fresh object")
    want = collections.Counter()
    for b in before:
        want |= kvset(b)
    got = kvset(c.serialize())
    g, w = _without_modifiable(got), _without_modifiable(want)
    if g != w:
        lost, extra = w - g, g - w
        kind = "lossy" if lost else "invents"
        first = sorted((lost or extra).elements())[0]
        nin = len(c.inputs)
        where = "global" if first[0] == 0 else "in" if first[0] <= nin else "out"
        st.violation(f"C11/combine/{tag}/{kind}/{where}-{first[1][:1].hex()}", case, {"lost": _fmt(lost), "extra": _fmt(extra)}, "exactly the union of the operands' pairs")
    # BIP370's rule for the modifiable flags: AND of bits 0 and 1 (absent = 0), OR of bit 2 (and of the undefined ones)
    mods = [next((v for (m, k, v) in kvset(b) if m == 0 and k == TX_MODIFIABLE), None) for b in before]
    if any(x is not None for x in mods):
        vals = [x[0] if x is not None else 0 for x in mods]
        exp = (vals[0] & vals[1] & 3) | ((vals[0] | vals[1]) & 0xFC)  # the undefined bits are kept, like the third
        gotm = next((v for (m, k, v) in got if m == 0 and k == TX_MODIFIABLE), None)
        gv = gotm[0] if gotm is not None else 0
        if gv != exp:
            st.violation(f"C11/combine/{tag}/tx-modifiable-not-bip370", case, gv, exp)


def combine_join(ctx):
    vecs = M.valid_vectors()
    n_pair, n_triple = ctx.pick((16, 4), (40, 6))
    st = ctx.pmap(_join_shard, [(sh, n_pair, n_triple) for sh in shard_round_robin(vecs, 48)])
    st.notes["vectors"] = len(vecs)
    return st


# ------------------------------------------------------------------------------------------------ (b) refusals
def refusals(ctx):
    from btclib.psbt.psbt import combine

    st = Stats()
    errs = lib_errors()
    for serving in (True, False):
        with backend(serving):
            for mix in (("wpkh",), ("pkh", "wpkh"), ("tr-key", "wsh-multi")):
                for v2 in (False, True):
                    base, _ = PC.build(mix, 1, seq=0xFFFFFFFD, lock=500, v2=v2)
                    variants = {
                        "lock-time": PC.build(mix, 1, seq=0xFFFFFFFD, lock=501, v2=v2)[0],
                        "tx-version": PC.build(mix, 1, seq=0xFFFFFFFD, lock=500, version=1, v2=v2)[0],
                        "input-value-hence-outpoint": PC.build(mix, 1, seq=0xFFFFFFFD, lock=500, v2=v2, in_value=100_001)[0],
                        "psbt-version": PC.build(mix, 1, seq=0xFFFFFFFD, lock=500, v2=not v2)[0],
                        "more-inputs": PC.build(mix + ("wpkh",), 1, seq=0xFFFFFFFD, lock=500, v2=v2)[0],
                    }
                    if not v2:
                        variants["sequence"] = PC.build(mix, 1, seq=0xFFFFFFFF, lock=500, v2=v2)[0]
                        variants["one-sequence"] = PC.build(mix, 1, lock=500, v2=v2, seqs=[0xFFFFFFFD] * (len(mix) - 1) + [0xFFFFFFFE])[0]
                    # an output edited on a copy
                    import copy
                    o = copy.deepcopy(base)
                    o.outputs[0].amount = (o.outputs[0].amount or 0) + 1 if hasattr(o.outputs[0], "amount") and o.outputs[0].amount is not None else None
                    for name, other in variants.items():
                        for ops in ([base, other], [other, base], [base, base, other]):
                            st.evals += 1
                            st.nontrivial += 1
                            case = {"mix": mix, "v2": v2, "differs_in": name, "order": "base-first" if ops[0] is base else "other-first", "bindings": serving}
                            try:
                                c = combine(ops)
                                st.violation("C11/combine/merges-different-transactions/" + name, case, "merged", "refused")
                            except errs:
                                st.outcomes[name] += 1
    return st


# ------------------------------------------------------------------------------------------------ (c) role sequences
def _roles():
    from btclib.psbt.psbt import combine, finalize
    from btclib.psbt_signer import request_signatures

    s = PC.signers()
    return {
        "sign0": lambda p, init, prev, mix: request_signatures(s[0], p),
        "sign1": lambda p, init, prev, mix: request_signatures(s[1], p),
        "to_v0": lambda p, init, prev, mix: p.to_v0(),
        "to_v2": lambda p, init, prev, mix: p.to_v2(),
        "combine-init": lambda p, init, prev, mix: combine([p, init if init.version == p.version else (init.to_v2() if p.version == 2 else init.to_v0())]),
        "combine-prev": lambda p, init, prev, mix: combine([prev if prev.version == p.version else (prev.to_v2() if p.version == 2 else prev.to_v0()), p]),
        "finalize": lambda p, init, prev, mix: finalize(p, solver=PC.solver_for(mix)),
    }


def _bfs_shard(arg):
    seeds, depth = arg
    from btclib.psbt.psbt import Psbt, extract_tx
    from btclib.script.engine import verify_transaction

    st = Stats()
    errs = lib_errors()
    roles = _roles()
    for mix, v2, serving, *rest in seeds:
        required = rest[0] if rest else None
        with backend(serving):
            init, prevouts = PC.build(mix, 1, seq=5, lock=500, v2=v2, required=required)
            txid0, uid0 = init.tx.id, init.unique_id
            seen = {init.serialize(): []}
            frontier = collections.deque([[]])

            def replay(hist):
                p, prev = init, init
                for r in hist:
                    nxt = roles[r](p, init, prev, mix)
                    prev, p = p, nxt
                return p, prev

            while frontier:
                hist = frontier.popleft()
                if len(hist) >= depth:
                    continue
                for r in roles:
                    p, prev = replay(hist)     # fresh objects for every edge: live objects are never reused
                    st.evals += 1
                    before = (p.serialize(), prev.serialize(), init.serialize())
                    case = {"mix": mix, "v2": v2, "history": hist, "role": r, "bindings": serving}
                    try:
                        nxt = roles[r](p, init, prev, mix)
                    except errs:
                        st.outcomes[("refused", r)] += 1
                        if (p.serialize(), prev.serialize(), init.serialize()) != before:
                            st.violation("C11/roles/argument-mutated-by-refused-role/" + r, case, "changed", "unchanged")
                        continue
                    except Exception as e:  # noqa: BLE001
                        st.violation("C11/roles/foreign-exception/" + r, case, repr(e)[:100], "a psbt or a refusal")
                        continue
                    st.transitions += 1
                    if hist:
                        st.nontrivial += 1
                    if (p.serialize(), prev.serialize(), init.serialize()) != before:
                        st.violation("C11/roles/argument-mutated/" + r, case, "changed", "unchanged")
                    if nxt is p or shared(nxt, p) or shared(nxt, init) or shared(nxt, prev):
                        st.violation("C11/roles/result-aliases-argument/" + r, case, shared(nxt, p) + shared(nxt, init) + shared(nxt, prev), "a fresh object")
                    if nxt.tx.id != txid0 or nxt.unique_id != uid0:
                        st.violation("C11/roles/unsigned-transaction-changed/" + r, case, nxt.tx.id.hex()[:16], txid0.hex()[:16])
                    # the result survives its own serialization
                    ser = nxt.serialize()
                    try:
                        if Psbt.parse(ser).serialize() != ser:
                            st.violation("C11/roles/result-does-not-round-trip/" + r, case, "differs", "equal")
                    except errs as e:
                        st.violation("C11/roles/result-does-not-parse/" + r, case, repr(e)[:80], "parses")
                    if r == "finalize":
                        try:
                            verify_transaction(prevouts, extract_tx(nxt))
                            st.outcomes["finalized-verifies"] += 1
                        except errs as e:
                            st.violation("C11/roles/finalized-state-does-not-verify", case, repr(e)[:80], "accepted")
                    if ser not in seen:
                        seen[ser] = hist + [r]
                        frontier.append(hist + [r])
            st.states += len(seen)
            st.outcomes[("states", mix, v2, str(required))] = len(seen)
    return st


def role_sequences(ctx):
    depth = ctx.pick(3, 4)
    seeds = []
    for serving in (True, False):
        for mix in (("wsh-multi-2signers",), ("tr-tree", "wpkh"), ("sh-multi", "pkh"), ("wsh-multi-2signers", "tr-key+leaf")):
            for v2 in (False, True):
                if serving is False and v2:
                    continue
                seeds.append((mix, v2, serving))
    # version 2 psbts whose inputs require a lock time of their own: time only, height only, both, one of each
    for req in ([(1_700_000_000, None)], [(None, 600)], [(1_700_000_000, 600)]):
        seeds.append((("wpkh",), True, True, req))
    seeds.append((("wpkh", "tr-key"), True, True, [(1_700_000_000, None), (1_600_000_000, None)]))
    seeds.append((("wsh-multi-2signers", "pkh"), True, True, [(None, 600), (1_700_000_000, 700)]))
    st = ctx.pmap(_bfs_shard, [([s], depth) for s in seeds])
    st.notes["depth"] = depth
    st.notes["roles"] = list(_roles())
    return st


# ------------------------------------------------------------------------------------------------ (d) signer answers
SIG_KEYS_IN = {0x02, 0x13, 0x14}


def _answers_shard(seeds):
    from btclib.psbt.psbt import Psbt, assert_signatures_only

    st = Stats()
    errs = lib_errors()
    for mix, v2, hname, serving in seeds:
        with backend(serving):
            request, _ = PC.build(mix, PC.HT[hname], seq=5, lock=500, v2=v2)
            answer = PC.signers()[0].sign_psbt(request)
            case0 = {"mix": mix, "v2": v2, "hash_type": hname, "bindings": serving}
            st.evals += 1
            st.states += 1
            try:
                assert_signatures_only(request, answer)
            except errs as e:
                st.violation("C11/answers/honest-answer-refused", case0, repr(e)[:100], "accepted")
                continue
            req_pairs = kvset(request.serialize())
            amaps = M.read_maps(answer.serialize())
            nin = len(request.inputs)

            def judge(mm, what, must_refuse, detail):
                st.evals += 1
                try:
                    tampered = Psbt.parse(M.write_maps(mm))
                except errs:
                    st.outcomes["tampering-does-not-parse"] += 1
                    return
                except Exception:  # noqa: BLE001
                    st.outcomes["tampering-does-not-parse"] += 1
                    return
                st.nontrivial += 1
                st.transitions += 1
                try:
                    assert_signatures_only(request, tampered)
                    accepted = True
                except errs:
                    accepted = False
                except Exception as e:  # noqa: BLE001
                    st.violation("C11/answers/foreign-exception/" + what, dict(case0, detail=detail), repr(e)[:100], "refusal")
                    return
                if accepted and must_refuse:
                    st.violation("C11/answers/tampered-answer-accepted/" + what, dict(case0, detail=detail), "accepted", "refused")
                st.outcomes[(what, accepted)] += 1

            for mi, m in enumerate(amaps):
                region = "global" if mi == 0 else "in" if mi <= nin else "out"
                for ai, (k, v) in enumerate(m):
                    in_request = (mi, k, v) in req_pairs
                    is_sig = region == "in" and k[0] in SIG_KEYS_IN
                    det = {"map": mi, "key": k.hex()[:14]}
                    # change the value (last byte)
                    if v:
                        mm = [list(x) for x in amaps]
                        mm[mi][ai] = (k, v[:-1] + bytes([v[-1] ^ 1]))
                        judge(mm, f"{region}-{k[:1].hex()}-value-changed", not (region == "global" and k == TX_MODIFIABLE), det)
                        mm = [list(x) for x in amaps]
                        mm[mi][ai] = (k, bytes([v[0] ^ 0x80]) + v[1:])
                        judge(mm, f"{region}-{k[:1].hex()}-value-changed", not (region == "global" and k == TX_MODIFIABLE), det)
                    # drop the pair: refused when the request had it, fine when it is a signature the answer added
                    mm = [list(x) for x in amaps]
                    del mm[mi][ai]
                    judge(mm, f"{region}-{k[:1].hex()}-dropped", in_request, det)
                # add a pair the request did not have: an unknown key, a proprietary key, and known non-signature fields
                adds = [(b"\xfc\x03abc\x01", b"\x01"), (b"\xef\x01", b"\x02")]
                if region == "in":
                    adds += [(b"\x03", (0x81).to_bytes(4, "little")), (b"\x0a" + bytes(20), bytes(5)), (b"\x07", b"\x51")]
                if region == "out":
                    adds += [(b"\x00", b"\x51")]
                for k, v in adds:
                    if any(kk == k for kk, _ in m):
                        continue
                    mm = [list(x) for x in amaps]
                    mm[mi].append((k, v))
                    judge(mm, f"{region}-{k[:1].hex()}-added", True, {"map": mi, "key": k.hex()[:14]})
            # an extra, invalid signature
            for i in range(nin):
                mm = [list(x) for x in amaps]
                mm[1 + i].append((b"\x02" + b"\x02" + bytes([7]) * 32, bytes.fromhex("3006020101020101") + b"\x01"))
                judge(mm, "in-02-invalid-signature-added", True, {"input": i})
            if v2:
                # widen the modifiable flags
                mm = [list(x) for x in amaps]
                mm[0] = [(k, v) for k, v in mm[0] if k != TX_MODIFIABLE] + [(TX_MODIFIABLE, b"\x03")]
                judge(mm, "global-06-widened", True, {})
    return st


def signer_answers(ctx):
    seeds = []
    for serving in (True, False):
        for mix in (("wpkh",), ("pkh", "tr-key"), ("wsh-multi", "sh-wpkh"), ("tr-key+leaf", "tr-multi_a"), ("sh-multi",)):
            for v2 in (False, True):
                for hname in ("ALL", "SINGLE|ACP"):
                    if serving is False and (v2 or hname != "ALL"):
                        continue
                    seeds.append((mix, v2, hname, serving))
    st = ctx.pmap(_answers_shard, [[s] for s in seeds])
    st.notes["seeds"] = len(seeds)
    return st


# ------------------------------------------------------------------------------------------------ (e) the signer contract
def signer_contract(ctx):
    """assert_psbt_signer accepts the library's own signer and refuses every signer that departs from the contract in exactly
    one way (a wrapper around the honest one with one answer altered): the alphabet of single departures is enumerated."""
    import copy

    from btclib.bip32 import rootxprv_from_seed
    from btclib.psbt_signer import SignerCapabilities, SoftwareSigner
    from btclib.psbt_signer_contract import assert_psbt_signer
    from btclib.tx import TxOut

    st = Stats()
    errs = lib_errors()
    root = rootxprv_from_seed(b"\x05" * 32)

    class Wrapper:
        """The honest signer with one answer altered."""

        def __init__(self, departure):
            self._s = SoftwareSigner(root)
            self.departure = departure
            self._calls = collections.Counter()

        @property
        def master_fingerprint(self):
            self._calls["fp"] += 1
            fp = self._s.master_fingerprint
            if self.departure == "fingerprint-5-bytes":
                return fp + b"\x00"
            if self.departure == "fingerprint-3-bytes":
                return fp[:3]
            if self.departure == "fingerprint-changes" and self._calls["fp"] > 1:
                return bytes([fp[0] ^ 1]) + fp[1:]
            return fp

        def xpub(self, der_path):
            self._calls["xpub"] += 1
            if self.departure == "xpub-is-private":
                from btclib.bip32 import derive
                return derive(root, der_path)
            if self.departure == "xpub-not-a-key":
                return "xpub-nonsense"
            if self.departure == "xpub-changes" and self._calls["xpub"] > 1:
                return self._s.xpub("m/84h/0h/1h")
            return self._s.xpub(der_path)

        def sign_psbt(self, psbt):
            out = self._s.sign_psbt(psbt)
            d = self.departure
            if d == "edits-an-amount":
                out = copy.deepcopy(out)
                if out.inputs[0].witness_utxo is not None:
                    out.inputs[0].witness_utxo = TxOut(out.inputs[0].witness_utxo.value + 1, out.inputs[0].witness_utxo.script_pub_key)
            elif d == "signs-for-another-master":
                out = copy.deepcopy(out)
                for pin in out.inputs:
                    for key in pin.hd_key_paths:
                        if key not in pin.partial_sigs:
                            pin.partial_sigs[key] = bytes.fromhex("3006020101020101") + b"\x01"
            elif d == "adds-no-signature":
                out = copy.deepcopy(psbt)
            elif d == "raises-on-foreign-psbt":
                if not any(k for pin in out.inputs for k in pin.partial_sigs) and not any(pin.taproot_key_spend_signature for pin in out.inputs):
                    from btclib.exceptions import BTClibValueError
                    raise BTClibValueError("nothing of mine here")
            elif d == "adds-an-unknown-field":
                out = copy.deepcopy(out)
                out.inputs[0].unknown[b"\xfc\x01x"] = b"y"
            return out

        @property
        def capabilities(self):
            self._calls["cap"] += 1
            if self.departure == "capabilities-change" and self._calls["cap"] > 1:
                return SignerCapabilities(taproot=False, musig2=True)
            return self._s.capabilities

        def close(self):
            self._calls["close"] += 1
            if self.departure == "close-not-idempotent" and self._calls["close"] > 1:
                from btclib.exceptions import BTClibRuntimeError
                raise BTClibRuntimeError("already closed")
            self._s.close()

    departures = [None, "fingerprint-5-bytes", "fingerprint-3-bytes", "fingerprint-changes", "xpub-is-private", "xpub-not-a-key", "xpub-changes", "edits-an-amount",
                  "signs-for-another-master", "adds-no-signature", "raises-on-foreign-psbt", "adds-an-unknown-field", "capabilities-change", "close-not-idempotent"]
    for serving in (True, False):
        with backend(serving):
            for mix in (("wpkh",), ("tr-key", "pkh"), ("wsh-multi",)):
                for dep in departures:
                    st.evals += 1
                    st.states += 1
                    st.transitions += 1
                    if dep is not None:
                        st.nontrivial += 1
                    signable, _ = PC.build(mix, 1, seq=5, lock=0)
                    case = {"departure": dep, "mix": mix, "bindings": serving}
                    try:
                        assert_psbt_signer(Wrapper(dep), der_path="m/84h/0h/0h", signable=signable)
                        accepted = True
                    except errs:
                        accepted = False
                    except Exception as e:  # noqa: BLE001
                        st.violation("C11/contract/foreign-exception", case, repr(e)[:100], "accepted or a library refusal")
                        continue
                    if dep is None and not accepted:
                        st.violation("C11/contract/honest-signer-refused", case, "refused", "accepted")
                    if dep is not None and accepted:
                        st.violation("C11/contract/departure-accepted/" + dep, case, "accepted", "refused")
                    st.outcomes[(dep, accepted)] += 1
    return st


SUBS = [("combine_join", combine_join), ("refusals", refusals), ("role_sequences", role_sequences), ("signer_answers", signer_answers), ("signer_contract", signer_contract)]
