"""C05 — wire formats are canonical: parse and serialize are mutually inverse.

E1 over (a) every string within edit distance 1 of the valid seeds of every binary parser of the
registry: whatever the parser accepts must re-serialize to exactly those bytes (PSBT maps: fixed
point + same key-value multiset, read by an independent map reader); (b) every valid object:
parse(serialize) identity, size/weight/id identities, JSON round trip; (c) every CompactSize
encoding; (d) streams: a parser reads exactly its canonical serialization."""
from __future__ import annotations

import hashlib
import io
import json

from mc.core import Stats, lib_errors, shard_round_robin
from checks import codec_common as CC

PROPERTY = "C05"
LEVEL = "exploration"
RULE = ("every byte string within edit distance 1 (B256 substitutions for seeds <= 160 bytes, B16+neighbours above; truncation, "
        "deletion, insertion, extension) of every valid seed of every registry parser (tests/fuzz_test.BINARY_PARSERS as floor, "
        "default-constructed payloads, generated tx/block/key/signature seeds, 73 vendored PSBTs); every 1/3/5/9-byte "
        "CompactSize with boundary payloads; every raw (key,value) atom injected into every map of the vendored PSBTs. "
        "Non-trivial = the parser accepted the mutated string (so canonicity is actually judged)")
ASSUMPTIONS = ["byte strings far from every seed are outside the bound", "models/psbt_map_ref.py reads BIP174's container format (gated on 73 vendored PSBTs)"]
META = {"technique": "bounded-exhaustive edit-distance-1 neighbourhoods of valid encodings: accept => re-serialize identically; raw PSBT map reader as independent oracle",
        "note": "Seeds come from the suite's own samples, default constructors and generated objects; a parser without a valid seed is only covered by C19's contract sweep."}


def _hood_shard(arg):
    name, idx, seed = arg
    E = CC.registry(seed)
    e = E[name]
    data0 = e.seeds[idx]
    st = Stats()
    errs = lib_errors()
    full = len(data0) <= 160

    def judge(tag, data):
        st.evals += 1
        if e.prefix:
            # a stream-element reader: what it consumed is what must be canonical
            bio = io.BytesIO(data)
            try:
                obj = e.parse(bio)
            except errs:
                st.outcomes["refused"] += 1
                return
            except Exception as ex:  # noqa: BLE001
                st.outcomes["foreign:" + type(ex).__name__] += 1
                return
            data = data[:bio.tell()]
            st.outcomes["accepted"] += 1
            st.nontrivial += 1
            back = e.reser(obj)
            if back != data:
                st.violation(f"C05/noncanonical-accepted/{name}/{tag[0]}", {"seed": data0.hex()[:120], "mutation": tag, "consumed": data.hex()[:300]}, back.hex()[:300], "the consumed bytes")
            return
        try:
            obj = e.parse(data)
        except errs:
            st.outcomes["refused"] += 1
            return
        except Exception as ex:  # noqa: BLE001 - C19's subject; not double-reported here
            st.outcomes["foreign:" + type(ex).__name__] += 1
            return
        st.outcomes["accepted"] += 1
        if e.reser is None:
            return
        st.nontrivial += 1
        try:
            back = e.reser(obj)
        except errs as ex:
            st.violation(f"C05/accepted-but-unserializable/{name}", {"seed": data0.hex()[:120], "mutation": tag, "data": data.hex()[:200]}, repr(ex)[:100], "bytes")
            return
        except Exception as ex:  # noqa: BLE001
            st.violation(f"C05/serialize-foreign-exception/{name}", {"mutation": tag, "data": data.hex()[:200]}, repr(ex)[:100], "bytes")
            return
        if e.fixed_point_only:
            try:
                again = e.reser(e.parse(back))
            except Exception as ex:  # noqa: BLE001
                again = repr(ex)[:80]
            if again != back:
                st.violation(f"C05/not-a-fixed-point/{name}", {"mutation": tag, "data": data.hex()[:200]}, str(again)[:100], back.hex()[:100])
        elif back != data:
            st.violation(f"C05/noncanonical-accepted/{name}/{tag[0]}", {"seed": data0.hex()[:120], "mutation": tag, "data": data.hex()[:300]}, back.hex()[:300], "the same bytes")

    judge(("seed",), data0)
    for tag, data in CC.neighbourhood(data0, full):
        judge(tag, data)
    st.sample({"parser": name, "seed": data0.hex()[:80], "len": len(data0), "alphabet": "B256" if full else "B16+"})
    return st


def neighbourhoods(ctx):
    E = CC.registry(ctx.seed)
    shards = [(n, i, ctx.seed) for n, i in CC.shards_for(E, seed_cap=ctx.pick(3, 6))]
    st = ctx.pmap(_hood_shard, shards)
    st.notes["parsers"] = len(E)
    st.notes["parsers_with_seeds"] = sum(1 for e in E.values() if e.seeds)
    st.notes["seeds"] = len(shards)
    return st


# ------------------------------------------------------------------------------------ objects -> bytes -> objects
def objects(ctx):
    E = CC.registry(ctx.seed)
    st = Stats()
    errs = lib_errors()
    for name, e in E.items():
        if e.reser is None:
            continue
        for s in e.seeds:
            st.evals += 1
            try:
                obj = e.parse(s)
            except errs:
                continue
            b = e.reser(obj)
            try:
                obj2 = e.parse(b)
            except errs as ex:
                st.violation(f"C05/own-serialization-refused/{name}", {"seed": s.hex()[:200]}, repr(ex)[:80], "accepted")
                continue
            st.nontrivial += 1
            if hasattr(obj, "__eq__") and not isinstance(obj, (int, bytes, list)) and obj2 != obj:
                st.violation(f"C05/parse-serialize-not-identity/{name}", {"seed": s.hex()[:200]}, repr(obj2)[:100], repr(obj)[:100])
            # size / weight / ids
            if hasattr(obj, "size") and isinstance(getattr(type(obj), "size", None), property):
                if obj.size != len(b):
                    st.violation(f"C05/size/{name}", {"seed": s.hex()[:200]}, obj.size, len(b))
            if name in ("Tx.parse", "Block.parse"):
                stripped = obj.serialize(include_witness=False, check_validity=False)
                full = obj.serialize(include_witness=True, check_validity=False)
                if obj.weight != 3 * len(stripped) + len(full) or obj.vsize != -(-obj.weight // 4):
                    st.violation(f"C05/weight/{name}", {"seed": s.hex()[:200]}, (obj.weight, obj.vsize), 3 * len(stripped) + len(full))
                if name == "Tx.parse":
                    h = lambda x: hashlib.sha256(hashlib.sha256(x).digest()).digest()[::-1]  # noqa: E731
                    if obj.id != h(stripped) or obj.hash != h(full):
                        st.violation("C05/txid-wtxid", {"seed": s.hex()[:200]}, obj.id.hex(), h(stripped).hex())
            # JSON
            cls = type(obj)
            if hasattr(cls, "from_dict") and hasattr(obj, "to_dict"):
                st.evals += 1
                for cv in (True, False):
                    try:
                        d = json.loads(json.dumps(obj.to_dict(check_validity=cv)))
                        back = cls.from_dict(d, check_validity=cv)
                    except errs as ex:
                        if cv:
                            st.outcomes["json-refused-with-validity"] += 1
                            continue
                        st.violation(f"C05/json-roundtrip-refused/{cls.__name__}", {"seed": s.hex()[:200]}, repr(ex)[:100], "equal object")
                        continue
                    except Exception as ex:  # noqa: BLE001
                        st.violation(f"C05/json-roundtrip-foreign-exception/{cls.__name__}", {"seed": s.hex()[:200], "check_validity": cv}, repr(ex)[:100], "equal object")
                        continue
                    if back != obj:
                        st.violation(f"C05/json-roundtrip-differs/{cls.__name__}", {"seed": s.hex()[:200]}, repr(back)[:100], repr(obj)[:100])
            st.outcomes[name] += 1
    # objects no parser produces but the constructors accept: a header time spelled in another zone is the same instant
    from datetime import datetime, timedelta, timezone

    from btclib.block import Block, BlockHeader
    from models.build import block_from, coinbase_tx
    blk0 = block_from([coinbase_tx(1, [b"\x51"])], mine=False)
    h0 = blk0.header
    for minutes in (0, 60, 120, -300, 330, 840, -720, 1):
        tz = timezone(timedelta(minutes=minutes))
        st.evals += 1
        st.nontrivial += 1
        case = {"utc_offset_minutes": minutes}
        try:
            t = h0.time.astimezone(tz)
            h = BlockHeader(h0.version, h0.previous_block_hash, h0.merkle_root, t, h0.bits, h0.nonce, check_validity=False)
        except errs as e:
            st.outcomes[("zone-refused", minutes)] += 1
            continue
        if h.serialize(check_validity=False) != h0.serialize(check_validity=False) or h.hash != h0.hash:
            st.violation("C05/header-time-zone/serialization-depends-on-zone", case, h.serialize(check_validity=False).hex()[136:144], h0.serialize(check_validity=False).hex()[136:144])
        for cv in (False,):
            try:
                back = BlockHeader.from_dict(json.loads(json.dumps(h.to_dict(check_validity=cv))), check_validity=cv)
            except errs as e:
                st.violation("C05/header-time-zone/json-roundtrip-refused", case, repr(e)[:80], "equal header")
                continue
            if back.serialize(check_validity=False) != h.serialize(check_validity=False) or back.hash != h.hash or back != h:
                st.violation("C05/header-time-zone/json-roundtrip-differs", case, str(back.time), str(h.time))
            blk = Block(h, blk0.transactions, check_validity=False)
            try:
                bback = Block.from_dict(json.loads(json.dumps(blk.to_dict(check_validity=False))), check_validity=False)
                if bback.header.hash != h.hash:
                    st.violation("C05/header-time-zone/block-json-roundtrip-differs", case, str(bback.header.time), str(h.time))
            except errs as e:
                st.violation("C05/header-time-zone/block-json-roundtrip-refused", case, repr(e)[:80], "equal block")
    # every vendored valid PSBT (BIP174/370/371/373/375): JSON round trip of the whole and of each map
    from btclib.psbt import Psbt
    from models import psbt_map_ref as PM

    for label, raw in PM.valid_vectors():
        try:
            p = Psbt.parse(raw)
        except errs:
            continue
        for what, obj in [("Psbt", p)] + [("PsbtIn", i) for i in p.inputs] + [("PsbtOut", o) for o in p.outputs]:
            st.evals += 1
            st.nontrivial += 1
            cls = type(obj)
            try:
                back = cls.from_dict(json.loads(json.dumps(obj.to_dict(check_validity=False))), check_validity=False)
            except errs as ex:
                st.violation(f"C05/json-roundtrip-refused/{what}", {"vector": label}, repr(ex)[:120], "equal object")
                continue
            except Exception as ex:  # noqa: BLE001
                st.violation(f"C05/json-roundtrip-foreign-exception/{what}", {"vector": label}, repr(ex)[:120], "equal object")
                continue
            if back != obj:
                st.violation(f"C05/json-roundtrip-differs/{what}", {"vector": label}, repr(back)[:120], repr(obj)[:120])
    return st


# ------------------------------------------------------------------------------------ CompactSize
def compact_size(ctx):
    from btclib import var_int

    st = Stats()
    errs = lib_errors()
    payloads = {1: list(range(0, 0xFD)),
                3: [0, 1, 0xFC, 0xFD, 0xFE, 0xFF, 0x100, 0x7FFF, 0x8000, 0xFFFE, 0xFFFF],
                5: [0, 1, 0xFC, 0xFD, 0xFFFF, 0x10000, 0x10001, 0x7FFFFFFF, 0x80000000, 0xFFFFFFFF],
                9: [0, 1, 0xFD, 0xFFFF, 0x10000, 0xFFFFFFFF, 0x100000000, 0x100000001, 2**63 - 1, 2**63, 2**64 - 1]}
    mins = {1: 0, 3: 0xFD, 5: 0x10000, 9: 0x100000000}
    for width, vals in payloads.items():
        for v in vals:
            enc = bytes([v]) if width == 1 else bytes([{3: 0xFD, 5: 0xFE, 9: 0xFF}[width]]) + v.to_bytes(width - 1, "little")
            canonical = v >= mins[width]
            for tail in (b"", b"\x00", b"\xff\xff"):
                st.evals += 1
                data = enc + tail
                try:
                    # max_size is Core's ReadCompactSize range check (0x02000000 by default): lifted here, judged below
                    got = var_int.parse(io.BytesIO(data), 2**64)
                    ok = True
                except errs:
                    ok = False
                except Exception as e:  # noqa: BLE001
                    st.violation("C05/var_int/foreign-exception", {"data": data.hex()}, repr(e)[:80], "library exception")
                    continue
                if not canonical:
                    st.nontrivial += 1
                st.outcomes[(width, canonical, ok)] += 1
                if ok != canonical:
                    st.violation("C05/var_int/non-minimal-accepted" if ok else "C05/var_int/minimal-refused", {"data": data.hex()}, ok, canonical)
                elif ok and (got != v or var_int.serialize(got) != enc):
                    st.violation("C05/var_int/value", {"data": data.hex()}, got, v)
            # truncations are refused
            for cut in range(len(enc)):
                st.evals += 1
                try:
                    var_int.parse(io.BytesIO(enc[:cut]))
                    st.violation("C05/var_int/short-read-accepted", {"data": enc[:cut].hex()}, "value", "refusal")
                except errs:
                    pass
    # serialize side: every boundary value gets the minimal width; out-of-range values refused
    for v in [0, 0xFC, 0xFD, 0xFFFF, 0x10000, 0xFFFFFFFF, 0x100000000, 2**64 - 1]:
        st.evals += 1
        w = len(var_int.serialize(v))
        exp = 1 if v < 0xFD else 3 if v <= 0xFFFF else 5 if v <= 0xFFFFFFFF else 9
        if w != exp:
            st.violation("C05/var_int/serialize-width", {"v": v}, w, exp)
    for v in (0x02000000, 0x02000001):
        st.evals += 1
        try:
            var_int.parse(var_int.serialize(v))
            ok = True
        except errs:
            ok = False
        if ok != (v <= 0x02000000):
            st.violation("C05/var_int/default-range-check", {"v": v}, ok, v <= 0x02000000)
    for v in (-1, 2**64):
        try:
            var_int.serialize(v)
            st.violation("C05/var_int/serialize-out-of-range", {"v": v}, "bytes", "refusal")
        except errs:
            pass
    return st


# ------------------------------------------------------------------------------------ PSBT maps
def _psbt_shard(arg):
    items = arg
    from btclib.psbt import Psbt
    from models import psbt_map_ref as PM

    st = Stats()
    errs = lib_errors()
    ATOMS_IN = [(b"\x03", bytes(4)), (b"\x03", (1).to_bytes(4, "little")), (b"\x10", bytes(4)), (b"\x11", (500000000).to_bytes(4, "little")), (b"\x12", (1).to_bytes(4, "little")),
                (b"\xfc\x05verif\x00", b"\x01\x02"), (b"\xfc\x05verif\x01", b""), (b"\xf0\xaa", b"\xbb"), (b"\x04", b""), (b"\x05", b""), (b"\x18", bytes(32))]
    ATOMS_OUT = [(b"\xfc\x05verif\x00", b"\x01"), (b"\xf1", b""), (b"\x00", b""), (b"\x03", bytes(8)), (b"\x04", b"")]
    ATOMS_GLOBAL = [(b"\xfc\x05verif\x09", b"\x07"), (b"\xee", b"\x01"), (b"\x03", bytes(4)), (b"\x06", b"\x00"), (b"\x06", b"\x07")]
    for label, raw in items:
        maps = PM.read_maps(raw)
        try:
            p = Psbt.parse(raw)
        except errs as e:
            st.violation("C05/psbt/valid-vector-refused", {"vector": label}, repr(e)[:100], "accepted")
            continue
        nin, nout = len(p.inputs), len(p.outputs)

        def judge(kind, rawx, case):
            st.evals += 1
            try:
                q = Psbt.parse(rawx)
            except errs:
                st.outcomes[(kind, "refused")] += 1
                return
            except Exception as e:  # noqa: BLE001
                st.outcomes[(kind, "foreign")] += 1
                return
            st.nontrivial += 1
            st.outcomes[(kind, "accepted")] += 1
            try:
                out = q.serialize()
            except errs as e:
                st.violation("C05/psbt/accepted-but-unserializable", case, repr(e)[:100], "bytes")
                return
            try:
                m_in = PM.multiset(PM.read_maps(rawx))
                m_out = PM.multiset(PM.read_maps(out))
            except AssertionError:
                return
            if m_in != m_out:
                lost = [(i, k.hex(), v.hex()[:40]) for i, (a, b) in enumerate(zip(m_in, m_out)) for (k, v) in a if (k, v) not in b]
                gained = [(i, k.hex(), v.hex()[:40]) for i, (a, b) in enumerate(zip(m_in, m_out)) for (k, v) in b if (k, v) not in a]
                first = (lost or gained)[0]
                keytype = first[1][:2]
                mi_ = first[0]
                mapkind = "global" if mi_ == 0 else ("input" if mi_ <= nin else "output")
                orig = PM.read_maps(rawx)[mi_]
                finalized = mapkind == "input" and any(k[:1] in (b"\x07", b"\x08") for k, _ in orig)
                empty = bool(lost) and all(v == "" for _, _, v in lost)
                key = f"C05/psbt/key-value-not-kept/{mapkind}-key-{keytype}" + ("-empty-value" if empty else "") + ("-finalized-input" if finalized and not empty else "")
                st.violation(key, dict(case, lost=lost[:4], gained=gained[:4]), "different multiset", "same multiset")
                return
            try:
                again = Psbt.parse(out).serialize()
            except Exception as e:  # noqa: BLE001
                again = repr(e).encode()
            if again != out:
                st.violation("C05/psbt/not-a-fixed-point", case, again.hex()[:80], out.hex()[:80])

        judge("vector", raw, {"vector": label})
        # atom injection: one extra (key, value) pair in each map, if that key type is absent there
        for mi, m in enumerate(maps):
            atoms = ATOMS_GLOBAL if mi == 0 else ATOMS_IN if mi <= nin else ATOMS_OUT
            for k, v in atoms:
                if any(kk == k for kk, _ in m):
                    continue
                m2 = [list(x) for x in maps]
                m2[mi] = list(m) + [(k, v)]
                judge("atom", PM.write_maps(m2), {"vector": label, "map": mi, "key": k.hex(), "value": v.hex()})
            # pair order reversed, a pair duplicated, a pair dropped
            if len(m) > 1:
                m2 = [list(x) for x in maps]
                m2[mi] = list(reversed(m))
                judge("reorder", PM.write_maps(m2), {"vector": label, "map": mi, "op": "reverse"})
                m2 = [list(x) for x in maps]
                m2[mi] = list(m) + [m[0]]
                judge("dup", PM.write_maps(m2), {"vector": label, "map": mi, "op": "duplicate-key"})
    return st


def psbt_maps(ctx):
    from models import psbt_map_ref as PM

    vec = PM.valid_vectors()
    return ctx.pmap(_psbt_shard, shard_round_robin(vec, 64))


# ------------------------------------------------------------------------------------ streams
def streams(ctx):
    E = CC.registry(ctx.seed)
    st = Stats()
    errs = lib_errors()
    for name, e in E.items():
        if name in ("script.parse", "taproot.parse"):
            continue  # a script is the whole buffer by definition
        for s in e.seeds[:3]:
            for tail in (b"\xaa\xbb\xcc", b"\x00" * 40):
                st.evals += 1
                bio = io.BytesIO(s + tail)
                try:
                    e.parse(bio)
                except errs:
                    st.outcomes["stream-refused"] += 1
                    continue
                except Exception:  # noqa: BLE001
                    st.outcomes["stream-unsupported"] += 1
                    continue
                st.nontrivial += 1
                pos = bio.tell()
                st.outcomes["stream-ok"] += 1
                if pos != len(s):
                    st.violation(f"C05/stream/cursor/{name}", {"seed": s.hex()[:120], "tail": tail.hex()[:12]}, pos, len(s))
    return st


# ------------------------------------------------------------------------------------------------ vector bounds
def count_bounds(ctx):
    """Messages that carry a vector: the object boundary and the parser agree at every count around the bound.

    For k in {0, 1, max-1, max, max+1}: if the library builds the object of k entries, its serialization parses back to an
    equal object; and the bytes 'count || entry * k', assembled here, are accepted by the parser exactly when the object
    of k entries is one the library builds."""
    from btclib.block import BlockHeader
    from btclib.p2p.address import Addr, TimestampedNetworkAddress
    from btclib.p2p.addrv2 import AddrV2, NetworkAddressV2
    from btclib.p2p.inventory import GetData, Headers, Inv, Inventory, NotFound
    from models.build import block_from, coinbase_tx

    st = Stats()
    errs = lib_errors()
    hdr = block_from([coinbase_tx(1, [b"\x51"])], mine=False).header

    def cs(n):
        return bytes([n]) if n < 0xFD else b"\xfd" + n.to_bytes(2, "little") if n <= 0xFFFF else b"\xfe" + n.to_bytes(4, "little")

    kinds = [("AddrV2", AddrV2, NetworkAddressV2(), 1000), ("Addr", Addr, TimestampedNetworkAddress(), 1000), ("Inv", Inv, Inventory(1, bytes(range(32))), 50000),
             ("GetData", GetData, Inventory(2, bytes(32)), 50000), ("NotFound", NotFound, Inventory(1, bytes(32)), 50000), ("Headers", Headers, hdr, 2000)]
    for name, cls, entry, bound in kinds:
        one = cls([entry]).serialize()
        entry_bytes = one[1:]
        # GetData and NotFound are Inv's code under another command name: the 50 000 bound is walked once, on Inv
        counts = (0, 1, 2, 252, 253) if name in ("GetData", "NotFound") else (0, 1, 2, 252, 253, bound - 1, bound, bound + 1)
        for k in counts:
            st.evals += 1
            st.nontrivial += 1
            case = {"message": name, "count": k, "bound": bound}
            try:
                obj = cls([entry] * k)
                built = True
            except errs:
                built = False
            wire = cs(k) + entry_bytes * k
            try:
                back = cls.parse(wire)
                parsed = True
            except errs:
                parsed = False
            except Exception as e:  # noqa: BLE001
                st.violation(f"C05/count-bounds/foreign-exception/{name}", case, repr(e)[:80], "library refusal")
                continue
            if built != parsed:
                st.violation(f"C05/count-bounds/object-and-parser-disagree/{name}", case, {"object": built, "parser": parsed}, "the same verdict")
                continue
            if built:
                if obj.serialize() != wire:
                    st.violation(f"C05/count-bounds/serialization-differs/{name}", case, obj.serialize()[:12].hex(), wire[:12].hex())
                if back != obj or back.serialize() != wire:
                    st.violation(f"C05/count-bounds/round-trip-differs/{name}", case, "differs", "equal")
            if k in (bound, bound + 1) and built != (k <= bound):
                st.violation(f"C05/count-bounds/bound-misplaced/{name}", case, built, k <= bound)
            st.outcomes[(name, built)] += 1
    return st


# ------------------------------------------------------------------------------------------------ DER, structure-aware
def der_structure(ctx):
    """The DER signature parser over the structure-aware family of C02 (every padding and length form of each integer, every
    outer length, single and double substitutions), judged by BIP66's IsValidSignatureEncoding and by 'one signature, one
    encoding': the same exploration, reported under this property because canonicity of a wire format is C05's clause."""
    from checks import c02

    src = c02.der(ctx)
    st = Stats()
    st.merge(src)
    st.viol = {k.replace("C02/der/", "C05/der/"): v for k, v in src.viol.items()}
    return st


SUBS = [
    ("neighbourhoods", neighbourhoods),
    ("objects", objects),
    ("count_bounds", count_bounds),
    ("der_structure", der_structure),
    ("compact_size", compact_size),
    ("psbt_maps", psbt_maps),
    ("streams", streams),
]
