"""C09 — signature hashes equal the legacy, BIP143 and BIP341 definitions.

E1: transactions from a field product x every input index x every hash-type byte (and 32-bit
patterns) x script codes with OP_CODESEPARATOR inside/outside pushes x annex x tapleaf extension,
against models/sighash_ref.py (gated on Core's sighash.json, BIP143 and BIP341 vectors).
E2: every sequence (length <= 3) of PsbtView calls — the view keeps a stream cursor and caches."""
from __future__ import annotations

import hashlib
import itertools

from mc.core import Stats, lib_errors, shard_round_robin
from models import sighash_ref as S

PROPERTY = "C09"
LEVEL = "exploration"
RULE = ("transactions with 1..3 inputs x 0..3 outputs x version/locktime/sequence boundaries x every input index x all 256 "
        "hash-type bytes (+ 32-bit patterns) x 9 script codes (code separators at start/end/inside pushes/after a "
        "truncated push) for legacy; BIP143 with and without PrecomputedTxData; BIP341 with annex absent/1/301 bytes x "
        "key path / two tapleaf extensions; from_tx dispatch per prevout type; the same through Psbt v0/v2 and every "
        "PsbtView call sequence of length <= 3. Non-trivial = SINGLE out of range, ANYONECANPAY, undefined hash type, "
        "code separator present, annex or extension present")
ASSUMPTIONS = ["models/sighash_ref.py is Core's SignatureHash / BIP143 / BIP341 (gated on 508 published vectors)",
               "transactions with more than 3 inputs/outputs are outside the bound (the algorithms are uniform in the count)"]
META = {"technique": "bounded-exhaustive enumeration of (transaction shape, input index, hash type, script code, annex, extension) vs a gated reference; explicit-state search over PsbtView call sequences",
        "note": "Trusts models/sighash_ref.py (gated on Core's sighash.json, the BIP143 example and BIP341 wallet vectors)."}

SPK_TR = b"\x51\x20" + bytes(range(32))
SPK_W = b"\x00\x14" + bytes(20)
CODES = [b"\x51", b"\xab\x51", b"\x51\xab", b"\x01\xab\x51", b"\x51\xab\xab\x52\xab", b"\x4c\x02\xab\xab\xab\x51", b"\x51\x02\xab", b"\x4d\xab", b""]


def mk(tx):
    from btclib.tx import OutPoint, Tx, TxIn, TxOut

    vin = [TxIn(OutPoint(i[0], i[1], check_validity=False), i[2], i[3], check_validity=False) for i in tx["ins"]]
    vout = [TxOut(o[0], o[1], check_validity=False) for o in tx["outs"]]
    return Tx(tx["version"], tx["locktime"], vin, vout, check_validity=False)


def shape(nin, nout, version, lock, seed=0):
    return {"version": version, "locktime": lock,
            "ins": [(bytes([j + 1 + seed % 7]) * 32, (0, 1, 0xFFFFFFFF)[j % 3], b"", (0xFFFFFFFF, 0, 0xFFFFFFFE)[j % 3]) for j in range(nin)],
            "outs": [((0, 1, 2100000000000000)[j % 3], (SPK_W, SPK_TR, b"\x6a")[j % 3]) for j in range(nout)]}


def _digest_shard(arg):
    shapes, seed = arg
    from btclib.exceptions import BTClibValueError
    from btclib.script import sig_hash
    from btclib.tx import TxOut

    st = Stats()
    for nin, nout, version, lock in shapes:
        tx = shape(nin, nout, version, lock, seed)
        T = mk(tx)
        prev = [((5, 2100000000000000, 0)[j % 3], (SPK_TR, SPK_W, b"\x51")[j % 3]) for j in range(nin)]
        prevouts = [TxOut(a, s, check_validity=False) for a, s in prev]
        pre = sig_hash.PrecomputedTxData(T, prevouts)
        for idx in range(nin):
            for ht in list(range(256)) + [0x100, 0x101, 0xFFFFFF03, 0x80000081, 0x00010083, 0xFF000002]:
                for sc in CODES:
                    st.evals += 1
                    try:
                        got = sig_hash.legacy(sc, T, idx, ht)
                    except Exception as e:  # noqa: BLE001
                        got = repr(e)[:80]
                    exp = S.legacy(tx, idx, sc, ht)
                    if ht & 0x80 or (ht & 0x1F == 3 and idx >= nout) or b"\xab" in sc:
                        st.nontrivial += 1
                    if got != exp:
                        st.violation("C09/legacy", {"nin": nin, "nout": nout, "version": version, "lock": lock, "idx": idx, "ht": hex(ht), "script_code": sc}, got, exp)
                for sc in CODES[:4]:
                    exp = S.segwit_v0(tx, idx, sc, ht, prev[idx][0])
                    for p in (None, pre):
                        st.evals += 1
                        try:
                            got = sig_hash.segwit_v0(sc, T, idx, ht, prev[idx][0], p)
                        except Exception as e:  # noqa: BLE001
                            got = repr(e)[:80]
                        if got != exp:
                            st.violation("C09/bip143" + ("-precomputed" if p else ""), {"nin": nin, "nout": nout, "idx": idx, "ht": hex(ht), "script_code": sc}, got, exp)
            for ht in range(256):
                for annex in (b"", b"\x50", b"\x50" + bytes(300)):
                    for ext in (b"", bytes(32) + b"\x00" + b"\xff\xff\xff\xff", bytes(range(32)) + b"\x00" + (3).to_bytes(4, "little")):
                        exp = S.taproot(tx, idx, prev, ht, annex, ext)
                        for p in (None, pre):
                            st.evals += 1
                            try:
                                got = sig_hash.taproot(T, idx, prevouts, ht, int(bool(ext)), annex, ext, p)
                            except BTClibValueError:
                                got = None
                            except Exception as e:  # noqa: BLE001
                                got = repr(e)[:80]
                            if exp is None or annex or ext:
                                st.nontrivial += 1
                            st.outcomes[("taproot", exp is None)] += 1
                            if got != exp:
                                st.violation("C09/bip341" + ("-precomputed" if p else "") + ("-undefined-type-accepted" if exp is None and isinstance(got, bytes) else ""),
                                             {"nin": nin, "nout": nout, "idx": idx, "ht": hex(ht), "annex_len": len(annex), "ext_len": len(ext)}, got, exp)
        # out-of-range input index is refused
        for bad in (-1, nin, nin + 5):
            st.evals += 1
            for name, f in (("legacy", lambda: sig_hash.legacy(b"\x51", T, bad, 1)), ("segwit_v0", lambda: sig_hash.segwit_v0(b"\x51", T, bad, 1, 0)),
                            ("taproot", lambda: sig_hash.taproot(T, bad, prevouts, 0, 0, b"", b""))):
                try:
                    f()
                    st.violation("C09/index-out-of-range-answered/" + name, {"nin": nin, "idx": bad}, "digest", "refusal")
                except lib_errors():
                    pass
                except Exception as e:  # noqa: BLE001
                    st.violation("C09/index-out-of-range-foreign-exception/" + name, {"nin": nin, "idx": bad}, repr(e)[:80], "library exception")
    if shapes:
        st.sample({"shape": shapes[0], "hash_types": "0..255 + 32-bit patterns", "script_codes": [c.hex() for c in CODES]})
    return st


def digests(ctx):
    vl = [(1, 0), (2, 499999999), (0xFFFFFFFF, 0xFFFFFFFF), (0, 500000000), (2**31, 2**31)]
    if ctx.quick:
        vl = vl[:3]
    shapes = [(nin, nout, v, l) for nin, nout in itertools.product((1, 2, 3), (0, 1, 2, 3)) for v, l in vl]
    return ctx.pmap(_digest_shard, [(sh, ctx.seed) for sh in shard_round_robin(shapes, 64)])


def negative_control(ctx):
    """The model is sharp enough to see a one-byte change: a perturbed model must disagree with the library."""
    from btclib.script import sig_hash
    from btclib.tx import TxOut

    st = Stats()
    tx = shape(2, 2, 2, 0)
    T = mk(tx)
    prev = [(5, SPK_TR), (7, SPK_W)]
    prevouts = [TxOut(a, s, check_validity=False) for a, s in prev]
    base = sig_hash.taproot(T, 0, prevouts, 0x83, 0, b"\x50\x01", b"")
    st.evals += 3
    st.nontrivial += 3
    from mc.core import HarnessError
    if base != S.taproot(tx, 0, prev, 0x83, b"\x50\x01", b""):
        st.violation("C09/control/base-case", {}, base, "model")
    if S.taproot(tx, 0, prev, 0x83, b"\x50\x02", b"") == base or S.taproot(tx, 0, [(6, SPK_TR), (7, SPK_W)], 0x83, b"\x50\x01", b"") == base:
        raise HarnessError("sighash model does not depend on annex/amount: oracle is blind")
    st.outcomes["control-ok"] += 1
    return st


# ------------------------------------------------------------------------------ from_tx dispatch
def from_tx_dispatch(ctx):
    from btclib.hashes import hash160
    from btclib.script import sig_hash
    from btclib.tx import TxOut

    st = Stats()
    errs = lib_errors()
    pk = bytes.fromhex("02c6047f9441ed7d6d3045406e95c07cd85c778e4b8cef3ca7abac09b95c709ee5")
    h = hash160(pk)
    p2pkh = b"\x76\xa9\x14" + h + b"\x88\xac"
    p2wpkh = b"\x00\x14" + h
    redeem = b"\x51" + b"\x21" + pk + b"\x51\xae"
    p2sh = b"\xa9\x14" + hash160(redeem) + b"\x87"
    wscript = b"\x21" + pk + b"\xac"
    p2wsh = b"\x00\x20" + hashlib.sha256(wscript).digest()
    p2sh_p2wpkh = b"\xa9\x14" + hash160(p2wpkh) + b"\x87"
    wscript_cs = b"\x51\xab" + wscript
    p2wsh_cs = b"\x00\x20" + hashlib.sha256(wscript_cs).digest()
    cases = [
        ("p2pkh", p2pkh, b"", [], lambda tx, i, ht, amt: S.legacy(tx, i, p2pkh, ht)),
        ("bare", b"\x51", b"", [], lambda tx, i, ht, amt: S.legacy(tx, i, b"\x51", ht)),
        ("p2wpkh", p2wpkh, b"", [], lambda tx, i, ht, amt: S.segwit_v0(tx, i, p2pkh, ht, amt)),
        ("p2sh", p2sh, bytes([len(redeem)]) + redeem, [], lambda tx, i, ht, amt: S.legacy(tx, i, redeem, ht)),
        ("p2sh-p2wpkh", p2sh_p2wpkh, bytes([len(p2wpkh)]) + p2wpkh, [], lambda tx, i, ht, amt: S.segwit_v0(tx, i, p2pkh, ht, amt)),
        ("p2wsh", p2wsh, b"", [b"", wscript], lambda tx, i, ht, amt: S.segwit_v0(tx, i, wscript, ht, amt)),
        ("p2wsh-codesep0", p2wsh_cs, b"", [wscript_cs], lambda tx, i, ht, amt: S.segwit_v0(tx, i, wscript_cs, ht, amt)),
        ("p2tr", SPK_TR, b"", [bytes(64)], lambda tx, i, ht, amt: S.taproot(tx, i, None, ht)),
    ]
    from btclib.script.witness import Witness
    for name, spk, script_sig, wit, model in cases:
        for nin in (1, 2):
            for idx in range(nin):
                tx = shape(nin, 2, 2, 0, ctx.seed)
                ins = list(tx["ins"])
                ins[idx] = (ins[idx][0], ins[idx][1], script_sig, ins[idx][3])
                tx["ins"] = ins
                T = mk(tx)
                if wit:
                    T.vin[idx].script_witness = Witness(wit)
                prev = [(1000 + j, spk if j == idx else SPK_W) for j in range(nin)]
                prevouts = [TxOut(a, s, check_validity=False) for a, s in prev]
                for ht in ((0, 1, 2, 3, 0x81, 0x82, 0x83) if name == "p2tr" else (1, 2, 3, 0x81, 0x82, 0x83)):
                    st.evals += 1
                    if name == "p2tr":
                        exp = S.taproot(tx, idx, prev, ht)
                    else:
                        exp = model(tx, idx, ht, prev[idx][0])
                    try:
                        got = sig_hash.from_tx(prevouts, T, idx, ht)
                    except errs as e:
                        got = "refused: " + str(e)[:60]
                    st.nontrivial += 1
                    st.outcomes[name] += 1
                    if got != exp:
                        st.violation("C09/from_tx/" + name, {"nin": nin, "idx": idx, "ht": hex(ht)}, got, exp)
    # taproot witness shapes: key path and script path, each with and without an annex (BIP341: the last element, when
    # there are at least two and it starts with 0x50); the digest commits to the annex and, on the script path, to the leaf
    from models import taproot_ref as TRm
    leaf_script = b"\x20" + bytes(range(32)) + b"\xac"
    control = bytes([0xC0]) + bytes(range(1, 33))
    control_deep = control + bytes(32)
    annexes = [None, b"\x50", b"\x50" + bytes(10), b"\x50" * 70]
    for nin in (1, 2):
        for idx in range(nin):
            for path in ("key", "script", "script-deep", "script-c2"):
                for annex in annexes:
                    tx = shape(nin, 2, 2, 0, ctx.seed)
                    T = mk(tx)
                    ctl = {"script": control, "script-deep": control_deep, "script-c2": bytes([0xC2]) + control[1:]}.get(path)
                    wit = [bytes(64)] if path == "key" else [bytes(64), leaf_script, ctl]
                    if annex is not None:
                        wit = wit + [annex]
                    T.vin[idx].script_witness = Witness(wit)
                    prev = [(1000 + j, SPK_TR if j == idx else SPK_W) for j in range(nin)]
                    prevouts = [TxOut(a, sc, check_validity=False) for a, sc in prev]
                    ext = b"" if path == "key" else S.tapleaf_ext(TRm.leaf_hash(ctl[0] & 0xFE, leaf_script))
                    for ht in (0, 1, 2, 3, 0x81, 0x82, 0x83):
                        st.evals += 1
                        st.nontrivial += 1
                        exp = S.taproot(tx, idx, prev, ht, annex=annex or b"", ext=ext)
                        try:
                            got = sig_hash.from_tx(prevouts, T, idx, ht)
                        except errs as e:
                            got = None
                        st.outcomes[("p2tr", path, annex is not None)] += 1
                        if got != exp:
                            st.violation(f"C09/from_tx/p2tr-{path}{'-annex' if annex is not None else ''}", {"nin": nin, "idx": idx, "ht": hex(ht), "annex_len": len(annex) if annex else None}, got, exp)
    # refusals: p2sh with no redeem script in script_sig; prevouts of the wrong length
    tx = shape(1, 1, 2, 0)
    T = mk(tx)
    for name, f in (("p2sh-empty-script-sig", lambda: sig_hash.from_tx([TxOut(1, p2sh, check_validity=False)], T, 0, 1)),
                    ("prevouts-too-few", lambda: sig_hash.from_tx([], T, 0, 1)),
                    ("prevouts-too-many", lambda: sig_hash.from_tx([TxOut(1, p2pkh, check_validity=False)] * 2, T, 0, 1))):
        st.evals += 1
        try:
            f()
            st.violation("C09/from_tx/answers-" + name, {}, "digest", "refusal")
        except errs:
            pass
        except Exception as e:  # noqa: BLE001
            st.violation("C09/from_tx/foreign-exception-" + name, {}, repr(e)[:80], "library exception")
    return st


# ------------------------------------------------------------------------------ through a PSBT and a PsbtView
def _psbt_cases(seed):
    """[(label, psbt, tx_dict, prev, kinds)] — PSBT v0 and v2 of mixed p2wpkh / p2tr / p2pkh inputs."""
    from btclib.hashes import hash160
    from btclib.psbt import Psbt
    from btclib.tx import TxOut

    pk = bytes.fromhex("02c6047f9441ed7d6d3045406e95c07cd85c778e4b8cef3ca7abac09b95c709ee5")
    h = hash160(pk)
    p2pkh = b"\x76\xa9\x14" + h + b"\x88\xac"
    p2wpkh = b"\x00\x14" + h
    out = []
    for kinds in (("wpkh",), ("tr",), ("wpkh", "tr"), ("tr", "wpkh", "tr"), ("pkh", "wpkh")):
        nin = len(kinds)
        tx = shape(nin, 2, 2, 0, seed)
        # previous transactions for the non-witness input
        prevtx = {"version": 1, "locktime": 0, "ins": [(bytes([9]) * 32, 0, b"\x51", 0xFFFFFFFF)], "outs": [(5000, p2pkh), (6000, p2pkh)]}
        PT = mk(prevtx)
        ins = list(tx["ins"])
        prev = []
        for j, k in enumerate(kinds):
            if k == "pkh":
                ins[j] = (PT.id, 1, b"", ins[j][3])
                prev.append((6000, p2pkh))
            elif k == "wpkh":
                prev.append((1000 + j, p2wpkh))
            else:
                prev.append((2000 + j, SPK_TR))
        tx["ins"] = ins
        T = mk(tx)
        p = Psbt.from_tx(T)
        for j, k in enumerate(kinds):
            if k == "pkh":
                p.inputs[j].non_witness_utxo = PT
            else:
                p.inputs[j].witness_utxo = TxOut(prev[j][0], prev[j][1], check_validity=False)
        p.assert_valid()
        for ver, q in (("v0", p), ("v2", p.to_v2())):
            out.append((f"{'+'.join(kinds)}/{ver}", q, tx, prev, kinds, p2pkh))
    return out


def psbt_and_view(ctx):
    from btclib.psbt import psbt as psbt_mod
    from btclib.psbt.psbt_view import PsbtView

    st = Stats()
    errs = lib_errors()
    for label, p, tx, prev, kinds, p2pkh in _psbt_cases(ctx.seed):
        raw = p.serialize()
        expd = {}
        for j, k in enumerate(kinds):
            for ht in ((None, 1, 2, 3, 0x81, 0x83) if k != "tr" else (None, 0, 1, 3, 0x81, 0x83)):
                eff = ht if ht is not None else (1 if k != "tr" else 0)
                if k == "pkh":
                    exp = S.legacy(tx, j, p2pkh, eff)
                elif k == "wpkh":
                    exp = S.segwit_v0(tx, j, p2pkh, eff, prev[j][0])
                else:
                    exp = S.taproot(tx, j, prev, eff)
                expd[(j, ht)] = exp
                st.evals += 1
                f = psbt_mod.taproot_sig_hash if k == "tr" else psbt_mod.ecdsa_sig_hash
                try:
                    got = f(p, j, hash_type=ht)
                except errs:
                    got = None  # refusal, which is what the model spells None (SINGLE without a matching output)
                if got != exp:
                    st.violation("C09/psbt/" + ("taproot" if k == "tr" else "ecdsa"), {"psbt": label, "input": j, "ht": ht}, got, exp)
                st.nontrivial += 1
                # the same with the input itself asking for a type: an explicit argument wins (0 is a type, not an absence),
                # no argument means the input's own
                import copy
                for fv in ((1, 0x83, 2) if k != "tr" else (0, 1, 0x83, 2)):
                    q = copy.deepcopy(p)
                    q.inputs[j].sig_hash_type = fv
                    eff2 = ht if ht is not None else fv
                    if k == "pkh":
                        exp2 = S.legacy(tx, j, p2pkh, eff2)
                    elif k == "wpkh":
                        exp2 = S.segwit_v0(tx, j, p2pkh, eff2, prev[j][0])
                    else:
                        exp2 = S.taproot(tx, j, prev, eff2)
                    st.evals += 1
                    st.nontrivial += 1
                    for via in ("object", "view"):
                        try:
                            if via == "object":
                                got2 = f(q, j, hash_type=ht)
                            else:
                                v2 = PsbtView(q.serialize())
                                got2 = (v2.taproot_sig_hash if k == "tr" else v2.ecdsa_sig_hash)(j, hash_type=ht)
                        except errs:
                            got2 = None
                        if got2 != exp2:
                            st.violation("C09/psbt/" + ("taproot" if k == "tr" else "ecdsa") + "/input-field-vs-argument", {"psbt": label, "input": j, "argument": ht, "field": fv, "via": via}, got2, exp2)
        # E2: every sequence of view calls of length <= 3; each answer must be the parsed object's, whatever was read before
        nin, nout = len(kinds), 2
        calls = {}
        for j in range(nin):
            calls[f"input({j})"] = (lambda v, j=j: v.input(j).serialize(), p.inputs[j].serialize())
            k = kinds[j]
            if k == "tr":
                calls[f"taproot_sig_hash({j})"] = (lambda v, j=j: v.taproot_sig_hash(j), expd[(j, None)])
                calls[f"taproot_sig_hash({j},0x83)"] = (lambda v, j=j: v.taproot_sig_hash(j, hash_type=0x83), expd[(j, 0x83)])
            else:
                calls[f"ecdsa_sig_hash({j})"] = (lambda v, j=j: v.ecdsa_sig_hash(j), expd[(j, None)])
                calls[f"ecdsa_sig_hash({j},0x83)"] = (lambda v, j=j: v.ecdsa_sig_hash(j, hash_type=0x83), expd[(j, 0x83)])
        for j in range(nout):
            calls[f"output({j})"] = (lambda v, j=j: v.output(j).serialize(), p.outputs[j].serialize())
        calls["tx"] = (lambda v: v.tx.serialize(include_witness=False, check_validity=False), p.tx.serialize(include_witness=False, check_validity=False))
        calls["prevouts"] = (lambda v: [(o.value, o.script_pub_key.script) for o in v.prevouts], [(a, s) for a, s in prev])
        calls["lock_time"] = (lambda v: v.lock_time, p.tx.lock_time)
        names = sorted(calls)
        depth = ctx.pick(3 if nin <= 2 else 2, 3)
        seen_states = set()
        for d in range(1, depth + 1):
            for seq in itertools.product(names, repeat=d):
                v = PsbtView(raw)
                for nm in seq:
                    st.transitions += 1
                    st.evals += 1
                    f, exp = calls[nm]
                    try:
                        got = f(v)
                    except errs:
                        got = None
                    if got != exp:
                        st.violation("C09/psbt-view/" + nm.split("(")[0], {"psbt": label, "sequence": seq, "call": nm}, got, exp)
                        break
                seen_states.add(seq)
        st.states += len(seen_states)
        st.outcomes[label] += 1
    return st


SUBS = [
    ("digests", digests),
    ("negative_control", negative_control),
    ("from_tx_dispatch", from_tx_dispatch),
    ("psbt_and_view", psbt_and_view),
]
