"""C06 — text encodings and addresses round-trip and accept exactly what the specs accept.

E1 against models/addr_ref.py (BIP173/350 reference decoder transcribed, big-integer Base58Check):
all witness versions x program lengths x HRPs with payload mutations re-checksummed by the reference
encoder (so only the rule under test can refuse); every single-character substitution, case pattern
and non-ASCII look-alike of valid strings; exhaustive base conversion; address <-> scriptPubKey
inverse on every type and network; key/WIF/xkey prefixes; RIPEMD160 at every padding boundary."""
from __future__ import annotations

import hashlib
import itertools

from mc.core import Stats, lib_errors, shard_round_robin
from models import addr_ref as A

PROPERTY = "C06"
LEVEL = "exploration"
RULE = ("bech32: witness versions 0..16 (+17, 31) x program lengths 1..41 x hrps {bc,tb,bcrt} x 9 re-checksummed payload "
        "mutations x both checksum constants x 3 case forms; every single-character substitution over the 32-symbol alphabet + "
        "{1,b,i,o,upper-case,Kelvin sign, dotless i, long s} of 12 addresses; base conversion 8->5 and 5->8 on every input of "
        "<= 3 symbols; Base58Check: payload patterns, every single substitution over 58+6 characters, transpositions, "
        "truncations; every script type x 5 networks x address<->script; WIF/xkey version prefixes x network x compression; "
        "SLIP132: every version field of every network x private/public x root/depth-3 x address_from_xkey/address_from_xpub and the three per-purpose account-key helpers x 4 paths x check_root_xkey, vs the BIP32 reference derivation; "
        "ripemd160 on every length 0..300 x 2 fills. Non-trivial = the reference refuses the string, or a boundary length")
ASSUMPTIONS = ["models/addr_ref.py is BIP173/BIP350/Base58Check (gated on the BIPs' valid and invalid vectors)",
               "3 or more simultaneous character errors are outside the bound (the BCH guarantee is the BIP's)", "hashlib's ripemd160 (OpenSSL) is the reference for the pure-Python one"]
META = {"technique": "bounded-exhaustive enumeration of versions x lengths x networks, re-checksummed payload mutations and single-character corruptions vs transcribed reference decoders",
        "note": "Trusts models/addr_ref.py (gated on BIP173/350 vectors)."}

NETS = ["mainnet", "testnet", "regtest", "signet", "testnet4"]
HRP = {"mainnet": "bc", "testnet": "tb", "regtest": "bcrt", "signet": "tb", "testnet4": "tb"}


def lib_witness(addr):
    from btclib import b32

    try:
        v, prog, net = b32.witness_from_address(addr)
        return v, prog, net
    except lib_errors():
        return None
    except Exception as e:  # noqa: BLE001
        return "foreign " + type(e).__name__


def _bech32_shard(arg):
    combos = arg
    from btclib import b32

    st = Stats()
    for hrp, ver, L in combos:
        prog = bytes((7 * i + ver + L) % 256 for i in range(L))
        data = [ver] + A.convertbits(prog, 8, 5)
        for const in (A.BECH32_CONST, A.BECH32M_CONST):
            variants = {"plain": data, "extra-zero-group": data + [0], "extra-one-group": data + [1], "dropped-group": data[:-1], "pad-bit-set": data[:-1] + [data[-1] | 1],
                        "version+1": [min(ver + 1, 31)] + data[1:], "version-31": [31] + data[1:], "two-extra-zero-groups": data + [0, 0], "empty-program": [ver]}
            for name, d in variants.items():
                s = A.bech32_encode(hrp, d, const)
                for form, fname in ((s, "lower"), (s.upper(), "upper"), (s[:3] + s[3:].upper(), "mixed")):
                    st.evals += 1
                    exp = A.segwit_decode(hrp, form)
                    got = lib_witness(form)
                    if exp is None:
                        st.nontrivial += 1
                    ok = (got is None) if exp is None else (isinstance(got, tuple) and got[:2] == exp)
                    st.outcomes[(name, exp is not None)] += 1
                    if not ok:
                        st.violation(f"C06/bech32/{name}" + ("-accepted" if exp is None else "-refused-or-wrong"), {"address": form, "hrp": hrp, "version": ver, "len": L, "case": fname,
                                                                                                                   "const": "bech32" if const == 1 else "bech32m"}, got, exp)
                    # what is accepted re-encodes to the same (lower-case) string
                    if exp is not None and isinstance(got, tuple):
                        back = b32.address_from_witness(got[0], got[1], got[2])
                        if back != form.lower():
                            st.violation("C06/bech32/reencode-differs", {"address": form}, back, form.lower())
    if combos:
        st.sample({"hrp": combos[0][0], "version": combos[0][1], "program_len": combos[0][2]})
    return st


def bech32_matrix(ctx):
    lens = list(range(1, 42))
    combos = [(h, v, L) for h in ("bc", "tb", "bcrt") for v in list(range(17)) + [17, 31] for L in lens]
    return ctx.pmap(_bech32_shard, shard_round_robin(combos, 64))


def _subst_shard(arg):
    addrs = arg
    st = Stats()
    alphabet = list(A.CH) + ["1", "b", "i", "o", "B", "Q", "K", "ı", "ſ", " ", "\x00", "é"]
    for hrp, addr in addrs:
        for form in (addr, addr.upper()):
            for i in range(len(form)):
                for c in alphabet:
                    cc = c.upper() if form.isupper() and c.isascii() and c.isalpha() else c
                    if cc == form[i]:
                        continue
                    s = form[:i] + cc + form[i + 1:]
                    st.evals += 1
                    st.nontrivial += 1
                    exp = A.segwit_decode(hrp, s)
                    got = lib_witness(s)
                    ok = (got is None) if exp is None else (isinstance(got, tuple) and got[:2] == exp)
                    if not ok:
                        kind = "non-ascii" if not cc.isascii() else "ascii"
                        st.violation(f"C06/bech32/single-substitution-{kind}", {"address": s, "position": i, "char": repr(cc)}, got, exp)
            # adjacent transpositions, truncations, extension
            for i in range(len(form) - 1):
                s = form[:i] + form[i + 1] + form[i] + form[i + 2:]
                if s == form:
                    continue
                st.evals += 1
                exp = A.segwit_decode(hrp, s)
                got = lib_witness(s)
                if ((got is None) if exp is None else (isinstance(got, tuple) and got[:2] == exp)) is False:
                    st.violation("C06/bech32/transposition", {"address": s}, got, exp)
            for i in range(len(form)):
                st.evals += 1
                s = form[:i]
                exp = A.segwit_decode(hrp, s) if s else None
                got = lib_witness(s)
                if ((got is None) if exp is None else (isinstance(got, tuple) and got[:2] == exp)) is False:
                    st.violation("C06/bech32/truncation", {"address": s}, got, exp)
    return st


def bech32_substitutions(ctx):
    addrs = []
    for hrp in ("bc", "tb", "bcrt"):
        for ver, L in ((0, 20), (0, 32), (1, 32), (16, 2)):
            prog = bytes((11 * i + ver + ctx.seed) % 256 for i in range(L))
            addrs.append((hrp, A.segwit_encode(hrp, ver, prog)))
    return ctx.pmap(_subst_shard, [[a] for a in addrs])


def base_conversion(ctx):
    from btclib.b32 import power_of_2_base_conversion

    st = Stats()
    errs = lib_errors()
    for frm, to, pad, vals, maxlen in ((8, 5, True, [0, 1, 0x7F, 0x80, 0xFF, 0x55, 0x1F, 0x20], ctx.pick(3, 4)), (5, 8, False, list(range(32)), ctx.pick(3, 4)),
                                       (5, 8, True, [0, 1, 15, 16, 31], 3), (8, 5, False, [0, 1, 0x80, 0xFF, 8, 0xF8], 3)):
        for n in range(0, maxlen + 1):
            for seq in itertools.product(vals, repeat=n):
                st.evals += 1
                exp = A.convertbits(list(seq), frm, to, pad)
                try:
                    got = list(power_of_2_base_conversion(list(seq), frm, to, pad))
                except errs:
                    got = None
                except Exception as e:  # noqa: BLE001
                    got = "foreign " + type(e).__name__
                if exp is None:
                    st.nontrivial += 1
                if got != exp:
                    st.violation(f"C06/convertbits/{frm}to{to}-pad{pad}", {"data": seq}, got, exp)
    return st


# ------------------------------------------------------------------------------------------ base58
def _b58_shard(arg):
    strings = arg
    from btclib import base58

    st = Stats()
    errs = lib_errors()
    chars = list(A.B58) + ["0", "O", "I", "l", " ", "é"]
    for s in strings:
        raw = A.b58check_decode(s)
        for i in range(len(s)):
            for c in chars:
                if c == s[i]:
                    continue
                t = s[:i] + c + s[i + 1:]
                st.evals += 1
                st.nontrivial += 1
                exp = A.b58check_decode(t)
                try:
                    got = base58.decode(t)
                except errs:
                    got = None
                except Exception as e:  # noqa: BLE001
                    got = "foreign " + type(e).__name__
                if got != exp:
                    st.violation("C06/base58check/single-substitution", {"string": t, "position": i, "char": repr(c)}, got if not isinstance(got, bytes) else got.hex(), exp.hex() if exp else None)
        for i in range(len(s) - 1):
            t = s[:i] + s[i + 1] + s[i] + s[i + 2:]
            if t == s:
                continue
            st.evals += 1
            exp = A.b58check_decode(t)
            try:
                got = base58.decode(t)
            except errs:
                got = None
            if got != exp:
                st.violation("C06/base58check/transposition", {"string": t}, got, exp)
        for t in [s[:i] for i in range(len(s))] + [s + "1", "1" + s, s.swapcase(), " " + s, s + " "]:
            st.evals += 1
            exp = A.b58check_decode(t.strip()) if t.strip() == t else "unspecified"
            try:
                got = base58.decode(t)
            except errs:
                got = None
            if exp != "unspecified" and got != exp:
                st.violation("C06/base58check/edit", {"string": t}, got, exp)
    return st


def base58(ctx):
    from btclib import base58 as b58mod

    st = Stats()
    errs = lib_errors()
    # payloads of every length 0..80 over patterns (leading zeros 0..4): encode/decode identities
    pats = []
    for L in range(0, 79):  # 78-byte payloads (an extended key) are the longest the decoder admits: its length cap is a stated limit
        for z in range(0, min(L, 4) + 1):
            pats.append(bytes(z) + bytes(((i * 37 + L + ctx.seed) % 255) + 1 for i in range(L - z)))
    for v in itertools.product([0x00, 0x01, 0x39, 0x3A, 0x7F, 0x80, 0xFF], repeat=2):
        pats.append(bytes(v))
    for p in pats:
        st.evals += 2
        enc = b58mod.encode(p)
        exp = A.b58check_encode(p)
        if enc.decode() != exp:
            st.violation("C06/base58check/encode", {"payload": p.hex()}, enc, exp)
            continue
        if b58mod.decode(enc) != p:
            st.violation("C06/base58check/roundtrip", {"payload": p.hex()}, b58mod.decode(enc).hex(), p.hex())
        if p[:1] == b"\x00":
            st.nontrivial += 1
    # the raw codec underneath (no checksum)
    for p in pats[:200]:
        st.evals += 1
        if b58mod._b58encode(p).decode() != A.b58encode(p) or b58mod._b58decode(A.b58encode(p).encode()) != p:
            st.violation("C06/base58/raw-codec", {"payload": p.hex()}, b58mod._b58encode(p), A.b58encode(p))
    strings = [A.b58check_encode(b"\x00" + bytes(range(20))), A.b58check_encode(b"\x05" + bytes(20)), A.b58check_encode(b"\x80" + bytes(range(1, 33)) + b"\x01"),
               A.b58check_encode(b"\x6f" + hashlib.sha256(b"c06-%d" % ctx.seed).digest()[:20])]
    if not ctx.quick:
        strings.append(A.b58check_encode(bytes.fromhex("0488ade4") + bytes(74)))
    st.merge(ctx.pmap(_b58_shard, [[s] for s in strings]))
    return st


# ------------------------------------------------------------------------------------------ address <-> script
def address_script(ctx):
    from btclib import b32, b58
    from btclib.script import script_pub_key as spkm
    from btclib.script.script_pub_key import ScriptPubKey

    st = Stats()
    errs = lib_errors()
    h20 = hashlib.sha256(b"h20-%d" % ctx.seed).digest()[:20]
    h32 = hashlib.sha256(b"h32").digest()
    scripts = [("p2pkh", b"\x76\xa9\x14" + h20 + b"\x88\xac"), ("p2sh", b"\xa9\x14" + h20 + b"\x87"), ("p2wpkh", b"\x00\x14" + h20), ("p2wsh", b"\x00\x20" + h32), ("p2tr", b"\x51\x20" + h32)]
    for v in range(1, 17):
        for L in (2, 20, 32, 33, 40):
            if v == 1 and L == 32:
                continue
            scripts.append((f"witness_v{v}_{L}", bytes([0x50 + v, L]) + bytes((i + v) % 256 for i in range(L))))
    for net in NETS:
        for name, spk in scripts:
            st.evals += 1
            try:
                addr = spkm.address(spk, net)
            except errs as e:
                st.violation("C06/address/refused", {"script": spk.hex(), "network": net}, repr(e)[:80], "an address")
                continue
            # reference spelling
            if name == "p2pkh":
                exp = A.b58check_encode(bytes([0x00 if net == "mainnet" else 0x6F]) + h20)
            elif name == "p2sh":
                exp = A.b58check_encode(bytes([0x05 if net == "mainnet" else 0xC4]) + h20)
            else:
                exp = A.segwit_encode(HRP[net], 0 if spk[0] == 0 else spk[0] - 0x50, spk[2:])
            if name.startswith("witness"):
                st.nontrivial += 1
            if addr != exp:
                st.violation("C06/address/not-the-reference-string", {"script": spk.hex(), "network": net}, addr, exp)
                continue
            back = ScriptPubKey.from_address(addr)
            if back.script != spk:
                st.violation("C06/address/script-roundtrip", {"address": addr, "network": net}, back.script.hex(), spk.hex())
            # the network read back shares the prefix; a mainnet string is never read as a test one or vice versa
            main = net == "mainnet"
            nt = back.network
            from btclib.network import NETWORKS
            if (NETWORKS[nt].network_type == "main") != main:
                st.violation("C06/address/network-type-confused", {"address": addr, "written_for": net}, nt, net)
            if name in ("p2pkh", "p2sh"):
                t, payload, n2 = b58.h160_from_address(addr)
                if payload != h20 or t != name:
                    st.violation("C06/address/h160_from_address", {"address": addr}, (t, payload.hex()), (name, h20.hex()))
            else:
                v, prog, n2 = b32.witness_from_address(addr)
                if prog != spk[2:]:
                    st.violation("C06/address/witness_from_address", {"address": addr}, prog.hex(), spk[2:].hex())
    # scripts with no address
    for spk in (b"\x6a\x01\x00", b"\x51", b"", b"\x21" + b"\x02" + bytes(32) + b"\xac", b"\x00\x15" + bytes(21), b"\x51\x01\x00", b"\x60\x29" + bytes(41), b"\x61\x14" + bytes(20)):
        st.evals += 1
        try:
            addr = spkm.address(spk, "mainnet")
        except errs:
            addr = "refused"
        v = spk[0] - 0x50 if spk and 0x51 <= spk[0] <= 0x60 else (0 if spk[:1] == b"\x00" else None)
        is_wit = v is not None and len(spk) >= 4 and spk[1] == len(spk) - 2 and 2 <= len(spk) - 2 <= 40 and (v != 0 or len(spk) - 2 in (20, 32))
        if not is_wit and addr not in ("", "refused"):
            st.violation("C06/address/address-for-non-standard-script", {"script": spk.hex()}, addr, "no address")
    return st


def classifier(ctx):
    """type_and_payload over every header shape (first byte x length byte x total length) vs a model classifier."""
    from btclib.script import script_pub_key as spkm

    st = Stats()
    errs = lib_errors()

    def model(s):
        n = len(s)
        if n == 25 and s[:3] == b"\x76\xa9\x14" and s[23:] == b"\x88\xac":
            return "p2pkh"
        if n == 23 and s[:2] == b"\xa9\x14" and s[22:] == b"\x87":
            return "p2sh"
        if 4 <= n <= 42 and (s[0] == 0 or 0x51 <= s[0] <= 0x60) and s[1] == n - 2:
            v = 0 if s[0] == 0 else s[0] - 0x50
            if v == 0:
                return {22: "p2wpkh", 34: "p2wsh"}.get(n, "other")
            if v == 1 and n == 34:
                return "p2tr"
            return "witness_unknown"
        return "other"

    firsts = [0x00, 0x4F, 0x50, 0x51, 0x52, 0x5F, 0x60, 0x61, 0x76, 0xA9, 0x6A, 0x14, 0x20]
    for f in firsts:
        for second in [0x00, 0x01, 0x02, 0x13, 0x14, 0x15, 0x1F, 0x20, 0x21, 0x28, 0x29, 0x4C]:
            for total in range(0, 45):
                if total == 0:
                    s = b""
                elif total == 1:
                    s = bytes([f])
                else:
                    s = bytes([f, second]) + bytes(((i * 3) % 250) + 1 for i in range(total - 2))
                for tailfix in (False, True):
                    if tailfix and total in (23, 25):
                        s2 = s[:22] + b"\x87" if total == 23 else s[:2] + b"\x14" + s[3:23] + b"\x88\xac"
                    elif tailfix:
                        continue
                    else:
                        s2 = s
                    st.evals += 1
                    exp = model(s2)
                    try:
                        got, payload = spkm.type_and_payload(s2)
                    except errs:
                        got = "refused"
                    st.outcomes[exp] += 1
                    if exp != "other":
                        st.nontrivial += 1
                        if got != exp:
                            st.violation("C06/classifier/standard-type-missed", {"script": s2.hex()}, got, exp)
                    elif got in ("p2pkh", "p2sh", "p2wpkh", "p2wsh", "p2tr", "witness_unknown"):
                        st.violation("C06/classifier/false-standard-type", {"script": s2.hex()}, got, exp)
    return st


# ------------------------------------------------------------------------------------------ keys
def keys_and_prefixes(ctx):
    from btclib import b58
    from btclib.bip32 import bip32
    from btclib.network import NETWORKS, XPRV_VERSIONS_ALL, network_from_key_value, xpubversion_from_xprvversion
    from btclib.to_prv_key import prv_keyinfo_from_prv_key
    from btclib.to_pub_key import pub_keyinfo_from_key

    st = Stats()
    errs = lib_errors()
    n = 0xFFFFFFFFFFFFFFFFFFFFFFFFFFFFFFFEBAAEDCE6AF48A03BBFD25E8CD0364141
    for net in NETS:
        for q in (1, 2, n - 1, int.from_bytes(hashlib.sha256(b"wif%d" % ctx.seed).digest(), "big") % n or 1):
            for compressed in (True, False):
                st.evals += 1
                wif = b58.wif_from_prv_key(q, net, compressed)
                exp = A.b58check_encode(bytes([0x80 if net == "mainnet" else 0xEF]) + q.to_bytes(32, "big") + (b"\x01" if compressed else b""))
                if wif != exp:
                    st.violation("C06/wif/encode", {"q": hex(q), "network": net, "compressed": compressed}, wif, exp)
                    continue
                q2, net2, c2 = prv_keyinfo_from_prv_key(wif)
                main = net == "mainnet"
                if q2 != q or c2 != compressed or (NETWORKS[net2].network_type == "main") != main:
                    st.violation("C06/wif/decode", {"wif": wif, "network": net}, (hex(q2), net2, c2), (hex(q), net, compressed))
                st.nontrivial += 1
    # ---- key spelling x explicit network: accepted exactly when the prefix the key was written with is one the network uses
    from btclib import b32
    from models import bip32_ref as B32
    NETINFO = {"mainnet": (0x00, 0x05, "bc", True), "testnet": (0x6F, 0xC4, "tb", False), "testnet4": (0x6F, 0xC4, "tb", False),
               "signet": (0x6F, 0xC4, "tb", False), "regtest": (0x6F, 0xC4, "bcrt", False)}
    k, c = B32.master(bytes(range(16)))
    K = B32.ser(B32.pub(k))
    h = B32.h160(K)

    def xkey(version, prv):
        return A.b58check_encode(bytes.fromhex(version) + bytes(9) + c + (b"\x00" + k.to_bytes(32, "big") if prv else K))

    spellings = {"hex": (K.hex(), None), "wif-main": (A.b58check_encode(b"\x80" + k.to_bytes(32, "big") + b"\x01"), True), "wif-test": (A.b58check_encode(b"\xef" + k.to_bytes(32, "big") + b"\x01"), False),
                 "xpub": (xkey("0488B21E", False), True), "tpub": (xkey("043587CF", False), False), "xprv": (xkey("0488ADE4", True), True), "tprv": (xkey("04358394", True), False)}
    for net in NETS:
        if net not in NETINFO:
            continue
        pkh_v, sh_v, hrp, main = NETINFO[net]
        exp_addr = {"p2pkh": A.b58check_encode(bytes([pkh_v]) + h), "p2wpkh": A.segwit_encode(hrp, 0, h),
                    "p2wpkh_p2sh": A.b58check_encode(bytes([sh_v]) + B32.h160(b"\x00\x14" + h))}
        for sp, (text, key_main) in spellings.items():
            for fname, f in (("p2pkh", lambda kk, nn: b58.p2pkh(kk, nn)), ("p2wpkh", lambda kk, nn: b32.p2wpkh(kk, nn)), ("p2wpkh_p2sh", lambda kk, nn: b58.p2wpkh_p2sh(kk, nn))):
                st.evals += 1
                st.nontrivial += 1
                should = key_main is None or key_main == main
                try:
                    got = f(text, net)
                except errs:
                    got = None
                case = {"key": sp, "network": net, "address": fname}
                if should and got != exp_addr[fname]:
                    st.violation("C06/key-network/own-network-refused-or-wrong/" + sp, case, got, exp_addr[fname])
                if not should and got is not None:
                    st.violation("C06/key-network/foreign-network-accepted/" + sp, case, got, "refused")
    # ---- every address helper x every network: the string is the reference encoding for THAT network, and reads back to it
    import hashlib as _hl
    from btclib.script.script_pub_key import ScriptPubKey
    script = b"\x51\x21" + K + b"\x51\xae"
    for net in NETS:
        if net not in NETINFO:
            continue
        pkh_v, sh_v, hrp, main = NETINFO[net]
        wsh_prog = _hl.sha256(script).digest()
        helpers = {
            "b32.p2tr": (lambda: b32.p2tr(K[1:], net), A.segwit_encode(hrp, 1, K[1:]), b"\x51\x20" + K[1:]),
            "b32.p2wsh": (lambda: b32.p2wsh(script, net), A.segwit_encode(hrp, 0, wsh_prog), b"\x00\x20" + wsh_prog),
            "b32.p2wpkh": (lambda: b32.p2wpkh(K, net), A.segwit_encode(hrp, 0, h), b"\x00\x14" + h),
            "b32.address_from_witness-v1": (lambda: b32.address_from_witness(1, K[1:], net), A.segwit_encode(hrp, 1, K[1:]), None),
            "b32.address_from_witness-v16": (lambda: b32.address_from_witness(16, bytes(2), net), A.segwit_encode(hrp, 16, bytes(2)), None),
            "b58.p2pkh": (lambda: b58.p2pkh(K, net), A.b58check_encode(bytes([pkh_v]) + h), b"\x76\xa9\x14" + h + b"\x88\xac"),
            "b58.p2sh": (lambda: b58.p2sh(script, net), A.b58check_encode(bytes([sh_v]) + B32.h160(script)), b"\xa9\x14" + B32.h160(script) + b"\x87"),
            "b58.p2wpkh_p2sh": (lambda: b58.p2wpkh_p2sh(K, net), A.b58check_encode(bytes([sh_v]) + B32.h160(b"\x00\x14" + h)), None),
            "b58.p2wsh_p2sh": (lambda: b58.p2wsh_p2sh(script, net), A.b58check_encode(bytes([sh_v]) + B32.h160(b"\x00\x20" + wsh_prog)), None),
            "b58.address_from_h160-p2pkh": (lambda: b58.address_from_h160("p2pkh", h, net), A.b58check_encode(bytes([pkh_v]) + h), None),
            "b58.address_from_h160-p2sh": (lambda: b58.address_from_h160("p2sh", h, net), A.b58check_encode(bytes([sh_v]) + h), None),
        }
        for nm, (f, exp, spk) in helpers.items():
            st.evals += 1
            st.nontrivial += 1
            case = {"helper": nm, "network": net}
            try:
                got = f()
            except errs as e:
                got = "refused " + repr(e)[:60]
            if got != exp:
                st.violation("C06/helper-network/address-differs-from-reference/" + nm, case, got, exp)
                continue
            if spk is not None:
                try:
                    back = ScriptPubKey.from_address(got)
                    same_type = (NETWORKS[back.network].network_type == "main") == main
                    if back.script != spk or not same_type:
                        st.violation("C06/helper-network/reads-back-differently/" + nm, case, (back.script.hex()[:20], back.network), (spk.hex()[:20], net))
                    if ScriptPubKey(spk, net).address != got:
                        st.violation("C06/helper-network/differs-from-ScriptPubKey.address/" + nm, case, ScriptPubKey(spk, net).address, got)
                except errs as e:
                    st.violation("C06/helper-network/own-address-refused/" + nm, case, repr(e)[:80], "script")
    seed = bytes(range(16))
    for v in sorted(XPRV_VERSIONS_ALL):
        st.evals += 1
        root = bip32.rootxprv_from_seed_(seed, v)
        s = root.b58encode()
        back = bip32.BIP32KeyData.b58decode(s)
        if back != root or back.b58encode() != s:
            st.violation("C06/xkey/roundtrip", {"version": v.hex()}, back.b58encode(), s)
        xp = bip32.xpub_from_xprv_(root)
        if xp.version != xpubversion_from_xprvversion(v) or bip32.BIP32KeyData.b58decode(xp.b58encode()) != xp:
            st.violation("C06/xkey/xpub-roundtrip", {"version": v.hex()}, xp.version.hex(), xpubversion_from_xprvversion(v).hex())
        exp = A.b58check_encode(root.serialize())
        if s != exp:
            st.violation("C06/xkey/not-base58check-of-serialization", {"version": v.hex()}, s, exp)
    return st


def slip132_keys(ctx):
    """SLIP132: the address an extended key of each version stands for, and the per-purpose account keys, against the
    transcribed BIP32 / Base58Check / BIP173 references. Every version field of every network x private/public x
    root/non-root x 4 paths x the check_root_xkey switch."""
    from btclib import slip132
    from btclib.network import NETWORKS
    from models import bip32_ref as B32

    st = Stats()
    errs = lib_errors()
    seeds = [bytes(range(16)), hashlib.sha256(b"slip132-%d" % ctx.seed).digest()]
    KINDS = ["bip32", "slip132_p2wpkh", "slip132_p2wpkh_p2sh", "slip132_p2wsh", "slip132_p2wsh_p2sh"]
    # the oldest network with a prefix is the documented one to encode with: testnet for every test prefix
    TYPES = {"main": ("mainnet", 0x00, 0x05, "bc"), "test": ("testnet", 0x6F, 0xC4, "tb")}

    def payload(version, depth, pfp, index, c, k, prv):
        return version + bytes([depth]) + pfp + index.to_bytes(4, "big") + c + (b"\x00" + k.to_bytes(32, "big") if prv else B32.ser(B32.pub(k)))

    def walk(k, c, path):
        depth, pfp, idx = 0, bytes(4), 0
        for i in path:
            pfp = B32.h160(B32.ser(B32.pub(k)))[:4]
            k, c = B32.ckd_prv(k, c, i)
            depth, idx = depth + 1, i
        return k, c, depth, pfp, idx

    H = 0x80000000
    seen_versions = set()
    for seed in seeds:
        k0, c0 = B32.master(seed)
        for netname, net in NETWORKS.items():
            _, pkh_v, sh_v, hrp = TYPES[net.network_type]
            for kind in KINDS:
                for prv in (True, False):
                    version = getattr(net, kind + ("_prv" if prv else "_pub"))
                    if (seed, version) in seen_versions:
                        continue
                    seen_versions.add((seed, version))
                    for at in ((), (H + 1, 2, H + 3)):
                        k, c, depth, pfp, idx = walk(k0, c0, at)
                        text = A.b58check_encode(payload(version, depth, pfp, idx, c, k, prv))
                        h = B32.h160(B32.ser(B32.pub(k)))
                        exp = {"bip32": A.b58check_encode(bytes([pkh_v]) + h), "slip132_p2wpkh": A.segwit_encode(hrp, 0, h),
                               "slip132_p2wpkh_p2sh": A.b58check_encode(bytes([sh_v]) + B32.h160(b"\x00\x14" + h))}.get(kind)
                        case = {"network": netname, "kind": kind, "private": prv, "depth": depth}
                        # ---- address_from_xkey / address_from_xpub
                        for fname, f in (("address_from_xkey", slip132.address_from_xkey), ("address_from_xpub", slip132.address_from_xpub)):
                            st.evals += 1
                            st.nontrivial += 1
                            try:
                                got = f(text)
                            except errs:
                                got = None
                            want = None if (fname == "address_from_xpub" and prv) else exp
                            if got != want:
                                st.violation(f"C06/slip132/{fname}/{kind}/" + ("wrong-or-refused" if want else "accepted-what-has-no-address"), case, got, want)
                        # ---- the three per-purpose account keys: version of the purpose on the key's own network type,
                        # key material = the BIP32 reference derivation
                        for fname, f, okind in (("p2pkh_xkey", slip132.p2pkh_xkey, "bip32"), ("p2wpkh_p2sh_xkey", slip132.p2wpkh_p2sh_xkey, "slip132_p2wpkh_p2sh"),
                                                ("p2wpkh_xkey", slip132.p2wpkh_xkey, "slip132_p2wpkh")):
                            tnet = NETWORKS[TYPES[net.network_type][0]]
                            for path_name, path in (("default", None), ("m", ()), ("m/0/7", (0, 7)), ("m/5h/0", (H + 5, 0))):
                                for check_root in (True, False):
                                    st.evals += 1
                                    kw = {"check_root_xkey": check_root}
                                    if path is None:
                                        real = {"p2pkh_xkey": (H + 44, H, H), "p2wpkh_p2sh_xkey": (H + 49, H, H), "p2wpkh_xkey": (H + 84, H, H)}[fname]
                                    else:
                                        real = path
                                        kw["der_path"] = "m" + "".join("/%d%s" % (i & (H - 1), "h" if i >= H else "") for i in path)
                                    hardened = any(i >= H for i in real)
                                    should = (depth == 0 or not check_root) and (prv or not hardened)
                                    try:
                                        got = f(text, **kw)
                                    except errs:
                                        got = None
                                    c2 = dict(case, function=fname, path=path_name, check_root_xkey=check_root)
                                    if not should:
                                        st.nontrivial += 1
                                        if got is not None:
                                            st.violation(f"C06/slip132/{fname}/derives-what-it-must-refuse", c2, got, "refused")
                                        continue
                                    kk, cc, d2, pfp2, idx2 = k, c, depth, pfp, idx
                                    for i in real:
                                        pfp2 = B32.h160(B32.ser(B32.pub(kk)))[:4]
                                        kk, cc = B32.ckd_prv(kk, cc, i)
                                        d2, idx2 = d2 + 1, i
                                    ver = getattr(tnet, okind + ("_prv" if prv else "_pub"))
                                    want = A.b58check_encode(payload(ver, d2, pfp2, idx2, cc, kk, prv))
                                    st.nontrivial += 1
                                    if got != want:
                                        st.violation(f"C06/slip132/{fname}/differs-from-reference-derivation", c2, got, want)
    return st


def ripemd(ctx):
    from btclib import _ripemd160
    from btclib.hashes import hash160

    st = Stats()
    try:
        hashlib.new("ripemd160", b"")
    except ValueError:
        st.evals += 1
        st.notes["skipped"] = "hashlib has no ripemd160 in this build; reference vectors only"
        # RIPEMD-160 reference vectors
        for m, d in ((b"", "9c1185a5c5e9fc54612808977ee8f548b2258d31"), (b"a", "0bdc9d2d256b3ee9daae347be6f4dc835a467ffe"), (b"abc", "8eb208f7e05d987a9b044a8e98c6b087f15a0bfc"),
                     (b"message digest", "5d0689ef49d2fae572b881b123a85ffa21595f36"), (b"a" * 1000000, "52783243c1697bdbe16d37f97f68f08325dc1528")):
            st.evals += 1
            st.nontrivial += 1
            if _ripemd160.ripemd160(m).hex() != d:
                st.violation("C06/ripemd160/vector", {"len": len(m)}, _ripemd160.ripemd160(m).hex(), d)
        return st
    for L in range(0, ctx.pick(301, 600)):
        for fill in (0x00, 0xA5):
            st.evals += 1
            m = bytes([fill]) * L if fill == 0 else bytes((i + L) % 256 for i in range(L))
            exp = hashlib.new("ripemd160", m).digest()
            if L % 64 in (55, 56, 63, 0):
                st.nontrivial += 1
            if _ripemd160.ripemd160(m) != exp:
                st.violation("C06/ripemd160", {"len": L, "fill": fill}, _ripemd160.ripemd160(m).hex(), exp.hex())
            if hash160(m) != hashlib.new("ripemd160", hashlib.sha256(m).digest()).digest():
                st.violation("C06/hash160", {"len": L}, hash160(m).hex(), "ripemd160(sha256(m))")
    return st


# ------------------------------------------------------------------------------------------------ BIP352 addresses
def silent_payment_addresses(ctx):
    """BIP352 address text: v0 is exactly 66 payload bytes; v1..v30 are read by their first 66 bytes (forward compatibility)
    and need at least that many; v31 is reserved.  Encoded here with the reference bech32m."""
    from btclib import silent_payments as sp
    from models import bip32_ref as B32

    st = Stats()
    errs = lib_errors()
    Bs, Bp = B32.pub(11), B32.pub(12)
    pay66 = B32.ser(Bs) + B32.ser(Bp)
    for hrp, nettype, network in (("sp", "main", "mainnet"), ("tsp", "test", "testnet")):
        st.evals += 1
        exp0 = A.bech32_encode(hrp, [0] + A.convertbits(pay66, 8, 5), 0x2BC830A3)
        try:
            got = sp.address_from_keys(Bs, Bp, network)
        except errs as e:
            got = "refused " + repr(e)[:40]
        if got != exp0:
            st.violation("C06/sp-address/encode", {"hrp": hrp}, got[:40], exp0[:40])
        for version in range(0, 32):
            for extra in (-1, 0, 1, 7, 33):
                payload = pay66 + bytes(range(extra)) if extra >= 0 else pay66[:-1]
                text = A.bech32_encode(hrp, [version] + A.convertbits(payload, 8, 5), 0x2BC830A3)
                for spelled in (text, text.upper()):
                    st.evals += 1
                    st.nontrivial += 1
                    if version == 0:
                        ok = extra == 0
                    elif version == 31:
                        ok = False
                    else:
                        ok = extra >= 0
                    try:
                        r = sp.keys_from_address(spelled)
                        res = (r[0], r[1], r[2])
                    except errs:
                        res = None
                    case = {"hrp": hrp, "version": version, "payload_len": len(payload), "upper": spelled != text}
                    if ok and res != (Bs, Bp, nettype):
                        st.violation("C06/sp-address/valid-address-refused-or-misread", case, str(res)[:60], "the two keys")
                    if not ok and res is not None:
                        st.violation("C06/sp-address/invalid-address-accepted", case, "keys", "refused")
    return st


SUBS = [
    ("bech32_matrix", bech32_matrix),
    ("bech32_substitutions", bech32_substitutions),
    ("base_conversion", base_conversion),
    ("base58", base58),
    ("address_script", address_script),
    ("classifier", classifier),
    ("keys_and_prefixes", keys_and_prefixes),
    ("slip132_keys", slip132_keys),
    ("ripemd", ripemd),
    ("silent_payment_addresses", silent_payment_addresses),
]
