"""C10 — what the library builds and signs, its own engine accepts; tampering is rejected.

E2 over the role pipeline: state = a PSBT, transitions = roles (create from descriptors, update, sign by each signer,
combine in every order, finalize, extract).  Explored for every input mix (multisets over the descriptor alphabet),
every signature hash type, PSBT v0/v2, every (version, lock time, sequence) of a small alphabet, both backends.
Terminal invariant: the engine accepts under the default (all) flags.  Then every single-field tampering of the finished
transaction, judged by an independent commitment table (what legacy / BIP143 / BIP341 digests cover per hash type)."""
from __future__ import annotations

import copy
import itertools

from mc.core import Stats, backend, lib_errors, shard_round_robin
from checks import psbt_common as PC

PROPERTY = "C10"
LEVEL = "model_checking"
RULE = ("states = role pipelines (mix, hash type, psbt version, tx version/lock/sequence, signer order, backend) run to completion on real "
        "objects; transitions = role steps + single-field tamperings of the finished transaction; non-trivial = more than one input, a "
        "hash type other than ALL/DEFAULT, a script path, a time lock, or a tampering the signatures commit to")
ASSUMPTIONS = ["mixes of at most 2 inputs (quick) / 3 (thorough) over 16 descriptor kinds", "one hash type per pipeline, plus per-input mixed assignments on pairs",
               "commitment table transcribed from BIP143/BIP341 and the legacy algorithm; it is exercised against models/sighash_ref in C09"]
META = {"engine": "E2 role pipeline BFS + E1 tamperings",
        "technique": "model checking: explicit-state exploration of PSBT role pipelines over an exhaustive small alphabet, each terminal state checked by the script engine and by every single-field tampering against an independent commitment model",
        "note": "Trusts the commitment table in this file and the BIP65/68/112 spending-condition predicate in checks/psbt_common.py."}


# multi_a leaves with a small threshold over many keys: most witness elements are empty signatures, which BIP342 does not
# charge to the sigops budget.  Only the first `m` keys are the signer's: the rest are another tree's, so they stay empty.
for _m, _n in ((1, 12), (2, 16), (1, 20), (3, 9)):
    PC.register(f"tr-multi_a-{_m}-{_n}", lambda _m=_m, _n=_n: "tr(%s,multi_a(%d,%s))" % (PC.NUMS, _m, ",".join(PC.key(0 if j < _m else 1, 86, 30 + j) for j in range(_n))), "tap")
WIDE = [f"tr-multi_a-{_m}-{_n}" for _m, _n in ((1, 12), (2, 16), (1, 20), (3, 9))]
# witness scripts past 520 bytes (BIP141 bounds the witness script at 10 000, the other elements at 520): 16-key multisigs
PC.register("wsh-multi-2-16", lambda: "wsh(multi(2,%s))" % ",".join(PC.key(0, 48, 60 + j) for j in range(16)), "v0")
PC.register("sh-wsh-sortedmulti-2-16", lambda: "sh(wsh(sortedmulti(2,%s)))" % ",".join(PC.key(0, 48, 80 + j) for j in range(16)), "v0")
PC.register("wsh-multi-16-16", lambda: "wsh(multi(16,%s))" % ",".join(PC.key(0, 48, 100 + j) for j in range(16)), "v0")
WIDE += ["wsh-multi-2-16", "sh-wsh-sortedmulti-2-16", "wsh-multi-16-16"]


def committed_by(cls, ht, i, field, j, n_in):
    """Does input i's signature (digest class cls, hash type ht) commit to `field` of index j?"""
    base = ht if ht else (1 if cls != "tap" else 0)
    sh = base & 3 if base else 1          # DEFAULT behaves as ALL
    if sh == 0:
        sh = 1
    acp = bool(base & 0x80)
    if field in ("version", "locktime"):
        return True
    if field in ("out-value", "out-script"):
        return sh == 1 or (sh == 3 and j == i)
    if field == "seq":
        if j == i:
            return True
        if cls == "tap":
            return not acp
        return sh == 1 and not acp
    if field == "amount":
        if cls == "legacy":
            return False
        if j == i:
            return True
        return cls == "tap" and not acp
    if field in ("outpoint-txid", "outpoint-vout"):
        return j == i or not acp
    if field == "spent-script":
        return True  # the spent script is what runs (own), or is hashed (tap); the executing input rejects either way
    raise AssertionError(field)


def _pipeline_shard(combos):
    from btclib.script.engine import verify_transaction
    from btclib.tx import OutPoint, TxOut

    st = Stats()
    errs = lib_errors()
    for mix, hname, v2, version, lock, seq, order, serving, per_ht in combos:
        ht = PC.HT[hname] if hname else None
        st.evals += 1
        st.states += 1
        case = {"mix": mix, "hash_type": hname or per_ht, "psbt_v2": v2, "tx_version": version, "lock": lock, "seq": hex(seq), "order": order, "bindings": serving}
        ok_expected = all(PC.spendable(k, version, lock, seq) for k in mix)
        with backend(serving):
            try:
                psbt, prevouts = PC.build(mix, ht, seq=seq, lock=lock, version=version, v2=v2, per_input_ht=per_ht)
                txid0 = psbt.tx.id
                signed = PC.sign_all(psbt, mix, order)
                final, tx = PC.finish(signed, mix)
            except errs as e:
                if ok_expected:
                    st.violation("C10/pipeline-refused/" + "+".join(sorted(set(mix))), case, repr(e)[:120], "a finished transaction")
                else:
                    st.outcomes["refused-unspendable"] += 1
                continue
            except Exception as e:  # noqa: BLE001
                st.violation("C10/pipeline-foreign-exception/" + type(e).__name__, case, repr(e)[:120], "library error or success")
                continue
            st.transitions += 5
            if len(mix) > 1 or (ht not in (None, 1)) or any(k.startswith(("tr-l", "tr-m", "tr-t", "wsh-o", "wsh-a")) for k in mix):
                st.nontrivial += 1
            native = all(k not in ("pkh", "multi-bare", "sh-multi", "sh-wpkh", "sh-wsh-sortedmulti", "sh-wsh-sortedmulti-2-16") for k in mix)  # empty script_sig
            if final.tx.id != txid0 or signed.tx.id != txid0 or (native and tx.id != txid0):
                st.violation("C10/txid-changed-by-roles", case, tx.id.hex()[:16], txid0.hex()[:16])
            try:
                verify_transaction(prevouts, tx)
            except errs as e:
                st.violation("C10/engine-rejects-own/" + "+".join(sorted(set(mix))), case, repr(e)[:120], "accepted")
                continue
            st.outcomes["accepted"] += 1
            if not ok_expected:
                st.violation("C10/engine-accepts-unspendable", case, "accepted", "time lock not met")
            # ---- tamperings
            hts = per_ht or [ht] * len(mix)
            cls = [PC.DIGEST_CLASS[k] for k in mix]
            n = len(mix)

            def some_commit(field, j):
                return any(committed_by(cls[i], hts[i], i, field, j, n) for i in range(n))

            muts = []
            for o in range(len(tx.vout)):
                muts.append(("out-value", o, lambda t, po, o=o: t.vout.__setitem__(o, TxOut(t.vout[o].value - 1, t.vout[o].script_pub_key))))
                muts.append(("out-script", o, lambda t, po, o=o: t.vout.__setitem__(o, TxOut(t.vout[o].value, t.vout[o].script_pub_key.script[:-1] + bytes([t.vout[o].script_pub_key.script[-1] ^ 1])))))
            for i in range(n):
                muts.append(("seq", i, lambda t, po, i=i: setattr(t.vin[i], "sequence", t.vin[i].sequence ^ 1)))
                muts.append(("amount", i, lambda t, po, i=i: po.__setitem__(i, TxOut(po[i].value + 1, po[i].script_pub_key))))
                muts.append(("outpoint-vout", i, lambda t, po, i=i: setattr(t.vin[i], "prev_out", OutPoint(t.vin[i].prev_out.tx_id, t.vin[i].prev_out.vout ^ 1))))
                muts.append(("outpoint-txid", i, lambda t, po, i=i: setattr(t.vin[i], "prev_out", OutPoint(bytes([t.vin[i].prev_out.tx_id[0] ^ 1]) + t.vin[i].prev_out.tx_id[1:], t.vin[i].prev_out.vout))))
            muts.append(("locktime", 0, lambda t, po: setattr(t, "lock_time", t.lock_time + 1)))
            muts.append(("version", 0, lambda t, po: setattr(t, "version", t.version + 1)))
            for field, j, mut in muts:
                st.evals += 1
                st.transitions += 1
                t2, po2 = copy.deepcopy(tx), copy.deepcopy(prevouts)
                try:
                    mut(t2, po2)
                except errs:
                    continue
                try:
                    verify_transaction(po2, t2, check_amounts=False)
                    accepted = True
                except errs:
                    accepted = False
                except Exception as e:  # noqa: BLE001
                    st.violation("C10/tamper-foreign-exception/" + type(e).__name__, dict(case, field=field, index=j), repr(e)[:100], "rejected")
                    continue
                must = some_commit(field, j)
                if must:
                    st.nontrivial += 1
                if accepted and must:
                    st.violation(f"C10/tamper-accepted/{field}/{'+'.join(sorted(set(cls)))}", dict(case, field=field, index=j), "engine accepts", "rejected: a signature commits to it")
                st.outcomes[("tamper", field, must, accepted)] += 1
    return st


def _combos(ctx):
    K = list(PC.kinds())
    out = []
    hts = list(PC.HT)
    for serving in (True, False):
        # singles: everything
        for k in K:
            for hname in hts:
                if hname == "DEFAULT" and PC.DIGEST_CLASS[k] != "tap":
                    continue
                for v2 in (False, True):
                    for version, lock, seq in ((2, 0, 5), (2, 500, 5), (2, 600, 0xFFFFFFFF), (2, 499, 5), (1, 500, 5), (2, 500, 0xFFFFFFFE), (2, 0, 0x400005), (2, 0, 4)):
                        orders = [(0, 1), (1, 0)] if (k in PC.NEEDS_S2 or k == "tr-tree") else [(0, 1)]
                        for order in orders:
                            out.append(((k,), hname, v2, version, lock, seq, order, serving, None))
        for k in WIDE:
            for hname in (("DEFAULT", "ALL", "SINGLE|ACP") if PC.digest_class(k) == "tap" else ("ALL", "SINGLE|ACP")):
                for v2 in (False, True):
                    out.append(((k,), hname, v2, 2, 0, 5, (0, 1), serving, None))
        # pairs: every unordered pair in both orders, one representative per hash type
        pairs = list(itertools.product(K, repeat=2))
        for a, b in pairs:
            for hname in hts:
                if hname == "DEFAULT" and not (PC.DIGEST_CLASS[a] == PC.DIGEST_CLASS[b] == "tap"):
                    continue
                if ctx.quick and (K.index(a) + K.index(b) + hts.index(hname)) % 3:
                    continue
                out.append(((a, b), hname, (K.index(a) + K.index(b)) % 2 == 1, 2, 500, 5, (0, 1), serving, None))
        # mixed hash types on pairs of one kind per digest class
        reps = ("pkh", "wpkh", "tr-key", "tr-leaf", "wsh-multi")
        for a, b in itertools.product(reps, repeat=2):
            for ha, hb in itertools.product((1, 2, 3, 0x81, 0x82, 0x83), repeat=2):
                if ha == hb:
                    continue
                out.append(((a, b), None, False, 2, 0, 5, (0, 1), serving, [ha, hb]))
        if not ctx.quick:
            for mix in itertools.combinations_with_replacement(K, 3):
                for hname in ("ALL", "SINGLE", "NONE|ACP"):
                    out.append((mix, hname, False, 2, 500, 5, (0, 1), serving, None))
    return out


def pipelines(ctx):
    combos = _combos(ctx)
    st = ctx.pmap(_pipeline_shard, shard_round_robin(combos, 96))
    st.notes["pipelines"] = len(combos)
    st.notes["kinds"] = list(PC.kinds())
    return st


def messages(ctx):
    """BIP322 and Bitcoin message signatures: verify for the address they were made for, never for another key's."""
    from btclib import bip322
    from btclib.ecc import bms
    from btclib.script.script_pub_key import ScriptPubKey
    from btclib.to_pub_key import pub_keyinfo_from_prv_key
    from btclib.hashes import hash160
    from models import taproot_ref as TR

    st = Stats()
    errs = lib_errors()
    N = 0xFFFFFFFFFFFFFFFFFFFFFFFFFFFFFFFEBAAEDCE6AF48A03BBFD25E8CD0364141
    prvs = [1, 2, 3, 0xC0FFEE, N - 1, N - 2]
    msgs = [b"", b"Hello World", b"x" * 300, "è".encode()]

    def addrs(q):
        pub, _ = pub_keyinfo_from_prv_key(q)
        h = hash160(pub)
        x = int.from_bytes(pub[1:], "big")
        out_x = TR.tweak_pubkey(x, b"")[0]
        return {"p2pkh": ScriptPubKey(b"\x76\xa9\x14" + h + b"\x88\xac").address, "p2wpkh": ScriptPubKey(b"\x00\x14" + h).address,
                "p2sh-p2wpkh": ScriptPubKey(b"\xa9\x14" + hash160(b"\x00\x14" + h) + b"\x87").address,
                "p2tr": ScriptPubKey(b"\x51\x20" + out_x.to_bytes(32, "big")).address}

    for serving in (True, False):
        with backend(serving):
            table = {q: addrs(q) for q in prvs}
            for q in prvs:
                for kind, addr in table[q].items():
                    for msg in msgs:
                        st.evals += 1
                        case = {"prv": hex(q)[:12], "kind": kind, "msg_len": len(msg), "bindings": serving}
                        try:
                            sig = bip322.sign(msg, q, addr)
                        except errs as e:
                            st.violation("C10/bip322/sign-refused/" + kind, case, repr(e)[:100], "signature")
                            continue
                        if bip322.verify(msg, addr, sig) is not True:
                            st.violation("C10/bip322/own-signature-rejected/" + kind, case, False, True)
                        enc = sig.b64encode() if hasattr(sig, "b64encode") else None
                        if enc is not None and bip322.verify(msg, addr, enc) is not True:
                            st.violation("C10/bip322/own-encoded-signature-rejected/" + kind, case, False, True)
                        for q2 in prvs:
                            if q2 == q:
                                continue
                            for kind2, addr2 in table[q2].items():
                                if addr2 == addr:
                                    continue  # d and n-d share their x-only key, hence their p2tr address
                                st.evals += 1
                                st.nontrivial += 1
                                if bip322.verify(msg, addr2, sig) is not False:
                                    st.violation("C10/bip322/verifies-for-another-key/" + kind + "->" + kind2, dict(case, other=hex(q2)[:12]), True, False)
                        for kind2, addr2 in table[q].items():
                            if kind2 != kind:
                                st.evals += 1
                                # another address type of the same key: a different challenge script -- not the address it was made for
                                if bip322.verify(msg, addr2, sig) is not False:
                                    st.violation("C10/bip322/verifies-for-another-address-type/" + kind + "->" + kind2, case, True, False)
                        if bip322.verify(msg + b"!", addr, sig) is not False:
                            st.violation("C10/bip322/verifies-another-message/" + kind, case, True, False)
                        if kind == "p2tr":
                            continue
                        try:
                            bsig = bms.sign(msg, q, addr)
                        except errs as e:
                            st.violation("C10/bms/sign-refused/" + kind, case, repr(e)[:100], "signature")
                            continue
                        if bms.verify(msg, addr, bsig) is not True:
                            st.violation("C10/bms/own-signature-rejected/" + kind, case, False, True)
                        for q2 in prvs:
                            if q2 == q:
                                continue
                            for kind2, addr2 in table[q2].items():
                                if kind2 == "p2tr":
                                    continue
                                st.evals += 1
                                st.nontrivial += 1
                                if bms.verify(msg, addr2, bsig) is not False:
                                    st.violation("C10/bms/verifies-for-another-key/" + kind + "->" + kind2, dict(case, other=hex(q2)[:12]), True, False)
                        if bms.verify(msg + b"!", addr, bsig) is not False:
                            st.violation("C10/bms/verifies-another-message/" + kind, case, True, False)
    return st


SUBS = [("pipelines", pipelines), ("messages", messages)]
