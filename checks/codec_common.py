"""Shared by C05 and C19: the registry of binary parsers with valid seeds, and the
edit-distance neighbourhood engine.

Registry floor = the repository's own tests/fuzz_test.BINARY_PARSERS / MUTATED_PARSERS (the suite
is unedited and part of the tree under verification); seeds are added for every class that can be
built: default-constructed payloads, objects parsed out of vendored samples, generated
transactions/blocks/keys/signatures.  An entry = (name, parse, reserialize, seeds)."""
from __future__ import annotations

import hashlib
import io
import os
import sys

REPO = os.environ.get("VERIF_REPO", "/repo")

B16 = [0x00, 0x01, 0x02, 0x4B, 0x4C, 0x4D, 0x4E, 0x4F, 0x50, 0x7F, 0x80, 0x81, 0xFC, 0xFD, 0xFE, 0xFF]


def neighbourhood(seed: bytes, full: bool):
    """Every string within edit distance 1 of seed: truncations, substitutions (B256 if full else B16 + orig +-1),
    deletions, insertions (B16), extensions."""
    n = len(seed)
    for i in range(n + 1):
        yield ("trunc", i), seed[:i]
    for i in range(n):
        vals = range(256) if full else sorted(set(B16 + [(seed[i] + 1) & 0xFF, (seed[i] - 1) & 0xFF, seed[i] ^ 0x80]))
        for b in vals:
            if b != seed[i]:
                yield ("sub", i, b), seed[:i] + bytes([b]) + seed[i + 1:]
    for i in range(n):
        yield ("del", i), seed[:i] + seed[i + 1:]
    ins = (0x00, 0x01, 0x4C, 0x7F, 0x80, 0xFC, 0xFD, 0xFE, 0xFF)
    for i in range(n + 1):
        for b in ins:
            yield ("ins", i, b), seed[:i] + bytes([b]) + seed[i:]
    for b in (0x00, 0x01, 0xFF):
        yield ("ext", b), seed + bytes([b])


def ser_obj(obj):
    """Canonical bytes of a parsed object, whatever its serialize signature."""
    try:
        return obj.serialize(check_validity=False)
    except TypeError:
        pass
    try:
        return obj.serialize(True, check_validity=False)
    except TypeError:
        return obj.serialize(include_witness=True, check_validity=False)


class Entry:
    def __init__(self, name, parse, reser, seeds, kind="object", fixed_point_only=False):
        self.name, self.parse, self.reser, self.seeds, self.kind, self.fixed_point_only = name, parse, reser, list(dict.fromkeys(seeds)), kind, fixed_point_only
        self.prefix = False  # a stream-element reader: reads one item and leaves the rest (var_int, var_bytes)


def _tx_variants():
    from models.build import coinbase_tx, simple_tx

    out = []
    out.append(simple_tx(1, [b"\x51"]))
    out.append(simple_tx(2, [b"\x00\x14" + bytes(20), b"\x6a\x01\x00"], prev_scripts_n=2, witness=True))
    out.append(simple_tx(3, [], prev_scripts_n=1, version=0xFFFFFFFF, lock_time=0xFFFFFFFF))
    out.append(coinbase_tx(5, [b"\x51"], bytes(32), bytes(32)))
    return out


def registry(seed=0, want_text=False):
    if REPO not in sys.path:
        sys.path.insert(0, REPO)
    from tests import fuzz_test as F

    from btclib import base58, bech32, var_bytes, var_int
    from btclib.bip32 import bip32
    from btclib.bip32.key_origin import BIP32KeyOrigin
    from btclib.block import Block, BlockHeader
    from btclib.curves import secp256k1
    from btclib.curves.sec_point import bytes_from_point, point_from_octets
    from btclib.ecc import bms, dsa, ssa
    from btclib.psbt import Psbt
    from btclib.script import script as script_mod
    from btclib.script import taproot
    from btclib.tx import Tx
    from models.build import block_from, coinbase_tx, segwit_block

    E = {}
    for name, parse in F.BINARY_PARSERS.items():
        cls = getattr(parse, "__self__", None)
        seeds = []
        if isinstance(cls, type):
            try:
                seeds.append(cls().serialize())
            except Exception:  # noqa: BLE001 - not default-constructible
                pass
        E[name] = Entry(name, parse, ser_obj, seeds)
    for name, (parse, sample) in F.MUTATED_PARSERS.items():
        E[name].seeds.insert(0, sample)
    # --- functions returning plain values
    E["var_int.parse"].reser = lambda v: var_int.serialize(v)
    E["var_int.parse"].seeds += [b"\x00", b"\xfc", b"\xfd\xfd\x00", b"\xfd\xff\xff", b"\xfe\x00\x00\x01\x00", b"\xfe\xff\xff\xff\xff", b"\xff\x00\x00\x00\x00\x01\x00\x00\x00", b"\xff" * 9]
    E["var_bytes.parse"].reser = lambda v: var_bytes.serialize(v)
    E["var_bytes.parse"].seeds += [b"\x00", b"\x01\xaa", b"\x4c" + bytes(0x4C), b"\xfd\xfd\x00" + bytes(0xFD)]
    # script disassembly is a display form, not a wire object of its own: a non-minimal push reads as the same token and a
    # truncated push as an [ERROR] token by design; the bytes themselves are carried raw by ScriptPubKey/TxIn/Witness
    E["script.parse"].reser = None
    E["script.parse"].seeds += [b"\x51", b"\x76\xa9\x14" + bytes(20) + b"\x88\xac", b"\x00\x14" + bytes(20), b"\x4c\x01\x01\x4d\x01\x00\x01\x4e\x01\x00\x00\x00\x01", b"\x63\x51\x67\x52\x68", b"\x02\x01\x02\xb1\xb2\xab"]
    E["taproot.parse"].reser = None
    E["taproot.parse"].seeds += [b"\x51", b"\x20" + bytes(range(32)) + b"\xac", b"\x20" + bytes(32) + b"\xba\x52\x9c"]
    E["point_from_octets"].reser = None  # judged by C01 on small fields; here only the contract
    G = secp256k1.G
    E["point_from_octets"].seeds += [bytes_from_point(G), bytes_from_point(G, compressed=False)]
    E["base58.decode"].reser = lambda v: base58.encode(v)
    E["base58.decode"].seeds += [base58.encode(b"\x00" + bytes(20)), base58.encode(b"\x80" + bytes(range(32)) + b"\x01")]
    E["bech32.decode"].reser = None
    E["bech32.decode"].seeds += [b"bc1qw508d6qejxtdg4y5r3zarvary0c5xw7kv8f3t4", b"bc1p0xlxvlhemja6c4dqv22uapctqupfhlxm9h8z3k2e72q4k9hcz7vqzk5jj0"]
    for nm in ("psbt_utils.deserialize_map", "psbt_utils.parse_leaf_script", "psbt_utils.parse_taproot_tree", "psbt_utils.parse_taproot_bip32"):
        E[nm].reser = None
    E["psbt_utils.deserialize_map"].seeds += [b"\x00", b"\x01\x00\x01\x01\x00", b"\x02\x01\xaa\x02\xbb\xcc\x01\x02\x00\x00"]
    E["psbt_utils.parse_leaf_script"].seeds += [b"\x51\xc0", b"\x20" + bytes(32) + b"\xac\xc0"]
    E["psbt_utils.parse_taproot_tree"].seeds += [b"\x00\xc0\x01\x51", b"\x01\xc0\x01\x51\x01\xc0\x01\x52"]
    E["psbt_utils.parse_taproot_bip32"].seeds += [b"\x00" + bytes(4), b"\x01" + bytes(32) + b"\x01\x02\x03\x04" + (0x80000000).to_bytes(4, "little")]
    # --- transactions, blocks and their parts
    txs = _tx_variants() + [Tx.parse(F.TX_BIN)]
    for t in txs:
        raw = t.serialize(include_witness=True, check_validity=False)
        E["Tx.parse"].seeds.append(raw)
        E["TxPayload.parse"].seeds.append(raw)
        for i in t.vin[:2]:
            E["TxIn.parse"].seeds.append(i.serialize(check_validity=False))
            E["OutPoint.parse"].seeds.append(i.prev_out.serialize(check_validity=False))
            E["Witness.parse"].seeds.append(i.script_witness.serialize(check_validity=False))
        for o in t.vout[:2]:
            E["TxOut.parse"].seeds.append(o.serialize(check_validity=False))
    blk = segwit_block(2, 2, [[b"\x51"]])
    E["Block.parse"].seeds.append(blk.serialize(check_validity=False))
    E["BlockPayload.parse"].seeds.append(F.BLOCK_BIN)
    E["BlockHeader.parse"].seeds.append(blk.header.serialize(check_validity=False))
    # --- keys and signatures
    root = bip32.rootxprv_from_seed_(bytes(range(16)))
    ch = bip32.derive_(root, "m/0h/1")
    E["BIP32KeyData.parse"].seeds += [root.serialize(), ch.serialize(), bip32.xpub_from_xprv_(ch).serialize()]
    E["BIP32KeyOrigin.parse"].seeds += [BIP32KeyOrigin(b"\x01\x02\x03\x04", "m/1h/2").serialize(), BIP32KeyOrigin(b"\xaa\xbb\xcc\xdd", "m").serialize()]
    mh = hashlib.sha256(b"codec").digest()
    E["dsa.Sig.parse"].seeds += [dsa.sign_(mh, 7).serialize()]
    E["ssa.Sig.parse"].seeds += [ssa.sign_(mh, 7, bytes(32)).serialize()]
    E["bms.Sig.parse"].seeds += [bms.sign(b"msg", 7).serialize()]
    from btclib.p2p.message import Message
    E["Message.parse"].seeds += [Message("f9beb4d9", "verack", b"").serialize()]
    E["Psbt.parse"].fixed_point_only = True
    E["PsbtIn.parse"].fixed_point_only = True
    E["PsbtOut.parse"].fixed_point_only = True
    p = Psbt.parse(F.PSBT_BIN)
    E["PsbtIn.parse"].seeds += [i.serialize() for i in p.inputs[:2]]
    E["PsbtOut.parse"].seeds += [o.serialize() for o in p.outputs[:2]]
    E["var_int.parse"].prefix = True
    E["var_bytes.parse"].prefix = True
    # BIP158 filters carry no length of their own: the parser must reach the end of the octets exactly.  Seeds whose bit
    # stream ends on an octet boundary (N = 0; two 20-bit codes) are the ones where a spare octet is not "padding"
    from btclib.block.block_filter import BasicBlockFilter
    fblk = block_from([coinbase_tx(1, [b"\x51"])], mine=False)
    def gcs_bytes(f, P=19):
        """The one encoding BIP158 gives the decoded set: CompactSize N, Golomb-Rice deltas, zero padding to the octet."""
        vals = sorted(f.element_hashes)
        bits, last = [], 0
        for v in vals:
            d, last = v - last, v
            bits += [1] * (d >> P) + [0] + [(d >> (P - 1 - i)) & 1 for i in range(P)]
        bits += [0] * (-len(bits) % 8)
        n = len(vals)
        pre = bytes([n]) if n < 0xFD else b"\xfd" + n.to_bytes(2, "little")
        return pre + bytes(int("".join(map(str, bits[i:i + 8])), 2) for i in range(0, len(bits), 8))

    E["BasicBlockFilter.parse"] = Entry("BasicBlockFilter.parse", lambda b, h=fblk.header.hash: BasicBlockFilter.parse(b, h), gcs_bytes,
                                        [b"\x00", bytes.fromhex("02000010000100"), bytes.fromhex("0100001000"), BasicBlockFilter.from_block(fblk, []).serialize(),
                                         BasicBlockFilter.from_block(segwit_block(2, 2, [[b"\x51"], [b"\x52"]]), [b"\x53", b"\x54"]).serialize()])
    from btclib.exceptions import BTClibRuntimeError, BTClibTypeError, BTClibValueError
    for e in E.values():
        keep = []
        for sd in dict.fromkeys(e.seeds):
            try:
                e.parse(sd)
                keep.append(sd)
            except (BTClibValueError, BTClibTypeError, BTClibRuntimeError):
                pass  # not a valid seed under the parser's default validity rules (e.g. a regtest block's proof of work)
        e.seeds = keep
    return E


def shards_for(entries, seed_cap=4, full_len=160):
    """[(entry_name, seed_index)] — one shard per seed, largest first."""
    out = []
    for name, e in entries.items():
        for i, s in enumerate(e.seeds[:seed_cap]):
            out.append((len(s), name, i))
    out.sort(reverse=True)
    return [(n, i) for _, n, i in out]
