"""C01 — curve and field arithmetic compute exactly the group law.

E2 over the Cayley graph of every toy curve (states = group elements in every
Jacobian representative, transitions = the real add/double/negate functions) and
E1 over every scalar-multiplication variant, double/multi-scalar products on both
sides of the wNAF / Bos-Coster switch, curve construction refusals, the number
theory helpers and the SEC point codec.  Oracle: models/ec_ref.py (affine
arithmetic with None for infinity, brute-force point lists) and integer identities.
"""
from __future__ import annotations

import itertools

from mc.core import Stats, backend, lib_errors, rebound, shard_round_robin
from models import ec_ref as R

PROPERTY = "C01"
LEVEL = "model_checking"
RULE = ("states = (curve, group element, Jacobian representative); transitions = one real group operation on an "
        "ordered pair of states, compared with the reference affine sum; plus E1: every scalar in [-n,3n] x every "
        "subgroup point x every multiplication variant x every window width on every accepted curve of U(P); every "
        "(u,v,H,Q) for double mult; term tuples on both sides of the Bos-Coster switch; every one-step-wrong curve "
        "parameter set; every operand/modulus of the number-theory helpers; every SEC octet string on small fields. "
        "Non-trivial = the case involves infinity, a doubling, a cancellation, a scalar >= n or < 0, or a refusal")
ASSUMPTIONS = [
    "models/ec_ref.py affine arithmetic is the group law (gated on secp256k1 facts)",
    "generators of exact order n are chosen by the reference, never by btclib",
    "statements about all 256-bit scalars on catalogued curves are covered on boundary scalar classes only",
]
META = {
    "engine": "E2 explicit-state over the group graph + E1 exhaustive enumeration",
    "technique": "explicit-state model checking of the group law on toy curves; bounded-exhaustive enumeration vs affine reference",
    "text": "Every accepted toy curve with p <= 31 (61 thorough), every element, every representation, every scalar in [-n,3n], every "
            "variant and width: the real functions agree with an independent affine reference; wrong curves and off-curve points are refused.",
    "note": "Trusts models/ec_ref.py (gated on secp256k1 constants). Catalogued 256-bit curves are covered on boundary scalar classes, not all scalars.",
}


def jac_to_ref(QJ, p):
    z = QJ[2] % p
    if z == 0:
        return None
    zi = pow(z, -1, p)
    return (QJ[0] * zi * zi % p, QJ[1] * zi * zi * zi % p)


def aff_to_ref(Q):
    return None if Q[1] == 0 else (Q[0], Q[1])


def ref_to_aff(P):
    from btclib.alias import INF

    return INF if P is None else P


def ref_to_jac(P, z, p):
    from btclib.alias import INFJ

    if P is None:
        return INFJ
    return (P[0] * z * z % p, P[1] * z * z * z % p, z)


def make_curve(params):
    from btclib.curves import Curve
    from btclib.exceptions import BTClibValueError

    p, a, b, G, n, h = params
    try:
        return Curve(p, a, b, G, n, h, weakness_check=False)
    except BTClibValueError:
        return None


def curve_key(params):
    p, a, b, G, n, h = params
    return f"p={p},a={a},b={b},G={G},n={n},h={h}"


# --------------------------------------------------------------------------- a. group law
def _group_law_shard(arg):
    plist, full_z = arg
    from btclib.alias import INF, INFJ

    st = Stats()
    for params in plist:
        ec = make_curve(params)
        if ec is None:
            continue
        p, a, b, G, n, h = params
        tab = R.subgroup_table(G, n, p, a)
        idx = {t: k for k, t in enumerate(tab)}
        zs_full = list(range(1, p)) if full_z else [1, 2, p - 1]
        zs_few = [1, 2 % p or 1, p - 1]
        infs = [INFJ, (0, 1, 0), (1, 1, 0)]
        reps = {}
        for k, P in enumerate(tab):
            reps[k] = [ref_to_jac(P, z, p) for z in zs_full] if P is not None else infs
            st.states += len(reps[k])
        ck = curve_key(params)
        for k1 in range(n):
            for k2 in range(n):
                exp = tab[(k1 + k2) % n]
                nontriv = k1 == 0 or k2 == 0 or k1 == k2 or (k1 + k2) % n == 0
                for Q1 in reps[k1]:
                    for Q2 in (reps[k2] if full_z and p <= 7 else reps[k2][:3]):
                        st.transitions += 1
                        st.evals += 1
                        got = jac_to_ref(ec.add_jac(Q1, Q2), p)
                        if got != exp:
                            st.violation("C01/group/add_jac", {"curve": ck, "Q1": Q1, "Q2": Q2}, got, exp)
                        if nontriv:
                            st.nontrivial += 1
                        eq = ec.is_jac_equal(Q1, Q2)
                        # is_jac_equal assumes on-curve points; infinity vs infinity must be equal, point vs point by value
                        if (k1 != 0 and k2 != 0) and eq != (k1 == k2):
                            st.violation("C01/group/is_jac_equal", {"curve": ck, "Q1": Q1, "Q2": Q2}, eq, k1 == k2)
                    # mixed addition with the affine spelling of the second operand
                    A2 = ref_to_aff(tab[k2])
                    st.transitions += 1
                    st.evals += 1
                    got = jac_to_ref(ec.add_jac_aff(Q1, A2), p)
                    if got != exp:
                        st.violation("C01/group/add_jac_aff", {"curve": ck, "Q1": Q1, "R": A2}, got, exp)
                # affine addition
                A1 = ref_to_aff(tab[k1])
                A2 = ref_to_aff(tab[k2])
                st.transitions += 2
                st.evals += 2
                got = aff_to_ref(ec.add_aff_var(A1, A2))
                if got != exp:
                    st.violation("C01/group/add_aff_var", {"curve": ck, "Q": A1, "R": A2}, got, exp)
                got = aff_to_ref(ec.add_var(A1, A2))
                if got != exp:
                    st.violation("C01/group/add_var", {"curve": ck, "Q": A1, "R": A2}, got, exp)
            # unary operations on every representative
            dbl = tab[(2 * k1) % n]
            ng = tab[(-k1) % n]
            for Q1 in reps[k1]:
                st.transitions += 3
                st.evals += 3
                if jac_to_ref(ec.double_jac(Q1), p) != dbl:
                    st.violation("C01/group/double_jac", {"curve": ck, "Q": Q1}, jac_to_ref(ec.double_jac(Q1), p), dbl)
                if jac_to_ref(ec.negate_jac(Q1), p) != ng:
                    st.violation("C01/group/negate_jac", {"curve": ck, "Q": Q1}, jac_to_ref(ec.negate_jac(Q1), p), ng)
                if aff_to_ref(ec.aff_from_jac_var(Q1)) != tab[k1]:
                    st.violation("C01/group/aff_from_jac_var", {"curve": ck, "Q": Q1}, ec.aff_from_jac_var(Q1), tab[k1])
            A1 = ref_to_aff(tab[k1])
            if aff_to_ref(ec.double_aff_var(A1)) != dbl:
                st.violation("C01/group/double_aff_var", {"curve": ck, "Q": A1}, ec.double_aff_var(A1), dbl)
            if aff_to_ref(ec.negate(A1)) != ng:
                st.violation("C01/group/negate", {"curve": ck, "Q": A1}, ec.negate(A1), ng)
        # batch conversion: all representatives at once, infinity at every position
        allreps = [r for k in range(n) for r in reps[k][:2]]
        got = [aff_to_ref(q) for q in ec.aff_from_jac_batch_var(allreps)]
        exp = [tab[k] for k in range(n) for _ in reps[k][:2]]
        st.evals += 1
        if got != exp:
            st.violation("C01/group/aff_from_jac_batch_var", {"curve": ck}, got, exp)
        st.outcomes[(p, h > 1)] += 1
    if plist:
        st.sample({"curve": curve_key(plist[0])})
    return st


def group_law(ctx):
    P = ctx.pick(13, 19)
    params = [c for c in R.universe_params(P)]
    small = [c for c in params if c[0] <= 11]
    big = [c for c in params if c[0] > 11]
    st = ctx.pmap(_group_law_shard, [(sh, True) for sh in shard_round_robin(small, 32)])
    st.merge(ctx.pmap(_group_law_shard, [(sh, False) for sh in shard_round_robin(big, 48)]))
    st.notes["universe_P"] = P
    return st


# --------------------------------------------------------------------------- b. multiplication variants
def _variants():
    """Every private multiplication variant, found by name; (name, callable(m, QJ, ec) -> jac or aff, kind, reduced_only)."""
    import inspect

    from btclib.curves import curve_group as g
    from btclib.curves import curve_group_2 as g2

    out = []
    for mod in (g, g2):
        for name, f in sorted(vars(mod).items()):
            if not callable(f) or getattr(f, "__module__", "") != mod.__name__:
                continue
            if not name.startswith("_mult") or "secp256k1" in name or name == "_multiples" or name == "_multiplier_decomposer":
                continue
            params = list(inspect.signature(f).parameters)
            if params[:3] != ["m", "Q", "ec"]:
                continue
            aff = "aff" in name
            if params == ["m", "Q", "ec"]:
                out.append((name, f, None, aff))
            elif params == ["m", "Q", "ec", "w"]:
                for w in range(1, 7):
                    out.append((f"{name}[w={w}]", (lambda f, w: lambda m, Q, ec: f(m, Q, ec, w))(f, w), w, aff))
            elif params == ["m", "Q", "ec", "w", "cached"]:
                for w in range(1, 7):
                    for c in (False, True):
                        if c and w > g.MAX_W:
                            continue  # precondition of the cached table: it holds 2^MAX_W multiples
                        out.append((f"{name}[w={w},cached={c}]", (lambda f, w, c: lambda m, Q, ec: f(m, Q, ec, w, c))(f, w, c), w, aff))
    return out


def _mult_shard(arg):
    plist, with_variants = arg
    from btclib.curves import PreparedPoint, mult
    from btclib.exceptions import BTClibValueError

    st = Stats()
    variants = _variants() if with_variants else []
    st.notes["variants"] = len(variants)
    for params in plist:
        ec = make_curve(params)
        if ec is None:
            continue
        p, a, b, G, n, h = params
        tab = R.subgroup_table(G, n, p, a)
        ck = curve_key(params)
        for k in range(n):
            A = ref_to_aff(tab[k])
            prep = PreparedPoint(A, ec) if tab[k] is not None else None
            for m in range(-n, 3 * n + 1):
                exp = tab[(m * k) % n]
                st.evals += 1
                if m <= 0 or m >= n or k == 0:
                    st.nontrivial += 1
                got = aff_to_ref(mult(m, A, ec))
                if got != exp:
                    st.violation("C01/mult/public", {"curve": ck, "m": m, "Q": A}, got, exp)
                if prep is not None:
                    st.evals += 1
                    got = aff_to_ref(prep.mult(m))
                    if got != exp:
                        st.violation("C01/mult/PreparedPoint", {"curve": ck, "m": m, "Q": A}, got, exp)
                if k == 1:
                    st.evals += 1
                    got = aff_to_ref(mult(m, None, ec))
                    if got != exp:
                        st.violation("C01/mult/public-generator-default", {"curve": ck, "m": m}, got, exp)
            if not variants:
                continue
            for z in (1, 2 % p or 1):
                QJ = ref_to_jac(tab[k], z, p)
                for name, f, w, aff in variants:
                    fixed_base = "fixed_base" in name
                    top = n if fixed_base else 3 * n + 1
                    arg = A if aff else QJ
                    if aff and z != 1:
                        continue
                    for m in range(0, top):
                        st.evals += 1
                        exp = tab[(m * k) % n]
                        try:
                            res = f(m, arg, ec)
                        except Exception as e:  # noqa: BLE001
                            st.violation(f"C01/mult/variant-raises/{name.split('[')[0]}", {"curve": ck, "variant": name, "m": m, "Q": arg}, repr(e)[:120], exp)
                            break
                        got = aff_to_ref(res) if aff else jac_to_ref(res, p)
                        if got != exp:
                            st.violation(f"C01/mult/variant/{name.split('[')[0]}", {"curve": ck, "variant": name, "m": m, "Q": arg}, got, exp)
                            break
                    # negative scalars are refused by every private variant
                    try:
                        f(-1, arg, ec)
                        st.violation(f"C01/mult/variant-accepts-negative/{name.split('[')[0]}", {"curve": ck, "variant": name}, "answered", "BTClibValueError")
                    except BTClibValueError:
                        pass
        st.outcomes[(p % 8, a == 0, a == p - 3, h > 1, n > p)] += 1
    if plist:
        st.sample({"curve": curve_key(plist[0]), "scalars": "[-n, 3n]", "points": "all of <G> and infinity"})
    return st


def mult_public(ctx):
    P = ctx.pick(31, 47)
    params = list(R.universe_params(P))
    st = ctx.pmap(_mult_shard, [(sh, False) for sh in shard_round_robin(params, 128)])
    st.notes["universe_P"] = P
    st.notes["candidate_curves"] = len(params)
    return st


def mult_variants(ctx):
    P = ctx.pick(11, 17)
    params = list(R.universe_params(P))
    st = ctx.pmap(_mult_shard, [(sh, True) for sh in shard_round_robin(params, 128)])
    st.notes["universe_P"] = P
    return st


def recodings(ctx):
    """signed_odd_digits and wNAF recompose to m for every m < 2^12 and every width."""
    from btclib.curves.curve_group import _wNAF_of_m, signed_odd_digits

    st = Stats()
    top = ctx.pick(1 << 11, 1 << 13)
    for w in range(1, 8):
        for m in range(0, top):
            st.evals += 1
            d = _wNAF_of_m(m, w)
            if sum(di << i for i, di in enumerate(d)) != m:
                st.violation("C01/recoding/wNAF-value", {"m": m, "w": w}, d, m)
            if any(di and (di % 2 == 0 or abs(di) >= (1 << w)) for di in d):
                st.violation("C01/recoding/wNAF-digit-range", {"m": m, "w": w}, d, "odd, |d| < 2^w")
            if m & 1:
                st.nontrivial += 1
                size = -(-max(m.bit_length(), 1) // w) + 1
                for sz in (size - 1, size, size + 2):
                    try:
                        ds = signed_odd_digits(m, w, sz)
                    except lib_errors():
                        if sz >= size:
                            st.violation("C01/recoding/signed_odd_digits-refuses", {"m": m, "w": w, "size": sz}, "raised", "digits")
                        continue
                    st.evals += 1
                    if len(ds) != sz or sum(di << (w * i) for i, di in enumerate(ds)) != m or any(di % 2 == 0 or abs(di) >= (1 << w) for di in ds):
                        st.violation("C01/recoding/signed_odd_digits", {"m": m, "w": w, "size": sz}, ds, m)
    return st


# --------------------------------------------------------------------------- c. double and multi-scalar
def _double_shard(arg):
    plist, nmax = arg
    from btclib.curves import double_mult_var
    from btclib.curves import curve_group as g
    from btclib.curves import curve_group_2 as g2

    st = Stats()
    for params in plist:
        p, a, b, G, n, h = params
        if n > nmax:
            continue
        ec = make_curve(params)
        if ec is None:
            continue
        tab = R.subgroup_table(G, n, p, a)
        ck = curve_key(params)
        privs = [("_double_mult_var", lambda u, H, v, Q: g._double_mult_var(u, H, v, Q, ec))]
        for w in (1, 2, 4, 5):
            privs.append((f"_double_mult_w_NAF_var[w={w}]", (lambda w: lambda u, H, v, Q: g2._double_mult_w_NAF_var(u, H, v, Q, ec, w, ec._fixed_points))(w)))
            privs.append((f"_double_mult_regular_window[w={w}]", (lambda w: lambda u, H, v, Q: g2._double_mult_regular_window(u, H, v, Q, ec, w, ec.scalar_len))(w)))
        for kh in range(n):
            for kq in range(n):
                AH, AQ = ref_to_aff(tab[kh]), ref_to_aff(tab[kq])
                JH, JQ = ref_to_jac(tab[kh], 1, p), ref_to_jac(tab[kq], 2 % p or 1, p)
                for u in range(0, n + 1):
                    for v in range(0, n + 1):
                        exp = tab[(u * kh + v * kq) % n]
                        st.evals += 1
                        if exp is None or kh == kq or u == 0 or v == 0:
                            st.nontrivial += 1
                        got = aff_to_ref(double_mult_var(u, AH, v, AQ, ec))
                        if got != exp:
                            st.violation("C01/double/public", {"curve": ck, "u": u, "H": AH, "v": v, "Q": AQ}, got, exp)
                        if u < n and v < n:
                            for name, f in privs:
                                st.evals += 1
                                try:
                                    got = jac_to_ref(f(u, JH, v, JQ), p)
                                except Exception as e:  # noqa: BLE001
                                    got = repr(e)[:100]
                                if got != exp:
                                    st.violation(f"C01/double/{name.split('[')[0]}", {"curve": ck, "variant": name, "u": u, "H": JH, "v": v, "Q": JQ}, got, exp)
        st.outcomes[(p, n)] += 1
    return st


def double_mult(ctx):
    P = ctx.pick(11, 13)
    nmax = ctx.pick(7, 13)
    params = list(R.universe_params(P))
    st = ctx.pmap(_double_shard, [(sh, nmax) for sh in shard_round_robin(params, 64)])
    st.notes.update({"universe_P": P, "n_max": nmax})
    return st


def _multi_shard(arg):
    plist, threshold, big = arg
    from btclib.curves import multi_mult_var
    from btclib.curves import curve_group as g
    from btclib.exceptions import BTClibValueError

    st = Stats()
    for params in plist:
        ec = make_curve(params)
        if ec is None:
            continue
        p, a, b, G, n, h = params
        tab = R.subgroup_table(G, n, p, a)
        ck = curve_key(params)
        scal = sorted({0, 1, 2, n - 1, n, n + 1})
        pts = sorted({0, 1, 2 % n, n - 1})
        old = g.BOS_COSTER_THRESHOLD
        g.BOS_COSTER_THRESHOLD = threshold if threshold else old
        try:
            for k in (2, 3):
                for ss in itertools.product(scal, repeat=k):
                    for ks in itertools.product(pts, repeat=k):
                        exp = tab[sum(s * kk for s, kk in zip(ss, ks)) % n]
                        st.evals += 1
                        if exp is None or len(set(ks)) < k or 0 in ss:
                            st.nontrivial += 1
                        A = [ref_to_aff(tab[kk]) for kk in ks]
                        got = aff_to_ref(multi_mult_var(list(ss), A, ec))
                        if got != exp:
                            st.violation("C01/multi/public", {"curve": ck, "scalars": ss, "points": A, "threshold": g.BOS_COSTER_THRESHOLD}, got, exp)
                        J = [ref_to_jac(tab[kk], 1 + (i % (p - 1)), p) for i, kk in enumerate(ks)]
                        red = [s % n for s in ss]
                        for name, f in (("_multi_mult_w_NAF_var", lambda s_, j_: g._multi_mult_w_NAF_var(s_, j_, ec, 4, ec._fixed_points)),
                                        ("_multi_mult_bos_coster_var", lambda s_, j_: g._multi_mult_bos_coster_var(s_, j_, ec)),
                                        ("_multi_mult_var", lambda s_, j_: g._multi_mult_var(s_, j_, ec))):
                            st.evals += 1
                            try:
                                got = jac_to_ref(f(red, J), p)
                            except Exception as e:  # noqa: BLE001
                                got = repr(e)[:100]
                            if got != exp:
                                st.violation(f"C01/multi/{name}", {"curve": ck, "scalars": red, "points": J}, got, exp)
            if big:
                # both sides of the real dispatch: 54..58 terms; first two terms range, the rest fixed
                g.BOS_COSTER_THRESHOLD = old
                for terms in range(old - 2, old + 3):
                    rest_s = [1 + (i % (n - 1)) for i in range(terms - 2)]
                    rest_k = [1 + ((i * 3) % (n - 1)) for i in range(terms - 2)]
                    base = sum(s * k for s, k in zip(rest_s, rest_k))
                    for s0, s1 in itertools.product(scal, repeat=2):
                        for k0, k1 in itertools.product(pts, repeat=2):
                            st.evals += 1
                            st.nontrivial += 1
                            exp = tab[(base + s0 * k0 + s1 * k1) % n]
                            A = [ref_to_aff(tab[k]) for k in [k0, k1] + rest_k]
                            got = aff_to_ref(multi_mult_var([s0, s1] + rest_s, A, ec))
                            if got != exp:
                                st.violation("C01/multi/public-around-switch", {"curve": ck, "terms": terms, "s0": s0, "s1": s1, "k0": k0, "k1": k1}, got, exp)
                            st.outcomes[("terms", terms)] += 1
            # error agreement: unequal lengths and a single term refused by the public function
            for bad in (([1], [ref_to_aff(tab[1])] * 2), ([1, 2], [ref_to_aff(tab[1])])):
                st.evals += 1
                try:
                    multi_mult_var(bad[0], bad[1], ec)
                    st.violation("C01/multi/length-mismatch-accepted", {"curve": ck, "scalars": bad[0]}, "answered", "BTClibValueError")
                except BTClibValueError:
                    pass
        finally:
            g.BOS_COSTER_THRESHOLD = old
    return st


def multi_mult(ctx):
    P = ctx.pick(13, 19)
    params = [c for c in R.universe_params(P) if c[4] >= 5]
    stride = ctx.pick(3, 1)
    chosen = params[ctx.seed % stride::stride]
    st = ctx.pmap(_multi_shard, [(sh, 0, False) for sh in shard_round_robin(chosen, 64)])
    st.merge(ctx.pmap(_multi_shard, [(sh, 2, False) for sh in shard_round_robin(chosen, 64)]))
    bigset = [c for c in params if c[4] >= 7][:: ctx.pick(12, 4)]
    st.merge(ctx.pmap(_multi_shard, [([c], 0, True) for c in bigset]))
    st.notes["curves_small_tuples"] = len(chosen)
    st.notes["curves_around_switch"] = len(bigset)
    st.notes["threshold_rebound_to"] = 2
    return st


# --------------------------------------------------------------------------- e. construction and refusal
def _construct_shard(arg):
    plist = arg
    from btclib.curves import Curve, PreparedPoint, double_mult_var, mult, multi_mult_var
    from btclib.curves.sec_point import bytes_from_point
    from btclib.exceptions import BTClibValueError

    st = Stats()
    errs = lib_errors()
    for params in plist:
        p, a, b, G, n, h = params
        ck = curve_key(params)
        pts = R.points(p, a, b)
        N = len(pts) + 1
        ec = make_curve(params)
        if ec is None:
            st.outcomes["genuine-curve-refused(not constrained)"] += 1
        else:
            st.outcomes["accepted"] += 1
        # wrong parameter sets, one step away from the right one
        wrong = []
        offG = next(((x, y) for x in range(p) for y in range(1, p) if (x, y) not in set(pts)), None)
        if offG:
            wrong.append(("G-off-curve", (p, a, b, offG, n, h)))
        wrong.append(("G-infinity", (p, a, b, (G[0], 0), n, h)))
        for dn in (-1, 1):
            wrong.append((f"n{dn:+d}", (p, a, b, G, n + dn, h)))
        wrong.append(("n-composite-multiple", (p, a, b, G, n * 2, h)))
        wrong.append(("n-equals-N-composite", (p, a, b, G, N, 1)) if N != n else ("skip", None))
        for dh in (-1, 1):
            wrong.append((f"h{dh:+d}", (p, a, b, G, n, h + dh)))
        wrong.append(("a>=p", (p, a + p, b, G, n, h)))
        wrong.append(("b>=p", (p, a, b + p, G, n, h)))
        wrong.append(("a<0", (p, a - p, b, G, n, h)))
        wrong.append(("b<0", (p, a, b - p, G, n, h)))
        wrong.append(("p-even", (p + 1, a, b, G, n, h)))
        wrong.append(("p-composite", (p * 3, a, b, G, n, h)))
        # a generator whose true order is a proper multiple of n
        for Pt in pts:
            if Pt[1] == 0:
                continue
            o = R.order_of(Pt, p, a)
            if o != n and o % n == 0:
                wrong.append((f"G-of-order-{o // n}n", (p, a, b, Pt, n, h)))
                break
        for kind, w in wrong:
            if w is None:
                continue
            st.evals += 1
            st.nontrivial += 1
            try:
                Curve(*w, weakness_check=False)
                accepted = True
            except BTClibValueError:
                accepted = False
            except Exception as e:  # noqa: BLE001
                st.violation("C01/construct/foreign-exception/" + kind.split("-of-order")[0], {"params": w, "kind": kind}, repr(e)[:100], "BTClibValueError")
                continue
            if accepted:
                # is it really wrong?  "Well formed" is SEC 1 v2 section 3.1.1.2.1: p prime, a and b field elements,
                # non-zero discriminant, G on the curve and not infinity, n prime, n*G = infinity, n != p, and the
                # cofactor equal to floor((sqrt(p)+1)^2 / n) -- the library cannot count points, and neither does SEC 1.
                pp, aa, bb, GG, nn, hh = w
                import math
                genuine = (pp == p and aa == a and bb == b and R.on_curve(GG, p, a, b) and GG[1] != 0
                           and nn >= 3 and all(nn % d for d in range(2, int(nn**0.5) + 1))
                           and R.mul(nn, GG, p, a) is None and nn != p
                           and hh == (p + 1 + math.isqrt(4 * p)) // nn)
                if not genuine:
                    key = "C01/construct/malformed-accepted/" + (kind if not kind.startswith("G-of-order") else "G-of-order-kn")
                    st.violation(key, {"params": w, "kind": kind, "true_group_order": N}, "accepted", "BTClibValueError")
        # zero discriminant for this (p, a): find b0 with 4a^3+27b^2 = 0
        for b0 in range(p):
            if (4 * a**3 + 27 * b0 * b0) % p == 0:
                st.evals += 1
                try:
                    Curve(p, a, b0, G, n, h, weakness_check=False)
                    st.violation("C01/construct/malformed-accepted/zero-discriminant", {"p": p, "a": a, "b": b0}, "accepted", "BTClibValueError")
                except BTClibValueError:
                    pass
                break
        if ec is None:
            continue
        # off-curve points must be refused by every public entry
        on = set(pts)
        for x in range(p):
            for y in range(1, p):
                if (x, y) in on:
                    continue
                Q = (x, y)
                calls = (("mult", lambda: mult(2, Q, ec)), ("double_mult_var", lambda: double_mult_var(1, Q, 1, ec.G, ec)),
                         ("double_mult_var-2nd", lambda: double_mult_var(1, ec.G, 1, Q, ec)),
                         ("multi_mult_var", lambda: multi_mult_var([1, 1], [ec.G, Q], ec)),
                         ("PreparedPoint", lambda: PreparedPoint(Q, ec)), ("bytes_from_point", lambda: bytes_from_point(Q, ec)))
                for name, f in calls:
                    st.evals += 1
                    try:
                        f()
                        st.violation("C01/refuse/off-curve-answered/" + name, {"curve": ck, "Q": Q}, "answered", "refusal")
                    except errs:
                        pass
                    except Exception as e:  # noqa: BLE001
                        st.violation("C01/refuse/off-curve-foreign-exception/" + name, {"curve": ck, "Q": Q}, repr(e)[:100], "library exception")
        # coordinates that are not field elements: (x + p, y), (x - p, y), (x, y + p)
        gx, gy = G
        for Q, kind in (((gx + p, gy), "x+p"), ((gx - p, gy), "x-p"), ((gx, gy + p), "y+p"), ((gx, gy - p), "y-p")):
            for name, f in (("mult", lambda: mult(2, Q, ec)), ("double_mult_var", lambda: double_mult_var(1, Q, 1, ec.G, ec)),
                            ("multi_mult_var", lambda: multi_mult_var([1, 1], [ec.G, Q], ec)),
                            ("bytes_from_point", lambda: bytes_from_point(Q, ec))):
                st.evals += 1
                try:
                    f()
                    st.violation(f"C01/refuse/unreduced-coordinate-answered/{name}", {"curve": ck, "Q": Q, "kind": kind}, "answered", "refusal")
                except errs:
                    pass
                except Exception as e:  # noqa: BLE001
                    st.violation(f"C01/refuse/unreduced-coordinate-foreign-exception/{name}", {"curve": ck, "Q": Q, "kind": kind}, repr(e)[:100], "library exception")
    return st


def construct(ctx):
    P = ctx.pick(17, 31)
    params = list(R.universe_params(P))
    st = ctx.pmap(_construct_shard, shard_round_robin(params, 64))
    st.notes["universe_P"] = P
    # embedding degree / MOV check with weakness_check=True: the 27 catalogued curves build, toy curves are refused
    from btclib.curves import CURVES, Curve
    from btclib.exceptions import BTClibValueError

    for name, ec in CURVES.items():
        st.evals += 1
        try:
            Curve(ec.p, ec._a, ec._b, ec.G, ec.n, ec.cofactor, weakness_check=True)
        except BTClibValueError as e:
            st.violation("C01/construct/catalogued-curve-refused", {"name": name}, str(e)[:100], "accepted")
    st.notes["catalogued_curves"] = len(CURVES)
    return st


# --------------------------------------------------------------------------- e2. every (p, a, b): the discriminant decides
def _disc_shard(primes):
    import math

    from btclib.curves import Curve
    from btclib.curves.curve_group import CurveGroup

    st = Stats()
    errs = lib_errors()
    for p in primes:
        for a in range(p):
            for b in range(p):
                st.evals += 1
                singular = (4 * a**3 + 27 * b * b) % p == 0
                if singular or (4 * b**3 + 27 * a * a) % p == 0:
                    st.nontrivial += 1
                try:
                    CurveGroup(p, a, b)
                    accepted = True
                except errs:
                    accepted = False
                if accepted == singular:
                    st.violation("C01/construct/discriminant-verdict", {"p": p, "a": a, "b": b}, "accepted" if accepted else "refused", "refused" if singular else "accepted")
                st.outcomes[("singular", singular)] += 1
                if not singular or p > 19:
                    continue
                # a full Curve on a singular cubic: every point of the cubic as generator, every prime order, the SEC 1 cofactor
                for x in range(p):
                    for y in range(1, p):
                        if (y * y - (x**3 + a * x + b)) % p:
                            continue
                        for n in range(3, p + 2 + math.isqrt(4 * p)):
                            if any(n % d == 0 for d in range(2, math.isqrt(n) + 1)) or n == p:
                                continue
                            st.evals += 1
                            try:
                                Curve(p, a, b, (x, y), n, (p + 1 + math.isqrt(4 * p)) // n, weakness_check=False)
                                st.violation("C01/construct/singular-cubic-accepted", {"p": p, "a": a, "b": b, "G": (x, y), "n": n}, "accepted", "refused: zero discriminant")
                            except errs:
                                pass
    return st


def discriminant(ctx):
    primes = [q for q in range(3, ctx.pick(32, 62)) if all(q % d for d in range(2, q))]
    return ctx.pmap(_disc_shard, [[q] for q in primes])


# --------------------------------------------------------------------------- f. number theory
def _nt_shard(arg):
    mods, do_batch = arg
    import math
    import secrets

    from btclib import number_theory as nt
    from btclib.exceptions import BTClibValueError

    st = Stats()
    for m in mods:
        for a in range(-m, 2 * m + 1):
            g = math.gcd(a % m if m else a, m)
            inv_exists = m > 1 and g == 1
            for fname in ("mod_inv", "mod_inv_var"):
                f = getattr(nt, fname, None)
                if f is None:
                    continue
                # every blinding factor the function can draw
                answers = set()
                blind_range = range(0, m) if fname == "mod_inv" and m <= 64 else [None]
                for bl in blind_range:
                    st.evals += 1
                    ctxm = rebound(secrets, "randbelow", (lambda bl: lambda k: bl % k)(bl)) if bl is not None else None
                    try:
                        if ctxm:
                            with ctxm:
                                r = f(a, m)
                        else:
                            r = f(a, m)
                        answers.add(r)
                        ok = True
                    except BTClibValueError:
                        ok = False
                        answers.add("refused")
                    except Exception as e:  # noqa: BLE001
                        st.violation(f"C01/nt/{fname}-foreign-exception", {"a": a, "m": m, "blind": bl}, repr(e)[:80], "value or BTClibValueError")
                        continue
                    if ok != inv_exists:
                        st.violation(f"C01/nt/{fname}-existence", {"a": a, "m": m, "blind": bl}, ok, inv_exists)
                    elif ok and (not 0 <= r < m or (a * r) % m != 1 % m):
                        st.violation(f"C01/nt/{fname}-value", {"a": a, "m": m, "blind": bl}, r, "a*r = 1 mod m")
                if len(answers) > 1:
                    st.violation(f"C01/nt/{fname}-depends-on-blinding", {"a": a, "m": m}, sorted(map(str, answers)), "one answer")
            if not inv_exists:
                st.nontrivial += 1
        if do_batch and 2 <= m <= 13:
            for L in (1, 2, 3):
                for xs in itertools.product(range(0, m), repeat=L):
                    exp_ok = all(math.gcd(x, m) == 1 for x in xs)
                    for fname in ("mod_inv_batch", "mod_inv_batch_var"):
                        f = getattr(nt, fname, None)
                        if f is None:
                            continue
                        st.evals += 1
                        try:
                            r = list(f(list(xs), m))
                            ok = True
                        except BTClibValueError:
                            ok = False
                        except Exception as e:  # noqa: BLE001
                            st.violation(f"C01/nt/{fname}-foreign-exception", {"xs": xs, "m": m}, repr(e)[:80], "BTClibValueError")
                            continue
                        if ok != exp_ok:
                            st.violation(f"C01/nt/{fname}-existence", {"xs": xs, "m": m}, ok, exp_ok)
                        elif ok and any((x * y) % m != 1 % m for x, y in zip(xs, r)):
                            st.violation(f"C01/nt/{fname}-value", {"xs": xs, "m": m}, r, "inverses")
        st.outcomes[("mod", m % 4)] += 1
    return st


def _sqrt_shard(primes_):
    from btclib import number_theory as nt
    from btclib.exceptions import BTClibValueError

    st = Stats()
    for p in primes_:
        residues = {x * x % p for x in range(p)}
        for a in range(-2, p + 3):
            st.evals += 1
            ar = a % p
            ls = nt.legendre_symbol_var(a, p)
            exp_ls = 0 if ar == 0 else (1 if pow(ar, (p - 1) // 2, p) == 1 else -1)
            if ls != exp_ls:
                st.violation("C01/nt/legendre_symbol_var", {"a": a, "p": p}, ls, exp_ls)
            for fname in ("mod_sqrt_var", "tonelli_var"):
                f = getattr(nt, fname)
                try:
                    r = f(a, p)
                    ok = True
                except BTClibValueError:
                    ok = False
                except Exception as e:  # noqa: BLE001
                    st.violation(f"C01/nt/{fname}-foreign-exception", {"a": a, "p": p}, repr(e)[:80], "BTClibValueError")
                    continue
                if ok != (ar in residues):
                    st.violation(f"C01/nt/{fname}-existence", {"a": a, "p": p}, ok, ar in residues)
                elif ok and r * r % p != ar:
                    st.violation(f"C01/nt/{fname}-value", {"a": a, "p": p}, r, "r*r = a")
            if ar not in residues:
                st.nontrivial += 1
        v = 0
        q = p - 1
        while q % 2 == 0:
            q //= 2
            v += 1
        st.outcomes[("p mod 8", p % 8, "2-adic", min(v, 4))] += 1
    return st


def number_theory(ctx):
    from btclib import number_theory as nt

    top = ctx.pick(130, 258)
    st = ctx.pmap(_nt_shard, [(sh, True) for sh in shard_round_robin(range(2, top), 64)])
    pr = [2] + R.primes(ctx.pick(600, 1300))
    pr = [p for p in pr if p > 2]
    st.merge(ctx.pmap(_sqrt_shard, shard_round_robin(pr, 64)))
    # xgcd: Bezout identity on [-40, 40]^2
    import math
    xg = getattr(nt, "xgcd_var", None)
    if xg is not None:
        for a in range(-40, 41):
            for b in range(-40, 41):
                st.evals += 1
                try:
                    g, x, y = xg(a, b)
                except lib_errors():
                    st.outcomes["xgcd-refused"] += 1
                    continue
                if a * x + b * y != g or abs(g) != math.gcd(a, b):
                    st.violation("C01/nt/xgcd_var", {"a": a, "b": b}, (g, x, y), "a*x+b*y = gcd")
    st.notes["moduli_up_to"] = top
    return st


# --------------------------------------------------------------------------- g. SEC codec
def _sec_shard(plist):
    from btclib.curves.sec_point import bytes_from_point, point_from_octets
    from btclib.exceptions import BTClibValueError

    st = Stats()
    errs = lib_errors()
    for params in plist:
        ec = make_curve(params)
        if ec is None:
            continue
        p, a, b, G, n, h = params
        ck = curve_key(params)
        pts = set(R.points(p, a, b))
        psize = (p.bit_length() + 7) // 8
        assert psize == 1
        for (x, y) in pts:
            if y == 0:
                continue
            for comp in (True, False):
                st.evals += 1
                enc = bytes_from_point((x, y), ec, comp)
                exp = (bytes([2 + (y & 1), x]) if comp else bytes([4, x, y]))
                if enc != exp:
                    st.violation("C01/sec/encode", {"curve": ck, "Q": (x, y), "compressed": comp}, enc.hex(), exp.hex())
                if point_from_octets(enc, ec) != (x, y):
                    st.violation("C01/sec/roundtrip", {"curve": ck, "Q": (x, y), "compressed": comp}, point_from_octets(enc, ec), (x, y))
        # every octet string of length 2 and 3 (prefix 0..255 x field-sized coordinates incl. values >= p up to p+2)
        coords = list(range(0, p + 3)) + [255]
        for prefix in range(256):
            for x in coords:
                for tail in ([None] + coords):
                    data = bytes([prefix, x]) if tail is None else bytes([prefix, x, tail])
                    st.evals += 1
                    # model (SEC 1 2.3.4 + hybrid forms 06/07, which the library documents as accepted only on request)
                    exp = None
                    if tail is None and prefix in (2, 3) and x < p:
                        ys = [yy for (xx, yy) in pts if xx == x and yy != 0 and yy & 1 == prefix & 1]
                        exp = (x, ys[0]) if ys else None
                    elif tail is not None and prefix == 4 and x < p and tail < p and (x, tail) in pts and tail != 0:
                        exp = (x, tail)
                    try:
                        got = point_from_octets(data, ec)
                    except errs:
                        got = None
                    except Exception as e:  # noqa: BLE001
                        st.violation("C01/sec/foreign-exception", {"curve": ck, "octets": data.hex()}, repr(e)[:80], "library exception")
                        continue
                    if prefix in (6, 7) and tail is not None:
                        # hybrid: only ever the point its coordinates name, with matching parity
                        ok_h = x < p and tail < p and (x, tail) in pts and tail != 0 and (tail & 1) == (prefix & 1)
                        if got is not None and (not ok_h or got != (x, tail)):
                            st.violation("C01/sec/hybrid-wrong-accept", {"curve": ck, "octets": data.hex()}, got, "refusal or the named point")
                        continue
                    if got != exp:
                        st.violation("C01/sec/decode", {"curve": ck, "octets": data.hex()}, got, exp)
                    if exp is not None:
                        st.nontrivial += 1
        st.outcomes[p] += 1
    return st


def sec_codec(ctx):
    chosen = [c for c in R.universe_params(13)]
    st = ctx.pmap(_sec_shard, shard_round_robin(chosen, 64))
    st.notes["curves"] = len(chosen)
    return st


# --------------------------------------------------------------------------- d. secp256k1 and catalogued curves
def scalar_classes(n, p, seed):
    import hashlib

    s = {0, 1, 2, 3, n - 2, n - 1, n, n + 1, 2 * n - 1, 2 * n, p % n, -1, -n, (1 << n.bit_length()) - 1, n // 2, n // 2 + 1}
    for k in range(0, n.bit_length() + 1, 4):
        s |= {(1 << k) - 1, 1 << k, (1 << k) + 1}
    for i in range(4):
        s.add(int.from_bytes(hashlib.sha512(b"scalar%d-%d" % (seed, i)).digest(), "big") % n)
    return sorted(s)


def _catalogue_shard(arg):
    names, seed = arg
    from btclib.curves import CURVES, double_mult_var, mult, secp256k1
    from btclib.curves import curve_group_2 as g2

    st = Stats()
    for name in names:
        ec = CURVES[name]
        p, a = ec.p, ec._a
        G = ec.G
        cls = scalar_classes(ec.n, p, seed)
        Q = R.mul(5, G, p, a)
        for serving in (True, False):
            with backend(serving):
                for m in cls:
                    st.evals += 2
                    exp = R.mul(m % ec.n, G, p, a)
                    got = aff_to_ref(mult(m, G, ec))
                    if got != exp:
                        st.violation("C01/catalogue/mult-G", {"curve": name, "m": hex(m), "bindings": serving}, got, exp)
                    exp = R.mul(m % ec.n, Q, p, a)
                    got = aff_to_ref(mult(m, Q, ec))
                    if got != exp:
                        st.violation("C01/catalogue/mult-Q", {"curve": name, "m": hex(m), "bindings": serving}, got, exp)
                    if m % ec.n in (0, 1, ec.n - 1) or m < 0 or m >= ec.n:
                        st.nontrivial += 1
                # double mult on a sub-lattice
                for u in cls[:: max(1, len(cls) // 12)]:
                    for v in (0, 1, ec.n - 1, ec.n - u % ec.n):
                        st.evals += 1
                        exp = R.add(R.mul(u % ec.n, G, p, a), R.mul(v % ec.n, Q, p, a), p, a)
                        got = aff_to_ref(double_mult_var(u % ec.n, G, v % ec.n, Q, ec))
                        if got != exp:
                            st.violation("C01/catalogue/double_mult_var", {"curve": name, "u": hex(u), "v": hex(v), "bindings": serving}, got, exp)
            if ec != secp256k1:
                break  # the bindings only ever serve secp256k1
        if ec == secp256k1:
            lam = 0x5363AD4CC05C30E0A5261C028812645A122E22EA20816678DF02967C1B23BD72
            GJ = (G[0], G[1], 1)
            QJ = (Q[0] * 4 % p, Q[1] * 8 % p, 2)
            for m in cls:
                mm = m % ec.n
                st.evals += 1
                m1, m2 = g2._multiplier_decomposer(mm)
                if (m1 + m2 * lam - mm) % ec.n or abs(m1) >= 1 << 128 or abs(m2) >= 1 << 128:
                    st.violation("C01/secp256k1/decomposer", {"m": hex(mm)}, (hex(m1), hex(m2)), "m1 + m2*lambda = m, |mi| < 2^128")
                for nm in ("_mult_endomorphism_secp256k1", "_mult_endomorphism_secp256k1_var"):
                    for w in (2, 4, 5):
                        for PJ, Pt in ((GJ, G), (QJ, Q)):
                            st.evals += 1
                            got = jac_to_ref(getattr(g2, nm)(mm, PJ, ec, w), p)
                            exp = R.mul(mm, Pt, p, a)
                            if got != exp:
                                st.violation(f"C01/secp256k1/{nm}", {"m": hex(mm), "w": w}, got, exp)
            for u in cls[::5]:
                for v in cls[::7]:
                    st.evals += 1
                    uu, vv = u % ec.n, v % ec.n
                    got = jac_to_ref(g2._double_mult_endomorphism_secp256k1_var(uu, GJ, vv, QJ, ec, 5, ec._fixed_points), p)
                    exp = R.add(R.mul(uu, G, p, a), R.mul(vv, Q, p, a), p, a)
                    if got != exp:
                        st.violation("C01/secp256k1/_double_mult_endomorphism_secp256k1_var", {"u": hex(uu), "v": hex(vv)}, got, exp)
        st.outcomes[name] += 1
    return st


def catalogue(ctx):
    from btclib.curves import CURVES

    names = sorted(CURVES)
    st = ctx.pmap(_catalogue_shard, [([nm], ctx.seed) for nm in names])
    st.notes["curves"] = len(names)
    # look-alikes: a caller-defined curve that shares everything with a catalogued one but the generator (-G, 2G, 3G, all
    # of order n) is another curve; multiplication on it starts from ITS generator, whichever backend serves
    from btclib.curves import Curve, mult

    errs = lib_errors()
    for name in ("secp256k1", "secp256r1", "secp192k1"):
        ec = CURVES[name]
        p, a, b, n, h, G = ec.p, ec._a, ec._b, ec.n, ec.cofactor, ec.G
        for gname, k in (("-G", n - 1), ("2G", 2), ("3G", 3)):
            G2 = R.mul_fast(k, G, p, a)
            for serving in (True, False):
                with backend(serving):
                    st.evals += 1
                    st.nontrivial += 1
                    case = {"like": name, "generator": gname, "bindings": serving}
                    try:
                        ec2 = Curve(p, a, b, G2, n, h, weakness_check=False)
                    except errs as e:
                        st.violation("C01/lookalike/genuine-curve-refused", case, repr(e)[:80], "a curve")
                        continue
                    if ec2 == ec or hash(ec2) == hash(ec):
                        st.violation("C01/lookalike/equal-to-the-catalogued-curve", case, "equal", "different generator, different curve")
                    for m in (1, 2, 5, n - 1):
                        exp = R.mul_fast(m * k % n, G, p, a)
                        for spelled, f in (("default-generator", lambda: mult(m, None, ec2)), ("explicit-generator", lambda: mult(m, ec2.G, ec2))):
                            st.evals += 1
                            try:
                                got = f()
                            except errs as e:
                                got = "refused " + repr(e)[:40]
                            if got != exp:
                                st.violation("C01/lookalike/mult-uses-another-generator", dict(case, m=hex(m)[:10], call=spelled), str(got)[:40], str(exp)[:40])
    return st


SUBS = [
    ("group_law", group_law),
    ("mult_public", mult_public),
    ("mult_variants", mult_variants),
    ("recodings", recodings),
    ("double_mult", double_mult),
    ("multi_mult", multi_mult),
    ("construct", construct),
    ("discriminant", discriminant),
    ("number_theory", number_theory),
    ("sec_codec", sec_codec),
    ("catalogue", catalogue),
]
