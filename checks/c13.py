"""C13 — mnemonics and seeds: entropy round-trips, checksums bind, thresholds recover.

E1: BIP39 over entropy alphabet x sizes x all 12 wordlists, every single-word substitution of three
positions vs the BIP's checksum rule, seeds vs hashlib.pbkdf2_hmac with NFKD passphrases, master key
vs the BIP32 model; Electrum version prefixes; SLIP-39: every (threshold, count) <= 16, every exact
subset (and rotations/orders) recovers, every t-1 subset and foreign share is refused, against a
carry-less GF(256) model; the full mnemonic API over group configurations; RS1024 single-word
substitutions; BIP85 children vs HMAC-SHA512 of the model-derived key."""
from __future__ import annotations

import hashlib
import hmac
import itertools
import unicodedata

from mc.core import Stats, lib_errors, shard_round_robin
from models import bip32_ref as B32

PROPERTY = "C13"
LEVEL = "exploration"
RULE = ("BIP39: entropies {0..0, 1..1, leading-zero runs, alternating, seeded} x sizes 128..256 x 12 languages: round trip; every "
        "substitution of 3 word positions x 2047 words x 2 entropies x 12 languages vs the BIP checksum; seeds for a unicode "
        "passphrase alphabet vs pbkdf2_hmac/NFKD; SLIP39: every (t,n) with t<=n<=16: every exact subset in 2 orders recovers, every "
        "t-1 subset and every t-subset with one foreign share refused (never a wrong secret), vs carry-less GF(256) Lagrange "
        "interpolation; group configurations <= 3 groups; every single-word substitution of a share vs RS1024; BIP85 "
        "applications vs HMAC-SHA512(bip-entropy-from-k, derived key). Non-trivial = refusal expected, or threshold > 1")
ASSUMPTIONS = ["hashlib pbkdf2/hmac/sha are correct", "the wordlist files are the BIP's (their content is compared across languages only for size 2048 and uniqueness)",
               "all entropies / passphrases outside the alphabets are outside the bound"]
META = {"technique": "bounded-exhaustive enumeration of threshold/share subsets, single-word substitutions and configuration products vs independent checksum / GF(256) / KDF models",
        "note": "Reference: carry-less GF(256) arithmetic, BIP39 checksum rule, hashlib PBKDF2, models/bip32_ref.py."}

LANGS = ("en", "es", "fr", "it", "ja", "ko", "pt", "cs", "zh", "zh_tw", "ru", "tr")


def ref_checksum_ok(idx):
    bits = "".join(f"{i:011b}" for i in idx)
    ent = len(bits) * 32 // 33
    e = int(bits[:ent], 2).to_bytes(ent // 8, "big")
    cs = bin(int.from_bytes(hashlib.sha256(e).digest(), "big"))[2:].zfill(256)[: len(bits) - ent]
    return bits[ent:] == cs


def _bip39_shard(arg):
    lang, seed = arg
    from btclib.mnemonic import bip39
    from btclib.mnemonic.mnemonic import WORDLISTS

    st = Stats()
    errs = lib_errors()
    try:
        wl = WORDLISTS.wordlist(lang)
    except Exception as e:  # noqa: BLE001
        st.violation("C13/bip39/wordlist-unavailable", {"lang": lang}, repr(e)[:80], "2048 words")
        return st
    st.evals += 1
    if len(wl) != 2048 or len(set(wl)) != 2048:
        st.violation("C13/bip39/wordlist-size", {"lang": lang}, len(wl), 2048)
    sep = "　" if lang == "ja" else " "
    ents = []
    for nbytes in (16, 20, 24, 28, 32):
        ents += [bytes(nbytes), b"\xff" * nbytes, bytes(3) + b"\x01" * (nbytes - 3), bytes([0xAA, 0x55] * (nbytes // 2)), hashlib.sha512(b"c13-%d-%d" % (seed, nbytes)).digest()[:nbytes],
                 bytes(nbytes - 1) + b"\x01"]
    for ent in ents:
        st.evals += 1
        m = bip39.mnemonic_from_entropy(ent, lang)
        words = m.split()
        # reference encoding
        bits = bin(int.from_bytes(ent, "big"))[2:].zfill(len(ent) * 8)
        cs = bin(int.from_bytes(hashlib.sha256(ent).digest(), "big"))[2:].zfill(256)[: len(ent) * 8 // 32]
        allbits = bits + cs
        exp_idx = [int(allbits[i:i + 11], 2) for i in range(0, len(allbits), 11)]
        exp = sep.join(wl[i] for i in exp_idx)
        if unicodedata.normalize("NFKD", m) != unicodedata.normalize("NFKD", exp):
            st.violation("C13/bip39/encode", {"lang": lang, "entropy": ent.hex()}, m, exp)
            continue
        back = bip39.entropy_from_mnemonic(m, lang)
        if int(back, 2).to_bytes(len(ent), "big") != ent or len(back) != len(ent) * 8:
            st.violation("C13/bip39/roundtrip", {"lang": lang, "entropy": ent.hex()}, back, bits)
        if ent[0] == 0:
            st.nontrivial += 1
        # language detection answers this language or refuses (words shared between lists make it ambiguous by design)
        try:
            det = bip39.lang_from_mnemonic(m)
            if det != lang and not all(w in WORDLISTS.wordlist(det) for w in unicodedata.normalize("NFKD", m).split()):
                st.violation("C13/bip39/language-detection", {"lang": lang, "entropy": ent.hex()}, det, lang)
        except errs:
            pass
    # every substitution of three positions
    for ent in (ents[0][:16], ents[4]):
        m = bip39.mnemonic_from_entropy(ent, lang)
        words = unicodedata.normalize("NFKD", m).split()
        nwl = [unicodedata.normalize("NFKD", w) for w in wl]
        idx = [nwl.index(w) for w in words]
        for pos in (0, len(words) // 2, len(words) - 1):
            for j in range(2048):
                if j == idx[pos]:
                    continue
                st.evals += 1
                st.nontrivial += 1
                idx2 = list(idx)
                idx2[pos] = j
                m2 = sep.join(wl[i] for i in idx2)
                try:
                    bip39.entropy_from_mnemonic(m2, lang)
                    got = True
                except errs:
                    got = False
                exp = ref_checksum_ok(idx2)
                st.outcomes[exp] += 1
                if got != exp:
                    st.violation("C13/bip39/checksum-accept" if got else "C13/bip39/checksum-refuse", {"lang": lang, "pos": pos, "word_index": j}, got, exp)
    st.sample({"lang": lang, "entropies": len(ents)})
    return st


def bip39_words(ctx):
    return ctx.pmap(_bip39_shard, [(lg, ctx.seed) for lg in LANGS])


def seeds(ctx):
    from btclib.bip32 import bip32
    from btclib.mnemonic import bip39

    st = Stats()
    passphrases = ["", "TREZOR", "é", "é", "　", "ｐａｓｓ", "ñññ", "パスワード", "\U0001F600", "a" * 200, " spaced  out ", "ſ"]
    mn = bip39.mnemonic_from_entropy(bytes(range(16)), "en")
    mj = bip39.mnemonic_from_entropy(bytes(range(32)), "ja")
    for m in (mn, mj):
        for p in passphrases:
            st.evals += 1
            st.nontrivial += 1
            got = bip39.seed_from_mnemonic(m, p)
            norm = " ".join(unicodedata.normalize("NFKD", m).split())
            exp = hashlib.pbkdf2_hmac("sha512", norm.encode(), ("mnemonic" + unicodedata.normalize("NFKD", p)).encode(), 2048, 64)
            if got != exp:
                st.violation("C13/bip39/seed", {"mnemonic_lang": "ja" if m is mj else "en", "passphrase": p}, got.hex()[:32], exp.hex()[:32])
            k, c = B32.master(exp)
            x = bip39.mxprv_from_mnemonic(m, p)
            kd = bip32.BIP32KeyData.b58decode(x)
            if kd.key != b"\x00" + k.to_bytes(32, "big") or kd.chain_code != c or kd.depth != 0:
                st.violation("C13/bip39/master-key", {"passphrase": p}, kd.key.hex(), k.to_bytes(32, "big").hex())
    # composed / decomposed spellings of one passphrase give one seed
    if bip39.seed_from_mnemonic(mn, "é") != bip39.seed_from_mnemonic(mn, "é"):
        st.violation("C13/bip39/nfkd-passphrase", {}, "different seeds", "one seed")
    return st


def electrum_versions(ctx):
    from btclib.mnemonic import electrum

    st = Stats()
    errs = lib_errors()
    for version in ("standard", "segwit", "2fa", "2fa_segwit"):
        for ent in (1, 2**131 - 1, 2**132 + 12345 + ctx.seed, int.from_bytes(hashlib.sha256(b"el%d" % ctx.seed).digest()[:17], "big")):
            st.evals += 1
            try:
                m = electrum.mnemonic_from_entropy(version, ent, "en")
            except errs as e:
                st.outcomes["refused"] += 1
                continue
            st.nontrivial += 1
            # the reference rule: hmac_sha512("Seed version", normalized mnemonic) starts with the version prefix
            s = hmac.new(b"Seed version", " ".join(unicodedata.normalize("NFKD", m).lower().split()).encode(), "sha512").hexdigest()
            prefix = {"standard": "01", "segwit": "100", "2fa": "101", "2fa_segwit": "102"}[version]
            if not s.startswith(prefix):
                st.violation("C13/electrum/version-prefix", {"version": version, "entropy": hex(ent)}, s[:4], prefix)
            v2 = electrum.version_from_mnemonic(m)[0]
            if v2 != version:
                st.violation("C13/electrum/version-read-back", {"version": version}, v2, version)
            back = int(electrum.entropy_from_mnemonic(m, "en"), 2)
            if back < ent:
                st.violation("C13/electrum/entropy-roundtrip", {"version": version, "entropy": hex(ent)}, hex(back), ">= requested (search increments)")
            # a single-word substitution changes the version prefix unless the hash says otherwise
            words = m.split()
            for alt in ("abandon", "zoo", "zebra"):
                if alt == words[0]:
                    continue
                m2 = " ".join([alt] + words[1:])
                s2 = hmac.new(b"Seed version", m2.encode(), "sha512").hexdigest()
                exp_ok = any(s2.startswith(p) for p in ("01", "100", "101", "102"))
                try:
                    electrum.version_from_mnemonic(m2)
                    got = True
                except errs:
                    got = False
                st.evals += 1
                if got != exp_ok:
                    st.violation("C13/electrum/substitution", {"version": version, "word": alt}, got, exp_ok)
    return st


# ------------------------------------------------------------------------------------------- SLIP-39
def gf_mul(a, b):
    """Carry-less multiplication modulo x^8 + x^4 + x^3 + x + 1 (no log tables)."""
    r = 0
    while b:
        if b & 1:
            r ^= a
        a <<= 1
        if a & 0x100:
            a ^= 0x11B
        b >>= 1
    return r


def gf_inv(a):
    r = 1
    for _ in range(254):
        r = gf_mul(r, a)
    return r


def ref_interpolate(points, x):
    """Lagrange interpolation over GF(256), byte-wise."""
    n = len(points[0][1])
    out = bytearray(n)
    for i, (xi, yi) in enumerate(points):
        num, den = 1, 1
        for j, (xj, _) in enumerate(points):
            if i != j:
                num = gf_mul(num, x ^ xj)
                den = gf_mul(den, xi ^ xj)
        w = gf_mul(num, gf_inv(den))
        for k in range(n):
            out[k] ^= gf_mul(yi[k], w)
    return bytes(out)


def ref_recover(threshold, points):
    """SLIP-39 RecoverSecret: the secret at x=255, checked against the digest at x=254; None when the digest fails."""
    if threshold == 1:
        return points[0][1]
    secret = ref_interpolate(points, 255)
    digest_share = ref_interpolate(points, 254)
    d, rnd = digest_share[:4], digest_share[4:]
    if hmac.new(rnd, secret, "sha256").digest()[:4] != d:
        return None
    return secret


def _slip_shard(arg):
    tn_list, seed = arg
    from btclib.mnemonic import slip39

    st = Stats()
    errs = lib_errors()
    ctr = [0]

    def ent(k):
        ctr[0] += 1
        return bytes(((ctr[0] * 37 + j * 11 + seed) % 256) for j in range(k))

    secret = bytes(range(1, 17))
    other = [slip39._split_secret(3, 3, bytes(range(50, 66)), ent)[0]]
    for thr, cnt in tn_list:
        shares = slip39._split_secret(thr, cnt, secret, ent)
        st.evals += 1
        if len(shares) != cnt or any(len(s) != 16 for s in shares):
            st.violation("C13/slip39/split-shape", {"t": thr, "n": cnt}, [len(s) for s in shares], cnt)
            continue
        for sub in itertools.combinations(range(cnt), thr):
            pts = [(i, shares[i]) for i in sub]
            for order, op in (("sorted", pts), ("reversed", pts[::-1]), ("rotated", pts[1:] + pts[:1])):
                if thr == 1 and order != "sorted":
                    continue
                st.evals += 1
                if thr > 1:
                    st.nontrivial += 1
                exp = ref_recover(thr, op)
                try:
                    got = slip39._recover_secret(thr, op)
                except errs:
                    got = None
                if got != exp or got != secret:
                    st.violation("C13/slip39/exact-subset-does-not-recover", {"t": thr, "n": cnt, "subset": sub, "order": order}, got.hex() if got else None, secret.hex())
            # one foreign share in place of the last
            if thr > 1:
                bad = pts[:-1] + [(pts[-1][0], other[0])]
                st.evals += 1
                st.nontrivial += 1
                exp = ref_recover(thr, bad)
                try:
                    got = slip39._recover_secret(thr, bad)
                except errs:
                    got = None
                if got != exp:
                    st.violation("C13/slip39/foreign-share", {"t": thr, "n": cnt, "subset": sub}, got.hex() if got else None, exp.hex() if exp else None)
                if got is not None and got == secret:
                    st.violation("C13/slip39/foreign-share-recovers-secret", {"t": thr, "n": cnt, "subset": sub}, "secret", "refusal")
        if thr > 2:
            for sub in itertools.combinations(range(cnt), thr - 1):
                pts = [(i, shares[i]) for i in sub]
                st.evals += 1
                st.nontrivial += 1
                exp = ref_recover(thr - 1, pts)
                try:
                    got = slip39._recover_secret(thr - 1, pts)
                except errs:
                    got = None
                if got != exp:
                    st.violation("C13/slip39/below-threshold", {"t": thr, "n": cnt, "subset": sub}, got.hex() if got else None, exp)
                if got == secret:
                    st.violation("C13/slip39/below-threshold-recovers", {"t": thr, "n": cnt, "subset": sub}, "secret", "refusal")
        st.outcomes[(thr, cnt)] += 1
    return st


def slip39_thresholds(ctx):
    nmax = ctx.pick(12, 16)
    tn = [(t, n) for n in range(1, nmax + 1) for t in range(1, n + 1) if not (t == 1 and n > 1)]
    # the biggest binomials are capped by the bound on n, not sampled: C(16,8) = 12870 subsets x 3 orders is affordable
    st = ctx.pmap(_slip_shard, [([x], ctx.seed) for x in tn])
    st.notes["n_max"] = nmax
    return st


def _slip_api_shard(arg):
    configs, seed = arg
    from btclib.mnemonic import slip39

    st = Stats()
    errs = lib_errors()
    ctr = [0]

    def ent(k):
        ctr[0] += 1
        return hashlib.sha256(b"slip%d-%d" % (seed, ctr[0])).digest()[:k] if k <= 32 else (hashlib.sha256(b"slip%d-%d" % (seed, ctr[0])).digest() * 2)[:k]

    for secret, groups, gt, e, ext in configs:
        st.evals += 1
        try:
            mn = slip39.mnemonics_from_master_secret(secret, groups, gt, "pw", e, ext, ent)
        except errs as ex:
            st.violation("C13/slip39/generate-refused", {"groups": groups, "group_threshold": gt}, repr(ex)[:80], "shares")
            continue
        # every qualifying selection: gt groups x exactly member_threshold members of each, in two orders
        for gsel in itertools.combinations(range(len(groups)), gt):
            member_choices = [list(itertools.combinations(range(groups[g][1]), groups[g][0]))[:3] for g in gsel]
            for pick in itertools.product(*member_choices):
                sel = [mn[g][m] for g, ms in zip(gsel, pick) for m in ms]
                for order, lst in (("natural", sel), ("reversed", sel[::-1])):
                    st.evals += 1
                    st.nontrivial += 1
                    case = {"groups": groups, "group_threshold": gt, "selected_groups": gsel, "members": pick, "order": order, "e": e, "extendable": ext}
                    try:
                        got = slip39.master_secret_from_mnemonics(lst, "pw")
                    except errs as ex:
                        got = "refused " + str(ex)[:40]
                    if got != secret:
                        st.violation("C13/slip39/qualifying-set-does-not-recover", case, got if isinstance(got, str) else got.hex(), secret.hex())
                    try:
                        wrong = slip39.master_secret_from_mnemonics(lst, "other")
                        if wrong == secret:
                            st.violation("C13/slip39/wrong-passphrase-same-secret", case, "same", "different")
                    except errs as ex:
                        st.violation("C13/slip39/wrong-passphrase-refused", case, repr(ex)[:60], "a different secret")
            # one group short
        if gt > 1:
            gsel = tuple(range(gt - 1))
            sel = [mn[g][m] for g in gsel for m in range(groups[g][0])]
            st.evals += 1
            try:
                slip39.master_secret_from_mnemonics(sel, "pw")
                st.violation("C13/slip39/below-group-threshold-accepted", {"groups": groups, "group_threshold": gt}, "a secret", "refusal")
            except errs:
                pass
        # one member short in a group with threshold > 1
        for g, (mt, mc) in enumerate(groups):
            if mt > 1 and gt == 1:
                sel = [mn[g][m] for m in range(mt - 1)]
                st.evals += 1
                try:
                    got = slip39.master_secret_from_mnemonics(sel, "pw")
                    st.violation("C13/slip39/below-member-threshold-accepted", {"groups": groups, "group": g}, got.hex(), "refusal")
                except errs:
                    pass
        # RS1024: every single-word substitution of the first share (a spread of replacement words)
        words = mn[0][0].split()
        from btclib.mnemonic.mnemonic import WORDLISTS
        wl = None
        try:
            wl = slip39._wordlist() if hasattr(slip39, "_wordlist") else None
        except Exception:  # noqa: BLE001
            wl = None
        alts = ["academic", "acid", "zero", "yoga", "wrist"]
        for pos in range(len(words)):
            for alt in alts:
                if alt == words[pos]:
                    continue
                st.evals += 1
                st.nontrivial += 1
                m2 = " ".join(words[:pos] + [alt] + words[pos + 1:])
                try:
                    slip39.share_from_mnemonic(m2)
                    st.violation("C13/slip39/rs1024-substitution-accepted", {"position": pos, "word": alt}, "accepted", "refused")
                except errs:
                    pass
    return st


def slip39_api(ctx):
    s16, s32 = bytes(range(16)), hashlib.sha256(b"ms").digest()
    configs = []
    for secret in (s16, s32):
        for groups, gt in ((((1, 1),), 1), (((2, 3),), 1), (((3, 5),), 1), (((1, 1), (2, 2)), 1), (((1, 1), (2, 3)), 2), (((2, 3), (3, 5), (1, 1)), 2), (((2, 2), (2, 2), (2, 2)), 3),
                           (((1, 1), (1, 1), (1, 1), (1, 1)), 4)):
            for e in (0, 1):
                for ext in (False, True):
                    configs.append((secret, groups, gt, e, ext))
    if ctx.quick:
        configs = [c for c in configs if not (c[0] is s32 and c[3] == 1)]
    # every even secret length 16..64: the share value's zero padding takes every width 0..8 bits (2, 4, 6, 8 recur every 10 bytes)
    for n in range(16, 66, 2):
        if n in (16, 32):
            continue
        sec = hashlib.sha512(b"len%d" % n).digest()[:n] if n <= 64 else None
        for groups, gt in ((((1, 1),), 1), (((2, 3),), 1)):
            configs.append((sec, groups, gt, 0, n % 4 == 0))
    return ctx.pmap(_slip_api_shard, [([c], ctx.seed) for c in configs])


def bip85(ctx):
    from btclib import bip85 as b85
    from btclib.bip32 import bip32
    from btclib.mnemonic import bip39

    st = Stats()
    errs = lib_errors()
    seed = bytes(range(16))
    root = bip32.rootxprv_from_seed_(seed)
    mk, mc = B32.master(seed)

    def ref_entropy(path):
        k, c = mk, mc
        for i in path:
            k, c = B32.ckd_prv(k, c, i)
        return hmac.new(b"bip-entropy-from-k", k.to_bytes(32, "big"), "sha512").digest()

    H = 2**31
    langs = {"en": 0, "ja": 1, "ko": 2, "es": 3, "zh": 4, "zh_tw": 5, "fr": 6, "it": 7, "cs": 8, "pt": 9}
    for lang, li in langs.items():
        for words, nb in ((12, 16), (18, 24), (24, 32)):
            for index in (0, 1, 2**31 - 1):
                st.evals += 1
                st.nontrivial += 1
                try:
                    got = b85.mnemonic_from_root_key(root, words, lang, index)
                except errs as e:
                    st.violation("C13/bip85/mnemonic-refused", {"lang": lang, "words": words, "index": index}, repr(e)[:60], "mnemonic")
                    continue
                ent = ref_entropy([83696968 + H, 39 + H, li + H, words + H, index + H])[:nb]
                exp = bip39.mnemonic_from_entropy(ent, lang)
                if got != exp:
                    st.violation("C13/bip85/mnemonic", {"lang": lang, "words": words, "index": index}, got[:40], exp[:40])
    for index in (0, 1, 5):
        st.evals += 2
        e = ref_entropy([83696968 + H, 2 + H, index + H])
        wif = b85.wif_from_root_key(root, index)
        from btclib.to_prv_key import prv_keyinfo_from_prv_key
        q = prv_keyinfo_from_prv_key(wif)[0]
        if q != int.from_bytes(e[:32], "big"):
            st.violation("C13/bip85/wif", {"index": index}, hex(q), e[:32].hex())
        e = ref_entropy([83696968 + H, 32 + H, index + H])
        x = bip32.BIP32KeyData.b58decode(b85.xprv_from_root_key(root, index))
        if x.chain_code != e[:32] or x.key != b"\x00" + e[32:]:
            st.violation("C13/bip85/xprv", {"index": index}, x.key.hex(), e[32:].hex())
        for nbytes in (16, 32, 64):
            st.evals += 1
            e = ref_entropy([83696968 + H, 128169 + H, nbytes + H, index + H])
            got = b85.bytes_entropy_from_root_key(root, nbytes, index)
            if got != e[:nbytes]:
                st.violation("C13/bip85/hex", {"index": index, "bytes": nbytes}, got.hex()[:32], e[:nbytes].hex()[:32])
        e = ref_entropy([83696968 + H, 39 + H, 0 + H, 12 + H, index + H])
        if b85.entropy_from_der_path(root, [83696968 + H, 39 + H, H, 12 + H, index + H]) != e:
            st.violation("C13/bip85/entropy_from_der_path", {"index": index}, "differs", e.hex()[:32])
    # an unhardened step and a public root are refused
    for bad in ([83696968 + H, 39 + H, 0, 12 + H, H], [83696968 + H]):
        st.evals += 1
        try:
            b85.entropy_from_der_path(root, bad)
            if any(i < H for i in bad):
                st.violation("C13/bip85/unhardened-path-accepted", {"path": bad}, "entropy", "refusal")
        except errs:
            pass
    try:
        b85.entropy_from_der_path(bip32.xpub_from_xprv_(root), [83696968 + H, 2 + H, H])
        st.violation("C13/bip85/public-root-accepted", {}, "entropy", "refusal")
    except errs:
        pass
    return st


# ------------------------------------------------------------------------------------------------ Electrum normalization
# Electrum's own table (electrum/mnemonic.py, CJK_INTERVALS), transcribed: (first, last) code point, both inclusive.
ELECTRUM_CJK = [(0x4E00, 0x9FFF), (0x3400, 0x4DBF), (0x20000, 0x2A6DF), (0x2A700, 0x2B73F), (0x2B740, 0x2B81F), (0xF900, 0xFAFF), (0x2F800, 0x2FA1D), (0x3190, 0x319F),
                (0x2E80, 0x2EFF), (0x2F00, 0x2FDF), (0x31C0, 0x31EF), (0x2FF0, 0x2FFF), (0xE0100, 0xE01EF), (0x3100, 0x312F), (0x31A0, 0x31BF), (0xFF00, 0xFFEF),
                (0x3040, 0x309F), (0x30A0, 0x30FF), (0x31F0, 0x31FF), (0x1B000, 0x1B0FF), (0xAC00, 0xD7AF), (0x1100, 0x11FF), (0xA960, 0xA97F), (0xD7B0, 0xD7FF),
                (0x3130, 0x318F), (0xA4D0, 0xA4FF), (0x16F00, 0x16F9F), (0xA000, 0xA48F), (0xA490, 0xA4CF)]


def ref_is_cjk(ch):
    n = ord(ch)
    return any(lo <= n <= hi for lo, hi in ELECTRUM_CJK)


def ref_electrum_normalize(text):
    """Electrum's normalize_text: NFKD, lower, combining marks dropped, whitespace collapsed, whitespace between two CJK removed."""
    import string
    import unicodedata
    t = unicodedata.normalize("NFKD", text).lower()
    t = "".join(c for c in t if not unicodedata.combining(c))
    t = " ".join(t.split())
    return "".join(t[i] for i in range(len(t)) if not (t[i] in string.whitespace and ref_is_cjk(t[i - 1]) and ref_is_cjk(t[i + 1])))


def _cjk_shard(rng):
    from btclib.mnemonic import electrum

    st = Stats()
    lo, hi = rng
    for n in range(lo, hi):
        if 0xD800 <= n <= 0xDFFF:
            continue
        st.evals += 1
        ch = chr(n)
        exp = ref_is_cjk(ch)
        if exp:
            st.nontrivial += 1
        if electrum._is_cjk(ch) is not exp:
            st.violation("C13/electrum/is-cjk-differs-from-electrum-table", {"code_point": hex(n)}, not exp, exp)
    return st


def electrum_normalization(ctx):
    """Every code point's CJK verdict; the normalization of every short string over interval-edge characters; and its effect
    on what a seed is: version and master key of sentences holding an edge character."""
    from btclib.mnemonic import electrum

    step = 0x11000
    st = ctx.pmap(_cjk_shard, [(a, min(a + step, 0x110000)) for a in range(0, 0x110000, step)])
    errs = lib_errors()
    edges = sorted({chr(c) for lo, hi in ELECTRUM_CJK for c in (lo - 1, lo, lo + 1, hi, hi + 1) if not 0xD800 <= c <= 0xDFFF})
    others = ["a", "Z", "e\u0301", "\u3000", "1"]
    alphabet = edges + others
    for a in alphabet:
        for b in alphabet:
            for sep in (" ", "  ", "\u3000", "\t", ""):
                for text in (a + sep + b, "x " + a + sep + b + " y"):
                    st.evals += 1
                    st.nontrivial += 1
                    exp = ref_electrum_normalize(text)
                    try:
                        got = electrum._normalize(text)
                    except errs as e:
                        got = "refused " + repr(e)[:40]
                    if got != exp:
                        st.violation("C13/electrum/normalization-differs-from-electrum", {"text": [hex(ord(c)) for c in text]}, [hex(ord(c)) for c in got], [hex(ord(c)) for c in exp])
    # what a passphrase stretches to: the seed of (mnemonic, passphrase) equals PBKDF2 over the reference normalization
    import hashlib as _h
    mn = electrum.mnemonic_from_entropy("standard", 1, "en")
    for pp in ["", "\u4e00 \u4e01", "\u4dff \u4e00", "\u1100 \u1101 x", "\u9fff \ua000", "A  b\u0301"]:
        st.evals += 1
        exp = _h.pbkdf2_hmac("sha512", ref_electrum_normalize(mn).encode(), ("electrum" + ref_electrum_normalize(pp)).encode(), 2048)
        try:
            got = electrum._seed_from_mnemonic(mn, pp) if hasattr(electrum, "_seed_from_mnemonic") else None
        except errs:
            got = None
        if got is not None and got[1] != exp:
            st.violation("C13/electrum/seed-differs-from-electrum", {"passphrase": [hex(ord(c)) for c in pp]}, got[1].hex()[:16], exp.hex()[:16])
    return st


# ------------------------------------------------------------------------------------------------ entropy and dispatch
def entropy_and_dispatch(ctx):
    """Entropy in each accepted spelling (bytes, int, binary string) is the same bits, leading zeros included; word indexes
    and bits are inverse maps; and a sentence made by one scheme is claimed by that scheme."""
    from btclib.mnemonic import bip39, dispatch, electrum, entropy

    st = Stats()
    errs = lib_errors()
    for nbytes in (16, 20, 24, 28, 32):
        pats = [bytes(nbytes), b"\xff" * nbytes, b"\x00" + b"\xff" * (nbytes - 1), b"\x00" * (nbytes - 1) + b"\x01", b"\x80" + bytes(nbytes - 1), bytes(range(nbytes)),
                hashlib.sha256(b"ent%d" % ctx.seed).digest()[:nbytes].ljust(nbytes, b"\x55")]
        for b in pats:
            st.evals += 1
            if b[0] == 0:
                st.nontrivial += 1
            bits = "".join(f"{x:08b}" for x in b)
            case = {"bytes": b.hex()}
            try:
                got = {"bytes": entropy.bin_str_entropy_from_bytes(b), "int": entropy.bin_str_entropy_from_int(int.from_bytes(b, "big"), 8 * nbytes),
                       "str": entropy.bin_str_entropy_from_str(bits), "generic-bytes": entropy.bin_str_entropy_from_entropy(b),
                       "generic-str": entropy.bin_str_entropy_from_entropy(bits), "hex-int": entropy.bin_str_entropy_from_int(hex(int.from_bytes(b, "big")), 8 * nbytes)}
            except errs as e:
                st.violation("C13/entropy/spelling-refused", case, repr(e)[:80], bits[:16])
                continue
            for nm, g in got.items():
                if g != bits:
                    st.violation("C13/entropy/spelling-changes-the-bits/" + nm, case, g[:24], bits[:24])
            if entropy.bytes_entropy_from_str(bits) != b:
                st.violation("C13/entropy/bytes-from-bits", case, entropy.bytes_entropy_from_str(bits).hex(), b.hex())
            # indexes <-> bits for the 2048-word base, with the BIP39 checksum bits appended (a multiple of 11)
            cs = f"{hashlib.sha256(b).digest()[0]:08b}"[: nbytes // 4]
            full = bits + cs
            idx = entropy.wordlist_indexes_from_bin_str_entropy(full, 2048)
            exp_idx = [int(full[i:i + 11], 2) for i in range(0, len(full), 11)]
            if idx != exp_idx:
                st.violation("C13/entropy/word-indexes", case, idx[:4], exp_idx[:4])
            if entropy.bin_str_entropy_from_wordlist_indexes(exp_idx, 2048) != full:
                st.violation("C13/entropy/bits-from-word-indexes", case, entropy.bin_str_entropy_from_wordlist_indexes(exp_idx, 2048)[:24], full[:24])
            # the sentence is claimed by BIP39 and gives back the entropy
            try:
                m = bip39.mnemonic_from_entropy(b, "en")
                back = bip39.entropy_from_mnemonic(m, "en")
                if back != bits:
                    st.violation("C13/bip39/entropy-not-recovered", case, back[:24], bits[:24])
                types = dispatch.all_seed_types_from_mnemonic(m, "en")
                if not any(t.startswith("bip39") for t in types):
                    st.violation("C13/dispatch/bip39-sentence-not-claimed", case, types, "bip39")
            except errs as e:
                st.violation("C13/bip39/own-entropy-refused", case, repr(e)[:80], "a sentence")
    for version in ("standard", "segwit", "2fa", "2fa_segwit"):
        for ent in (1, 2**131 - 1, 2**100 + ctx.seed):
            st.evals += 1
            try:
                m = electrum.mnemonic_from_entropy(version, ent, "en")
            except errs:
                st.outcomes[("electrum-generation-refused", version)] += 1   # entropy too short for the version: electrum_versions judges that
                continue
            try:
                t = dispatch.seed_type_from_mnemonic(m, "en")
                allt = dispatch.all_seed_types_from_mnemonic(m, "en")
            except errs as e:
                st.violation("C13/dispatch/electrum-sentence-refused", {"version": version}, repr(e)[:80], "a type")
                continue
            if f"electrum_{version}" not in allt or (t != f"electrum_{version}" and not t.startswith("slip39")):
                st.violation("C13/dispatch/electrum-sentence-misclassified", {"version": version, "entropy": hex(ent)[:12]}, (t, allt), f"electrum_{version}")
    for junk in ("", "abandon", "zoo " * 12, "abandon " * 11 + "about "):
        st.evals += 1
        try:
            t = dispatch.seed_type_from_mnemonic(junk.strip(), "en")
        except errs:
            t = "refused"
        except Exception as e:  # noqa: BLE001
            st.violation("C13/dispatch/foreign-exception", {"text": junk[:20]}, repr(e)[:60], "a type or nothing")
            continue
        st.outcomes[("junk", t)] += 1
    return st


SUBS = [
    ("bip39_words", bip39_words),
    ("seeds", seeds),
    ("electrum_versions", electrum_versions),
    ("electrum_normalization", electrum_normalization),
    ("slip39_thresholds", slip39_thresholds),
    ("slip39_api", slip39_api),
    ("bip85", bip85),
    ("entropy_and_dispatch", entropy_and_dispatch),
]
