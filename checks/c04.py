"""C04 — the libsecp256k1 and pure-Python backends are observationally identical.

E1: a registry of every dual-path entry point x the full product of its boundary argument
alphabets (valid and invalid); each case is run with the bindings serving and switched off;
observation = returned value, or exception class.  The other backend is the reference.
Plus E2: short histories over {call, switch off, switch on} on objects built on one arm and
used on the other."""
from __future__ import annotations

import hashlib
import itertools

from mc.core import Stats, shard_round_robin

PROPERTY = "C04"
LEVEL = "exploration"
RULE = ("registry of dual-path APIs (those that consult the backend flag) x product of boundary alphabets: scalars "
        "{0,1,2,n-1,n,n+1,p,2^256-1,-1}, points {G,-G,2G,INF,off-curve,x>=p,y=0}, key encodings {02/03/04/06/07, wrong "
        "prefix, short, long, x off curve, x>=p}, signatures {valid, high-s, r/s in {0,n}, r not an x, truncated, "
        "extended}, tweaks landing on infinity; each run on both arms; non-trivial = at least one arm raised or the "
        "input is a boundary/invalid value")
ASSUMPTIONS = ["the two arms are each other's reference: a defect present identically on both is invisible here (C01-C03, C07, C12 cover the Python arm against independent models)"]
META = {
    "technique": "differential bounded-exhaustive enumeration: every registry case executed on both backends, values and exception classes compared",
    "note": "No external model: each arm is the other's oracle. Inputs outside the boundary alphabets and timing are not covered.",
}


def obs(f):
    try:
        r = f()
    except Exception as e:  # noqa: BLE001 - the class is the observation
        return ("exc", type(e).__name__)
    if hasattr(r, "serialize") and not isinstance(r, (bytes, tuple)):
        try:
            return ("ok", type(r).__name__, r.serialize(check_validity=False))
        except Exception:  # noqa: BLE001
            return ("ok", repr(r))
    return ("ok", r)


def registry(seed):
    """[(api, label, thunk)] — built identically in every worker."""
    from btclib.bip32 import bip32
    from btclib.curves import bytes_from_point, bytes_from_prv_key_int, double_mult_var, mult, multi_mult_var, point_from_octets
    from btclib.curves import secp256k1 as ec
    from btclib.curves.curve import PreparedPoint, _is_x_coordinate_var, _sum_var, _tweak_add_var, _TweakChain, _y_even_var
    from btclib.ecc import bms, dh, dsa, ellswift, musig2, ssa
    from btclib.script import taproot
    from btclib.script.engine.script import dsa_verify
    from btclib.script.engine.tapscript import ssa_verify

    n, p, G = ec.n, ec.p, ec.G
    R = []

    def add(api, label, f):
        R.append((api, label, f))

    gen = int.from_bytes(hashlib.sha256(b"c04-%d" % seed).digest(), "big") % n or 1
    SC = [0, 1, 2, n - 1, n, n + 1, p, 2**256 - 1, -1, gen]
    with_bindings = mult  # noqa: F841
    P2 = _py_mult(2)
    PM = (G[0], p - G[1])

    def lift(x):
        y = pow((pow(x, 3, p) + 7) % p, (p + 1) // 4, p)
        return (x, y) if y * y % p == (pow(x, 3, p) + 7) % p else None

    offx = next(x for x in range(1, 100) if lift(x) is None)
    PTS = [G, PM, P2, (5, 0), (1, 1), (G[0] + p, G[1]), (G[0], 0), (0, 0), (offx, 1), (p, G[1]), (G[0], G[1] + p)]
    for m in SC:
        for Q in PTS:
            add("mult", f"{m}|{Q}", lambda m=m, Q=Q: mult(m, Q))
        add("mult", f"{m}|None", lambda m=m: mult(m))
        add("PreparedPoint.mult", f"{m}", lambda m=m: PreparedPoint(P2).mult(m))
    for u, v in itertools.product(SC[:7], repeat=2):
        for H, Q in itertools.product(PTS[:6], repeat=2):
            add("double_mult_var", f"{u}|{v}|{H}|{Q}", lambda u=u, v=v, H=H, Q=Q: double_mult_var(u, H, v, Q))
    for sc in itertools.product([0, 1, n - 1, n], repeat=3):
        for pts in itertools.product(PTS[:5], repeat=3):
            add("multi_mult_var", f"{sc}|{pts}", lambda sc=sc, pts=pts: multi_mult_var(list(sc), list(pts)))
    for pts in itertools.product(PTS[:8], repeat=2):
        add("_sum_var", f"{pts}", lambda pts=pts: _sum_var(list(pts), ec))
    for pts in itertools.product(PTS[:4], repeat=3):
        add("_sum_var", f"{pts}", lambda pts=pts: _sum_var(list(pts), ec))
    for Q in PTS[:8]:
        for t in SC:
            add("_tweak_add_var", f"{Q}|{t}", lambda Q=Q, t=t: _tweak_add_var(Q, t, ec))
            add("_TweakChain", f"{Q}|{t}", lambda Q=Q, t=t: _TweakChain(Q, ec).point(t))
    # a tweak that lands on infinity: t = n - 2 on 2G
    add("_tweak_add_var", "2G + (n-2)G", lambda: _tweak_add_var(P2, n - 2, ec))
    for q in SC:
        for c in (True, False):
            add("bytes_from_prv_key_int", f"{q}|{c}", lambda q=q, c=c: bytes_from_prv_key_int(q, ec, c))
    good = _sec(P2, True)
    goodu = _sec(P2, False)
    odd = next(k for k in range(2, 50) if _py_mult(k)[1] % 2)
    Podd = _py_mult(odd)
    ENC = [good, goodu, b"\x02" + good[1:], b"\x03" + good[1:], b"\x06" + goodu[1:], b"\x07" + goodu[1:], b"\x05" + good[1:], good[:-1],
           good + b"\x00", b"\x02" + offx.to_bytes(32, "big"), b"\x02" + p.to_bytes(32, "big"), b"\x02" + bytes(32), b"\x04" + bytes(64), b"",
           b"\x04" + goodu[1:33] + bytes(32), _sec(Podd, True), bytes([6 + (Podd[1] & 1)]) + _sec(Podd, False)[1:], bytes([7 - (Podd[1] & 1)]) + _sec(Podd, False)[1:],
           b"\x04" + (G[0] + p).to_bytes(33, "big")[1:] + G[1].to_bytes(32, "big")]
    for e in ENC:
        for hyb in (False, True):
            add("point_from_octets", f"{e.hex()}|{hyb}", lambda e=e, hyb=hyb: point_from_octets(e, ec, hybrid=hyb))
    for x in (0, 1, offx, G[0], p - 1, p, p + G[0], 2**256 - 1, -1):
        add("_is_x_coordinate_var", f"{x}", lambda x=x: _is_x_coordinate_var(x, ec))
        add("_y_even_var", f"{x}", lambda x=x: _y_even_var(x, ec))
    # ---- ECDSA
    mh = hashlib.sha256(b"m").digest()
    for q in (1, 2, n - 1, 0, n, gen):
        for low in (True, False):
            add("dsa.sign_", f"{q}|{low}", lambda q=q, low=low: dsa.sign_(mh, q, lower_s=low))
            add("dsa.sign_recoverable_", f"{q}|{low}", lambda q=q, low=low: _pair(dsa.sign_recoverable_(mh, q, None, low)))
        add("dsa.Signer", f"{q}", lambda q=q: dsa.Signer(q).sign_(mh))
        add("bms.sign", f"{q}", lambda q=q: bms.sign(b"msg", q).serialize() if q else bms.sign(b"msg", q))
    sig = _with_py(lambda: dsa.sign_(mh, 2))
    Qk = P2
    SIGS = [sig, dsa.Sig(sig.r, n - sig.s, check_validity=False), dsa.Sig(0, sig.s, check_validity=False), dsa.Sig(sig.r, 0, check_validity=False),
            dsa.Sig(n, sig.s, check_validity=False), dsa.Sig(sig.r, n, check_validity=False), dsa.Sig(offx, sig.s, check_validity=False),
            dsa.Sig(sig.r, (sig.s + 1) % n, check_validity=False),
            sig.serialize(), sig.serialize()[:-1], sig.serialize() + b"\x00", b""]
    KEYS = [Qk, G, good, goodu, ENC[4], ENC[5], ENC[9], ENC[10], ENC[16], ENC[17], (5, 0), (1, 1), b"", (G[0] + p, G[1])]
    for s_, k_ in itertools.product(SIGS, KEYS):
        add("dsa.verify_", f"{_d(s_)}|{_d(k_)}", lambda s_=s_, k_=k_: dsa.verify_(mh, k_, s_))
        add("dsa.assert_as_valid_", f"{_d(s_)}|{_d(k_)}", lambda s_=s_, k_=k_: dsa.assert_as_valid_(mh, k_, s_))
    for s_ in SIGS:
        for kid in (0, 1, 2, 3, 4, -1):
            add("dsa.recover_pub_key_", f"{_d(s_)}|{kid}", lambda s_=s_, kid=kid: dsa.recover_pub_key_(kid, mh, s_))
        add("dsa.recover_pub_keys_", f"{_d(s_)}", lambda s_=s_: dsa.recover_pub_keys_(mh, s_))
    for pk, sg in itertools.product(ENC, [sig.serialize(), sig.serialize()[:-1], b"", b"\x30"]):  # no high s: fix_signature normalises it upstream (documented precondition)
        add("engine.dsa_verify", f"{pk.hex()}|{sg.hex()}", lambda pk=pk, sg=sg: dsa_verify(mh, pk, sg))
    # ---- BIP340
    for q in (1, 2, n - 1, 0, n, gen):
        for msg in (b"", b"a", bytes(32), bytes(33)):
            add("ssa.sign_", f"{q}|{msg.hex()}", lambda q=q, msg=msg: ssa.sign_(msg, q, bytes(32)))
        add("ssa.Signer", f"{q}", lambda q=q: ssa.Signer(q).sign_(bytes(32), bytes(32)))
    ss = _with_py(lambda: ssa.sign_(bytes(32), 2, bytes(32)))
    ss0 = _with_py(lambda: ssa.sign_(b"", 2, bytes(32)))
    xq = Qk[0]
    for base, msg in ((ss, bytes(32)), (ss0, b"")):
        SS = [base, ssa.Sig(base.r, n, check_validity=False), ssa.Sig(p, base.s, check_validity=False), ssa.Sig(offx, base.s, check_validity=False),
              ssa.Sig(base.r, (base.s + 1) % n, check_validity=False), base.serialize(), base.serialize()[:-1], base.serialize() + b"\x00", b""]
        XK = [xq, xq.to_bytes(32, "big"), good, goodu, Qk, offx, p, p + xq, 2**256, -1, (5, 0), b"", bytes(33), PM]
        for s_, k_ in itertools.product(SS, XK):
            add("ssa.verify_", f"{_d(s_)}|{_d(k_)}|{msg.hex()}", lambda s_=s_, k_=k_, msg=msg: ssa.verify_(msg, k_, s_))
            add("ssa.assert_as_valid_", f"{_d(s_)}|{_d(k_)}|{msg.hex()}", lambda s_=s_, k_=k_, msg=msg: ssa.assert_as_valid_(msg, k_, s_))
    for size in (2, 3):
        sigs_ = [_with_py(lambda i=i: ssa.sign_(b"b%d" % i, i + 1, bytes(32))) for i in range(size)]
        keys_ = [_py_mult(i + 1)[0] for i in range(size)]
        msgs_ = [b"b%d" % i for i in range(size)]
        add("ssa.batch_verify_", f"valid{size}", lambda m=msgs_, k=keys_, s=sigs_: ssa.batch_verify_(m, k, s))
        for pos in range(size):
            bad = list(sigs_)
            bad[pos] = ssa.Sig(bad[pos].r, (bad[pos].s + 1) % n, check_validity=False)
            add("ssa.batch_verify_", f"bad{size}@{pos}", lambda m=msgs_, k=keys_, s=bad: ssa.batch_verify_(m, k, s))
    for pk, sg in itertools.product([xq.to_bytes(32, "big"), offx.to_bytes(32, "big"), p.to_bytes(32, "big"), bytes(31), bytes(33), b""],
                                    [ss.serialize(), ss.serialize()[:-1], bytes(64), b"", ss.serialize() + b"\x01"]):
        add("tapscript.ssa_verify", f"{pk.hex()}|{sg.hex()}", lambda pk=pk, sg=sg: ssa_verify(bytes(32), pk, sg))
    # ---- DH, ellswift
    for d in SC:
        for Q in PTS[:8]:
            add("dh.diffie_hellman", f"{d}|{Q}", lambda d=d, Q=Q: dh.diffie_hellman(d, Q, 32))
    for d in (1, 2, n - 1, 0, n, gen):
        add("ellswift.create_var->decode", f"{d}", lambda d=d: ellswift.decode_var(ellswift.create_var(d)))
    for e in ENC[:6] + [ENC[9], ENC[12]]:
        add("ellswift.encode_var->decode", f"{e.hex()}", lambda e=e: ellswift.decode_var(ellswift.encode_var(e)))
    ELL = [bytes(64), b"\xff" * 64, bytes(range(64)), p.to_bytes(32, "big") + bytes(32), bytes(63), bytes(65), hashlib.sha512(b"ell%d" % seed).digest()]
    for ell in ELL:
        add("ellswift.decode_var", f"{ell.hex()}", lambda ell=ell: ellswift.decode_var(ell))
        for d in (1, n - 1, 0, n):
            for init in (True, False):
                add("ellswift.xdh", f"{ell.hex()[:8]}|{d}|{init}", lambda ell=ell, d=d, init=init: ellswift.xdh(ELL[2], ell, d, initiating=init) if init else ellswift.xdh(ell, ELL[2], d, initiating=init))
    # ---- taproot
    for ik in (good, goodu, xq.to_bytes(32, "big"), ENC[9], ENC[10], ENC[6], b"\x02" + bytes(32), Qk, xq, offx,
               _sec(Podd, False), Podd, (Podd[0], p - Podd[1]), _sec((Podd[0], p - Podd[1]), False), _sec(Podd, False).hex()):  # every spelling of an odd-y and an even-y key
        for tree in (None, [[(0xC0, ["OP_1"])]], [(0xC0, ["OP_1"])], [[(0xC0, ["OP_1"])], [(0xC0, ["OP_2"])]]):
            add("taproot.output_pubkey", f"{_d(ik)}|{repr(tree)[:14]}", lambda ik=ik, tree=tree: taproot.output_pubkey(ik, tree))
    for q in (1, 2, n - 1, 0, n, odd, gen):
        for tree in (None, [[(0xC0, ["OP_1"])]], [(0xC0, ["OP_1"])]):
            add("taproot.output_prvkey", f"{q}|{repr(tree)[:14]}", lambda q=q, tree=tree: taproot.output_prvkey(q, tree))
    for ik in (good, goodu, _sec(Podd, True), _sec(Podd, False), Podd, (Podd[0], p - Podd[1]), Qk):
        for tree in ([(0xC0, ["OP_1"])], [[(0xC0, ["OP_1"])], [(0xC0, ["OP_2"])]]):
            for li in (0, 1):
                add("taproot.input_script_sig", f"{_d(ik)}|{len(tree)}|{li}", lambda ik=ik, tree=tree, li=li: taproot.input_script_sig(ik, tree, li))
    qk, par = _with_py(lambda: taproot.output_pubkey(xq.to_bytes(32, "big"), None))
    for qq in (qk, offx.to_bytes(32, "big"), bytes(32), qk[:-1], p.to_bytes(32, "big")):
        for cb in (bytes([0xC0 + par]) + xq.to_bytes(32, "big"), bytes([0xC1 - par]) + xq.to_bytes(32, "big"), bytes([0xC0]) + offx.to_bytes(32, "big"),
                   bytes([0xC0]) + p.to_bytes(32, "big"), bytes(33), bytes(32), bytes(65)):
            add("taproot.check_output_pubkey", f"{qq.hex()[:8]}|{cb.hex()[:10]}|{len(cb)}", lambda qq=qq, cb=cb: taproot.check_output_pubkey(qq, b"\x51", cb))
    # the same with an output key that does commit to the leaf: the honest control block is a proof, and the parity bit
    # of its first byte is part of it
    for ikx in [_py_mult(kk)[0] for kk in range(2, 8)]:  # both parities of the output key occur
        ikb = ikx.to_bytes(32, "big")
        try:
            qk2, par2 = _with_py(lambda ikb=ikb: taproot.output_pubkey(b"\x02" + ikb, [(0xC0, ["OP_1"])]))  # 32 bare bytes would be read as a private key
        except Exception:  # noqa: BLE001
            continue
        for cb in (bytes([0xC0 + par2]) + ikb, bytes([0xC1 - par2]) + ikb, bytes([0xC0 + par2]) + ikb + bytes(32), bytes([0xC2 + par2]) + ikb):
            for script in (b"\x51", b"\x52"):
                add("taproot.check_output_pubkey", f"leaf|{qk2.hex()[:8]}|{cb.hex()[:4]}|{len(cb)}|{script.hex()}", lambda qq=qk2, cb=cb, script=script: taproot.check_output_pubkey(qq, script, cb))
    # ---- BIP32
    for seed_ in (bytes(16), bytes(range(32)), hashlib.sha512(b"s%d" % seed).digest()):
        root = _with_py(lambda: bip32.rootxprv_from_seed_(seed_))
        xpub = _with_py(lambda: bip32.xpub_from_xprv_(root))
        add("bip32.rootxprv_from_seed_", seed_.hex()[:8], lambda s=seed_: bip32.rootxprv_from_seed_(s))
        add("bip32.xpub_from_xprv_", seed_.hex()[:8], lambda r=root: bip32.xpub_from_xprv_(r))
        for path in ("m", "m/0", "m/0h", "m/2147483647/1", "m/0/1/2/3", "m/1h/2/3h/4", "m/4294967295"):
            add("bip32.derive_", f"prv|{path}", lambda r=root, path=path: bip32.derive_(r, path))
            add("bip32.derive_", f"pub|{path}", lambda x=xpub, path=path: bip32.derive_(x, path))
    # ---- MuSig2 partial verification
    q1, q2 = 3, 4
    pk1, pk2 = musig2.individual_pub_key(q1), musig2.individual_pub_key(q2)
    for msg in (bytes(32), b"", bytes(33)):
        for tweaks, xonly in (([], []), ([bytes(31) + b"\x01"], [True]), ([bytes(31) + b"\x02", bytes(31) + b"\x03"], [False, True])):
            def mk(msg=msg, tweaks=tweaks, xonly=xonly, tamper=0, wrongkey=False):
                sn1, pn1 = musig2.nonce_gen_(bytes(32), q1, pk1)
                sn2, pn2 = musig2.nonce_gen_(b"\x01" * 32, q2, pk2)
                ctx = musig2.SessionContext(musig2.nonce_agg([pn1, pn2]), [pk1, pk2], tweaks, xonly, msg)
                ps = musig2.sign(sn1, q1, ctx)
                if tamper:
                    ps = ((int.from_bytes(ps, "big") + tamper) % n).to_bytes(32, "big")
                return musig2.partial_sig_verify_(ps, pn1, pk2 if wrongkey else pk1, ctx)
            add("musig2.partial_sig_verify_", f"{msg.hex()[:4]}{len(msg)}|{len(tweaks)}|ok", mk)
            add("musig2.partial_sig_verify_", f"{len(msg)}|{len(tweaks)}|tampered", lambda mk=mk: mk(tamper=1))
            add("musig2.partial_sig_verify_", f"{len(msg)}|{len(tweaks)}|wrongkey", lambda mk=mk: mk(wrongkey=True))
    # ---- silent payments (BIP352): sender and scanner on both arms
    from btclib import silent_payments as sp
    from btclib.hashes import hash160
    from btclib.tx import OutPoint

    b_scan, b_spend = 11, 12
    B_scan, B_spend = _py_mult(b_scan), _py_mult(b_spend)
    addr = _with_py(lambda: sp.address_from_keys(B_scan, B_spend))
    laddr = _with_py(lambda: sp.labeled_address_from_keys(b_scan, B_spend, 1))
    outpoints = [OutPoint(bytes([i + 1]) * 32, i) for i in range(2)]
    k1, k2 = 21, odd
    spk_wpkh = b"\x00\x14" + hash160(_sec(_py_mult(k1), True))
    spk_tr = b"\x51\x20" + _py_mult(k2)[0].to_bytes(32, "big")
    prvs = [(k1, spk_wpkh), (k2, spk_tr)]
    pubs = [(_py_mult(k1), spk_wpkh), (_py_mult(k2), spk_tr)]
    for addrs in ([addr], [addr, addr], [addr, laddr], []):
        add("sp.output_keys", f"{len(addrs)}", lambda addrs=addrs: sp.output_keys(prvs, outpoints, addrs))
    add("sp.output_keys", "cancelling-keys", lambda: sp.output_keys([(k1, spk_wpkh), (n - k1, spk_wpkh)], outpoints, [addr]))
    add("sp.output_keys", "no-outpoints", lambda: sp.output_keys(prvs, [], [addr]))
    outs = _with_py(lambda: sp.output_keys(prvs, outpoints, [addr, addr, laddr]))
    labels = _with_py(lambda: sp.label_lookup(b_scan, [0, 1]))
    decoys = {"none": [], "other-key": [_py_mult(77)[0].to_bytes(32, "big")], "off-curve": [offx.to_bytes(32, "big")], "x>=p": [p.to_bytes(32, "big")],
              "short": [bytes(31)], "zero": [bytes(32)]}
    for dk, dv in decoys.items():
        for lab in (None, labels):
            for order in (0, 1):
                lst = (dv + outs) if order else (outs + dv)
                add("sp.scan_transaction_outputs", f"{dk}|{lab is not None}|{order}",
                    lambda lst=lst, lab=lab: sorted((o.pub_key, o.prv_key_tweak) for o in sp.scan_transaction_outputs(b_scan, B_spend, outpoints, pubs, lst, lab)))
    add("sp.scan_transaction_outputs", "cancelling-keys", lambda: sp.scan_transaction_outputs(b_scan, B_spend, outpoints, [(_py_mult(k1), spk_wpkh), ((_py_mult(k1)[0], p - _py_mult(k1)[1]), spk_wpkh)], outs, None))
    return R


def _d(x):
    if isinstance(x, (bytes, bytearray)):
        return x.hex()[:24] + f"({len(x)})"
    if hasattr(x, "r"):
        return f"Sig({x.r % 1000},{x.s % 1000})"
    return str(x)[:40]


def _pair(t):
    return (t[0].serialize(check_validity=False), t[1])


def _py_mult(m):
    from models import ec_ref as R
    from models.bip340_ref import G_K1, P_K1

    return R.mul(m, G_K1, P_K1, 0)


def _sec(P, compressed):
    if compressed:
        return bytes([2 + (P[1] & 1)]) + P[0].to_bytes(32, "big")
    return b"\x04" + P[0].to_bytes(32, "big") + P[1].to_bytes(32, "big")


def _with_py(f):
    """Build an input on a fixed arm (Python) so both runs of a case see the same input."""
    from mc.core import backend

    with backend(False):
        return f()


def _registry_shard(arg):
    shard, nshards, seed = arg
    from btclib.curves import curve

    st = Stats()
    reg = registry(seed)
    st.notes["registry_size"] = len(reg) if shard == 0 else 0
    apis = set()
    for i, (api, label, f) in enumerate(reg):
        if i % nshards != shard:
            continue
        st.evals += 1
        curve.set_libsecp256k1_serving(serving=True)
        a = obs(f)
        curve.set_libsecp256k1_serving(serving=False)
        b = obs(f)
        curve.set_libsecp256k1_serving(serving=True)
        apis.add(api)
        if a[0] == "exc" or b[0] == "exc":
            st.nontrivial += 1
        st.outcomes[(api, a[0], b[0])] += 1
        if a != b:
            ka = a[1] if a[0] == "exc" else "ok"
            kb = b[1] if b[0] == "exc" else "ok"
            st.violation(f"C04/{api}/{ka}-vs-{kb}", {"api": api, "case": label}, {"bindings": a}, {"python": b})
        elif len(st.samples) < 2:
            st.sample({"api": api, "case": label[:80], "both": str(a)[:80]})
    return st


def registry_sweep(ctx):
    nsh = 64
    st = ctx.pmap(_registry_shard, [(i, nsh, ctx.seed) for i in range(nsh)])
    return st


# ---------------------------------------------------------------------------------------- switch histories (E2)
def _history_shard(arg):
    hist_list, seed = arg
    from btclib.curves import curve
    from btclib.curves import secp256k1 as ec
    from btclib.curves.curve import PreparedPoint, _TweakChain
    from btclib.ecc import dsa, musig2, ssa

    st = Stats()
    mh = hashlib.sha256(b"h").digest()
    P2 = _py_mult(2)

    def fresh():
        curve.set_libsecp256k1_serving(serving=True)
        objs = {}
        return objs

    def build(objs):
        objs["dsa"] = dsa.Signer(5)
        objs["ssa"] = ssa.Signer(5)
        objs["chain"] = _TweakChain(P2, ec)
        objs["prep"] = PreparedPoint(P2)
        q1, q2 = 3, 4
        pk1, pk2 = musig2.individual_pub_key(q1), musig2.individual_pub_key(q2)
        sn1, pn1 = musig2.nonce_gen_(bytes(32), q1, pk1)
        sn2, pn2 = musig2.nonce_gen_(b"\x01" * 32, q2, pk2)
        objs["musig"] = (musig2.SessionContext(musig2.nonce_agg([pn1, pn2]), [pk1, pk2], [], [], bytes(32)), pn1, pk1, musig2.sign(sn1, q1, musig2.SessionContext(musig2.nonce_agg([pn1, pn2]), [pk1, pk2], [], [], bytes(32))))

    calls = {
        "dsa": lambda o: o["dsa"].sign_(mh).serialize(),
        "ssa": lambda o: o["ssa"].sign_(bytes(32), bytes(32)),
        "chain": lambda o: o["chain"].point(7),
        "prep": lambda o: o["prep"].mult(9),
        "musig": lambda o: musig2.partial_sig_verify_(o["musig"][3], o["musig"][1], o["musig"][2], o["musig"][0]),
    }
    # reference answers: everything built and called with the bindings serving, nothing else happening
    ref = {}
    o = fresh()
    build(o)
    for k, f in calls.items():
        ref[k] = obs(lambda: f(o))
    for hist in hist_list:
        o = fresh()
        built = False
        for step in hist:
            st.transitions += 1
            if step == "off":
                curve.set_libsecp256k1_serving(serving=False)
            elif step == "on":
                curve.set_libsecp256k1_serving(serving=True)
            elif step == "build":
                build(o)
                built = True
            else:
                if not built:
                    build(o)
                    built = True
                st.evals += 1
                got = obs(lambda: calls[step](o))
                if got != ref[step]:
                    st.violation(f"C04/history/{step}", {"history": hist}, got, ref[step])
        st.states += 1
        st.nontrivial += 1 if ("off" in hist and "on" in hist) else 0
        st.outcomes[hist[0]] += 1
        curve.set_libsecp256k1_serving(serving=True)
    return st


def switch_histories(ctx):
    alpha = ["off", "on", "build", "dsa", "ssa", "chain", "prep", "musig"]
    depth = ctx.pick(4, 5)
    hists = [h for d in range(1, depth + 1) for h in itertools.product(alpha, repeat=d) if any(s in ("dsa", "ssa", "chain", "prep", "musig") for s in h)]
    st = ctx.pmap(_history_shard, [(sh, ctx.seed) for sh in shard_round_robin(hists, 64)])
    st.notes["depth"] = depth
    return st


SUBS = [
    ("registry", registry_sweep),
    ("switch_histories", switch_histories),
]
