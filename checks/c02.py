"""C02 — ECDSA: signatures verify, verification is the SEC 1 equation, DER is canonical.

E1: every (key, challenge, nonce, lower_s) and every (challenge, key, r, s) on the toy
curves of U(P) (cofactor > 1 included) against an integer-level SEC 1 model built on
models/ec_ref.py; RFC 6979 against an independent HMAC-DRBG transcription; strict DER
against BIP66's IsValidSignatureEncoding over edit-distance neighbourhoods."""
from __future__ import annotations

import hashlib
import hmac
import itertools

from mc.core import Stats, backend, lib_errors, shard_round_robin
from models import ec_ref as R
from checks.c01 import aff_to_ref, curve_key, make_curve, ref_to_aff

PROPERTY = "C02"
LEVEL = "exploration"
RULE = ("every (q,c,k,lower_s) in [1,n)x[0,n)x[1,n)x{F,T} and every (c,Q,r,s) with r,s in [-1,n+1] and Q any curve "
        "point, on every accepted curve of U(P) with n <= bound; every key x 8 messages x 3 hash functions on toy and "
        "catalogued curves vs an RFC 6979 model; every byte string within edit distance 1 (B256) of canonical DER "
        "seeds and distance 2 on structural positions; non-trivial = r=0/s=0/x_K>=n/high-s/refusal/boundary cases")
ASSUMPTIONS = [
    "models/ec_ref.py is the group law; SEC 1 4.1.3/4.1.4/4.1.6 transcribed as integer code",
    "hashlib/hmac are correct",
    "soundness on 256-bit curves is covered on boundary values only (no enumeration of 2^256 scalars)",
]
META = {
    "technique": "bounded-exhaustive enumeration of (key, challenge, nonce) and (r, s) spaces on toy curves vs SEC 1 model; DER edit-distance neighbourhoods vs BIP66",
    "note": "Trusts the affine reference arithmetic and the RFC 6979 / BIP66 transcriptions (gated on RFC 6979 A.2.5 and BIP66 facts).",
}


def digest_for(c, nlen, size=32):
    """A digest whose leftmost nlen bits are c (the rest zero)."""
    return (c << (size * 8 - nlen)).to_bytes(size, "big")


def _toy_shard(arg):
    plist, nmax_sign, nmax_sound = arg
    from btclib.ecc import dsa
    from btclib.exceptions import BTClibRuntimeError

    st = Stats()
    for params in plist:
        p, a, b, G, n, h = params
        if n > nmax_sign:
            continue
        ec = make_curve(params)
        if ec is None:
            continue
        ck = curve_key(params)
        tab = R.subgroup_table(G, n, p, a)
        allpts = R.points(p, a, b)
        inv = {k: pow(k, -1, n) for k in range(1, n)}
        for q in range(1, n):
            Q = tab[q]
            QJ = (Q[0], Q[1], 1)
            for c in range(n):
                for k in range(1, n):
                    K = tab[k]
                    r = K[0] % n
                    s0 = inv[k] * (c + r * q) % n
                    for low in (False, True):
                        st.evals += 1
                        try:
                            sig, key_id = dsa._sign_recoverable_(c, q, k, low, ec)
                        except BTClibRuntimeError:
                            if r != 0 and s0 != 0:
                                st.violation("C02/sign/refused-valid", {"curve": ck, "q": q, "c": c, "k": k, "low": low}, "raised", (r, s0))
                            st.nontrivial += 1
                            continue
                        if r == 0 or s0 == 0:
                            st.violation("C02/sign/zero-r-or-s-signed", {"curve": ck, "q": q, "c": c, "k": k}, (sig.r, sig.s), "refusal")
                            continue
                        es = n - s0 if (low and s0 > n // 2) else s0
                        if K[0] >= n or s0 > n // 2:
                            st.nontrivial += 1
                        if (sig.r, sig.s) != (r, es):
                            st.violation("C02/sign/value", {"curve": ck, "q": q, "c": c, "k": k, "low": low}, (sig.r, sig.s), (r, es))
                            continue
                        if low and sig.s > n // 2:
                            st.violation("C02/sign/not-low-s", {"curve": ck, "q": q, "c": c, "k": k}, sig.s, "<= n//2")
                        # verifies under the signer's key (public API, crafted digest)
                        mh = digest_for(c, ec.nlen)
                        ok = dsa.verify_(mh, ref_to_aff(Q), dsa.Sig(sig.r, sig.s, ec, check_validity=False))
                        if ok is not True:
                            st.violation("C02/verify/own-signature-rejected", {"curve": ck, "q": q, "c": c, "k": k, "low": low}, ok, True)
                        # recovery id
                        try:
                            RJ = dsa._recover_pub_key_(key_id, c, sig.r, sig.s, ec, lower_s=False)
                            got = aff_to_ref(ec.aff_from_jac_var(RJ))
                        except Exception as e:  # noqa: BLE001
                            got = repr(e)[:80]
                        if got != Q:
                            st.violation("C02/recover/key-id-wrong", {"curve": ck, "q": q, "c": c, "k": k, "low": low, "key_id": key_id}, got, Q)
                        st.outcomes[("signed", key_id)] += 1
        if n > nmax_sound:
            continue
        # soundness: every (c, Q, r, s), Q any point of the curve (off-subgroup included), r, s in [-1, n+1]
        for Q in allpts:
            if Q[1] == 0:
                continue
            in_sub = Q in set(t for t in tab if t)
            for c in range(n):
                mh = digest_for(c, ec.nlen)
                for r in range(-1, n + 2):
                    for s in range(-1, n + 2):
                        st.evals += 1
                        exp = False
                        if 0 < r < n and 0 < s < n:
                            w = inv[s]
                            u, v = c * w % n, r * w % n
                            Kp = R.add(R.mul(u, G, p, a), R.mul(v, Q, p, a), p, a)
                            exp = Kp is not None and Kp[0] % n == r
                        else:
                            st.nontrivial += 1
                        try:
                            got = dsa.verify_(mh, Q, dsa.Sig(r, s, ec, check_validity=False))
                        except Exception as e:  # noqa: BLE001
                            got = "raised " + type(e).__name__
                        if isinstance(got, str):
                            st.violation("C02/verify/raises", {"curve": ck, "Q": Q, "c": c, "r": r, "s": s}, got, exp)
                        elif got is not exp:
                            if in_sub:
                                st.violation("C02/verify/soundness", {"curve": ck, "Q": Q, "c": c, "r": r, "s": s}, got, exp)
                            elif (len(allpts) + 1) % 2:
                                # odd group order: no 2-torsion point exists, the arithmetic is exact for every point
                                st.violation("C02/verify/soundness-off-subgroup-key", {"curve": ck, "Q": Q, "c": c, "r": r, "s": s}, got, exp)
                            else:
                                # SEC 1 4.1.4 presumes a valid public key (n*Q = O).  A key outside <G> on an even-order
                                # curve can drive the sum onto the 2-torsion point (x, 0), which btclib's in-band infinity
                                # cannot spell and documents as unsupported: only totality (a bool, no exception) is
                                # required there; the disagreements are counted, not judged.
                                st.notes["off_subgroup_key_disagreements_with_naive_model"] = st.notes.get("off_subgroup_key_disagreements_with_naive_model", 0) + 1
                        st.outcomes[("verify", exp)] += 1
    if plist:
        st.sample({"curve": curve_key(plist[0]), "space": "(q,c,k,low) and (c,Q,r,s)"})
    return st


def toy(ctx):
    P = ctx.pick(13, 19)
    nsign = ctx.pick(17, 23)
    nsound = ctx.pick(11, 13)
    params = list(R.universe_params(P))
    # curves with a cofactor of 3 and more (p > 2n: x_K = r + j*n with j >= 2 exists) from a wider universe
    wide = [c for c in R.universe_params(ctx.pick(31, 43)) if c[5] >= 3 and c[0] > P and c[4] <= ctx.pick(11, 13)]
    params += wide
    st = ctx.pmap(_toy_shard, [(sh, nsign, nsound) for sh in shard_round_robin(params, 96)])
    st.notes.update({"universe_P": P, "n_max_sign": nsign, "n_max_soundness": nsound, "extra_cofactor>=3_curves": len(wide)})
    return st


# ------------------------------------------------------------------ RFC 6979 + public API
def bits2int(bs, nlen):
    i = int.from_bytes(bs, "big")
    blen = len(bs) * 8
    return i >> (blen - nlen) if blen > nlen else i


def rfc6979_ref(q, h1, n, hfname):
    """RFC 6979 section 3.2 with h1 = message digest; returns k."""
    nlen = n.bit_length()
    rolen = (nlen + 7) // 8
    hf = getattr(hashlib, hfname)
    hlen = hf().digest_size
    x = q.to_bytes(rolen, "big")
    z = (bits2int(h1, nlen) % n).to_bytes(rolen, "big")
    V = b"\x01" * hlen
    Kk = b"\x00" * hlen
    Kk = hmac.new(Kk, V + b"\x00" + x + z, hf).digest()
    V = hmac.new(Kk, V, hf).digest()
    Kk = hmac.new(Kk, V + b"\x01" + x + z, hf).digest()
    V = hmac.new(Kk, V, hf).digest()
    retries = 0
    while True:
        T = b""
        while len(T) < rolen:
            V = hmac.new(Kk, V, hf).digest()
            T += V
        k = bits2int(T, nlen)
        if 0 < k < n:
            return k, retries
        retries += 1
        Kk = hmac.new(Kk, V + b"\x00", hf).digest()
        V = hmac.new(Kk, V, hf).digest()


def self_gate_rfc6979():
    # RFC 6979 A.2.5 (P-256, SHA-256, "sample")
    n = 0xFFFFFFFF00000000FFFFFFFFFFFFFFFFBCE6FAADA7179E84F3B9CAC2FC632551
    x = 0xC9AFA9D845BA75166B5C215767B1D6934E50C3DB36E89B127B8A622B120F6721
    k, _ = rfc6979_ref(x, hashlib.sha256(b"sample").digest(), n, "sha256")
    assert k == 0xA6E3C57DD01ABE90086538398355DD4C3B17AA873382B0F24D6129493D8AAD60
    # A.2.3 P-192 SHA-512 "test"
    n = 0xFFFFFFFFFFFFFFFFFFFFFFFF99DEF836146BC9B1B4D22831
    x = 0x6FAB034934E4C0FC9AE67F5B5659A9D7D1FEFD187EE09FD4
    k, _ = rfc6979_ref(x, hashlib.sha512(b"test").digest(), n, "sha512")
    assert k == 0x0758753A5254759C7CFBAD2E2D9B0792EEE44136C9480527


def sign_ref(q, c, k, n, G, p, a, low):
    K = R.mul(k, G, p, a)
    r = K[0] % n
    s = pow(k, -1, n) * (c + r * q) % n
    if r == 0 or s == 0:
        return None
    if low and s > n // 2:
        s = n - s
    return r, s


def _public_shard(arg):
    plist, msgs = arg
    from btclib.ecc import dsa
    from btclib.ecc.rfc6979_nonce import rfc6979_nonce_

    st = Stats()
    errs = lib_errors()
    for params in plist:
        ec = make_curve(params)
        if ec is None:
            continue
        p, a, b, G, n, h = params
        ck = curve_key(params)
        tab = R.subgroup_table(G, n, p, a)
        for hfname in ("sha1", "sha256", "sha512"):
            hf = getattr(hashlib, hfname)
            for q in range(1, n):
                for msg in msgs:
                    st.evals += 1
                    mh = hf(msg).digest()
                    c = bits2int(mh, ec.nlen) % n
                    k, retries = rfc6979_ref(q, mh, n, hfname)
                    if retries:
                        st.nontrivial += 1
                    st.outcomes[("retries", min(retries, 3))] += 1
                    try:
                        got_k = rfc6979_nonce_(mh, q, ec, hf)
                    except errs as e:
                        got_k = "raised " + type(e).__name__
                    if got_k != k:
                        st.violation("C02/rfc6979/nonce", {"curve": ck, "hf": hfname, "q": q, "msg": msg}, got_k, k)
                        continue
                    for low in (True, False):
                        exp = sign_ref(q, c, k, n, G, p, a, low)
                        try:
                            sig = dsa.sign_(mh, q, ec=ec, hf=hf, lower_s=low, grind=False)
                            got = (sig.r, sig.s)
                        except errs as e:
                            got = None
                            if exp is not None:
                                st.violation("C02/sign_/refuses", {"curve": ck, "hf": hfname, "q": q, "msg": msg, "low": low}, repr(e)[:80], exp)
                            continue
                        if exp is None:
                            # RFC 6979 3.4: a zero r or s means the next candidate; the library may retry or refuse, but not emit a zero
                            if 0 in got:
                                st.violation("C02/sign_/zero-emitted", {"curve": ck, "hf": hfname, "q": q, "msg": msg}, got, "non-zero")
                            continue
                        if got != exp:
                            st.violation("C02/sign_/not-rfc6979", {"curve": ck, "hf": hfname, "q": q, "msg": msg, "low": low}, got, exp)
                            continue
                        sig2 = dsa.sign_(mh, q, ec=ec, hf=hf, lower_s=low, grind=False)
                        if (sig2.r, sig2.s) != got:
                            st.violation("C02/sign_/not-deterministic", {"curve": ck, "hf": hfname, "q": q}, (sig2.r, sig2.s), got)
                        Q = ref_to_aff(tab[q])
                        if dsa.verify_(mh, Q, sig, hf) is not True:
                            st.violation("C02/verify_/own-rejected", {"curve": ck, "hf": hfname, "q": q, "msg": msg, "low": low}, False, True)
                        # a different key must not verify unless the model says the equation holds for it
                        Q2 = ref_to_aff(tab[(q % (n - 1)) + 1])
                        w = pow(got[1], -1, n)
                        Kp = R.add(R.mul(c * w % n, G, p, a), R.mul(got[0] * w % n, tab[(q % (n - 1)) + 1], p, a), p, a)
                        exp2 = Kp is not None and Kp[0] % n == got[0]
                        if dsa.verify_(mh, Q2, sig, hf) is not exp2:
                            st.violation("C02/verify_/other-key", {"curve": ck, "hf": hfname, "q": q, "msg": msg}, not exp2, exp2)
                        # public recovery: the signer's key is among the candidates and is what key_id names
                        try:
                            keys = dsa.recover_pub_keys_(mh, sig, hf)
                            if Q not in keys:
                                st.violation("C02/recover_pub_keys_/misses-signer", {"curve": ck, "hf": hfname, "q": q, "msg": msg}, keys, Q)
                            rsig, kid = dsa.sign_recoverable_(mh, q, None, low, ec, hf)
                            got_Q = dsa.recover_pub_key_(kid, mh, rsig, hf)
                            if got_Q != Q:
                                st.violation("C02/recover_pub_key_/wrong-key", {"curve": ck, "hf": hfname, "q": q, "msg": msg, "key_id": kid}, got_Q, Q)
                        except errs as e:
                            st.violation("C02/recover/raises", {"curve": ck, "hf": hfname, "q": q, "msg": msg}, repr(e)[:100], Q)
    return st


def public_api(ctx):
    self_gate_rfc6979()
    P = ctx.pick(13, 19)
    params = [c for c in R.universe_params(P)]
    stride = ctx.pick(3, 1)
    chosen = params[ctx.seed % stride::stride]
    msgs = [b"", b"a", b"message", b"\x00" * 33, ("seed%d" % ctx.seed).encode(), b"\xff" * 64][: ctx.pick(4, 6)]
    st = ctx.pmap(_public_shard, [(sh, msgs) for sh in shard_round_robin(chosen, 96)])
    st.notes["curves"] = len(chosen)
    return st


def _catalogue_shard(arg):
    name, seed = arg
    from btclib.curves import CURVES, secp256k1
    from btclib.ecc import dsa
    from btclib.ecc.rfc6979_nonce import rfc6979_nonce_

    st = Stats()
    ec = CURVES[name]
    p, a, n, G = ec.p, ec._a, ec.n, ec.G
    keys = [1, 2, n - 1, n // 2, int.from_bytes(hashlib.sha512(b"k%d" % seed).digest(), "big") % n or 1]
    for serving in ((True, False) if ec == secp256k1 else (False,)):
        with backend(serving):
            for hfname in ("sha1", "sha256", "sha512"):
                hf = getattr(hashlib, hfname)
                for q in keys:
                    for msg in (b"", b"sample", b"test" * 40):
                        st.evals += 1
                        mh = hf(msg).digest()
                        c = bits2int(mh, ec.nlen) % n
                        k, retries = rfc6979_ref(q, mh, n, hfname)
                        st.outcomes[("retries", min(retries, 2), "hlen>nlen", hf().digest_size * 8 > ec.nlen)] += 1
                        if hf().digest_size * 8 != ec.nlen:
                            st.nontrivial += 1
                        if rfc6979_nonce_(mh, q, ec, hf) != k:
                            st.violation("C02/rfc6979/nonce-catalogue", {"curve": name, "hf": hfname, "q": hex(q), "msg": msg}, "differs", hex(k))
                            continue
                        for low in (True, False):
                            exp = sign_ref(q, c, k, n, G, p, a, low)
                            sig = dsa.sign_(mh, q, ec=ec, hf=hf, lower_s=low, grind=False)
                            if (sig.r, sig.s) != exp:
                                st.violation("C02/sign_/catalogue-not-rfc6979", {"curve": name, "hf": hfname, "q": hex(q), "msg": msg, "low": low, "bindings": serving}, (hex(sig.r), hex(sig.s)), exp)
                                continue
                            Q = R.mul(q, G, p, a)
                            if dsa.verify_(mh, Q, sig, hf) is not True:
                                st.violation("C02/verify_/catalogue-own-rejected", {"curve": name, "hf": hfname, "q": hex(q), "bindings": serving}, False, True)
                            # tampered: s+1, r+1 (when still in range), other message
                            for kind, (rr, ss, m2) in (("s+1", (sig.r, sig.s % (n - 1) + 1, mh)), ("other-msg", (sig.r, sig.s, hf(msg + b"x").digest()))):
                                try:
                                    got = dsa.verify_(m2, Q, dsa.Sig(rr, ss, ec, check_validity=False), hf)
                                except Exception as e:  # noqa: BLE001
                                    got = "raised " + type(e).__name__
                                if got is not False:
                                    st.violation("C02/verify_/catalogue-tampered-accepted", {"curve": name, "hf": hfname, "kind": kind, "bindings": serving}, got, False)
                            rsig, kid = dsa.sign_recoverable_(mh, q, None, low, ec, hf)
                            if (rsig.r, rsig.s) != exp:
                                st.violation("C02/sign_recoverable_/catalogue-not-rfc6979", {"curve": name, "hf": hfname, "q": hex(q), "low": low, "bindings": serving}, (hex(rsig.r)[:14], hex(rsig.s)[:14]), (hex(exp[0])[:14], hex(exp[1])[:14]))
                            if dsa.recover_pub_key_(kid, mh, rsig, hf) != Q:
                                st.violation("C02/recover_pub_key_/catalogue", {"curve": name, "hf": hfname, "q": hex(q), "low": low, "bindings": serving}, "wrong key", "signer")
                        # grinding: low r, and equal to the model's counter search
                        if ec == secp256k1 and hfname == "sha256":
                            sig = dsa.sign_(mh, q, ec=ec, hf=hf, grind=True)
                            if sig.r >= 1 << 255:
                                st.violation("C02/grind/high-r", {"q": hex(q), "msg": msg, "bindings": serving}, hex(sig.r), "< 2^255")
                            if not dsa.verify_(mh, R.mul(q, G, p, a), sig, hf):
                                st.violation("C02/grind/does-not-verify", {"q": hex(q), "msg": msg, "bindings": serving}, False, True)
    return st


def catalogue(ctx):
    from btclib.curves import CURVES

    names = sorted(CURVES)
    if ctx.quick:
        names = [nm for nm in names if CURVES[nm].nlen <= 256]
    st = ctx.pmap(_catalogue_shard, [(nm, ctx.seed) for nm in names])
    st.notes["curves"] = len(names)
    return st


# ------------------------------------------------------------------ DER
def is_valid_der_bip66(sig: bytes) -> bool:
    """BIP66 IsValidSignatureEncoding WITHOUT the trailing sighash byte (a bare DER signature)."""
    # BIP66 bounds the size at 72 (+1 sighash byte) because r and s are 32-byte scalars; Sig.parse with
    # check_validity=False is asked for the encoding alone, and the range rule is Sig.assert_valid's (judged
    # separately below), so the size bound here is only the short-form length byte
    if len(sig) < 8 or len(sig) > 129:
        return False
    if sig[0] != 0x30:
        return False
    if sig[1] != len(sig) - 2:
        return False
    lenR = sig[3]
    if 5 + lenR >= len(sig):
        return False
    lenS = sig[5 + lenR]
    if lenR + lenS + 6 != len(sig):
        return False
    if sig[2] != 0x02:
        return False
    if lenR == 0:
        return False
    if sig[4] & 0x80:
        return False
    if lenR > 1 and sig[4] == 0 and not (sig[5] & 0x80):
        return False
    if sig[lenR + 4] != 0x02:
        return False
    if lenS == 0:
        return False
    if sig[lenR + 6] & 0x80:
        return False
    if lenS > 1 and sig[lenR + 6] == 0 and not (sig[lenR + 7] & 0x80):
        return False
    return True


def der_ref(r, s):
    def enc(x):
        b = x.to_bytes((x.bit_length() + 7) // 8 or 1, "big")
        if b[0] & 0x80:
            b = b"\x00" + b
        return b"\x02" + bytes([len(b)]) + b
    body = enc(r) + enc(s)
    return b"\x30" + bytes([len(body)]) + body


N_K1 = 0xFFFFFFFFFFFFFFFFFFFFFFFFFFFFFFFEBAAEDCE6AF48A03BBFD25E8CD0364141


def _der_shard(arg):
    seeds, depth2 = arg
    from btclib.ecc import dsa

    st = Stats()
    errs = lib_errors()
    seen_accept = {}

    def judge(data, origin):
        st.evals += 1
        try:
            sig = dsa.Sig.parse(data, check_validity=False)
            got = True
        except errs:
            got = False
        except Exception as e:  # noqa: BLE001
            st.violation("C02/der/foreign-exception", {"data": data.hex(), "origin": origin}, repr(e)[:80], "library exception")
            return None
        exp = is_valid_der_bip66(data)
        st.outcomes[(got, exp)] += 1
        if got != exp:
            st.violation("C02/der/strict-acceptance", {"data": data.hex(), "origin": origin}, got, exp)
            return got
        if got:
            st.nontrivial += 1
            back = sig.serialize(check_validity=False)
            if back != data:
                st.violation("C02/der/not-canonical-roundtrip", {"data": data.hex(), "origin": origin}, back.hex(), data.hex())
            prev = seen_accept.setdefault((sig.r, sig.s), data)
            if prev != data:
                st.violation("C02/der/two-encodings-one-signature", {"a": prev.hex(), "b": data.hex()}, (sig.r, sig.s), "distinct")
            # the range rule (with check_validity) is Sig.assert_valid's: accepted iff 0 < r, s < n
            try:
                dsa.Sig.parse(data)
                okv = True
            except errs:
                okv = False
            if okv and not (0 < sig.r < N_K1 and 0 < sig.s < N_K1):
                st.violation("C02/der/out-of-range-accepted", {"data": data.hex()}, True, False)
        else:
            # lax mode: whatever it accepts decodes to the integers the TLV structure holds
            try:
                lax = dsa.Sig.parse(data, check_validity=False, strict=False)
                st.outcomes["lax-accepts"] += 1
                if len(data) >= 2 and data[0] == 0x30:
                    pass
            except errs:
                pass
            except Exception as e:  # noqa: BLE001
                st.violation("C02/der/lax-foreign-exception", {"data": data.hex()}, repr(e)[:80], "library exception")
        return got

    def tlv_family(r, s):
        """Structure-aware re-encodings of (r, s): every way of padding / length-encoding each element."""
        def bodies(x):
            m = x.to_bytes((x.bit_length() + 7) // 8 or 1, "big")
            canon = (b"\x00" + m) if m[0] & 0x80 else m
            yield canon
            yield b"\x00" + canon            # one superfluous zero
            yield b"\x00\x00" + canon        # two
            if canon[0] == 0 and len(canon) > 1:
                yield canon[1:]              # needed zero missing (negative)
            yield b""                        # empty integer
        for br in bodies(r):
            for bs in bodies(s):
                for lenform in ("short", "long81"):
                    def tl(tag, body):
                        if lenform == "short" or len(body) > 255:
                            return bytes([tag, len(body) & 0xFF]) + body
                        return bytes([tag, 0x81, len(body)]) + body
                    inner = tl(2, br) + tl(2, bs)
                    for outer in ("short", "long81", "len+1", "len-1"):
                        if outer == "short":
                            yield b"\x30" + bytes([len(inner) & 0xFF]) + inner
                        elif outer == "long81":
                            yield b"\x30\x81" + bytes([len(inner) & 0xFF]) + inner
                        elif outer == "len+1":
                            yield b"\x30" + bytes([(len(inner) + 1) & 0xFF]) + inner
                        else:
                            yield b"\x30" + bytes([(len(inner) - 1) & 0xFF]) + inner

    for seed in seeds:
        judge(seed, "seed")
        sg = dsa.Sig.parse(seed, check_validity=False)
        for enc in tlv_family(sg.r, sg.s):
            judge(enc, "tlv-family")
        structural = set()
        n = len(seed)
        for i in range(n):
            flips = 0
            for v in range(256):
                if v == seed[i]:
                    continue
                d = seed[:i] + bytes([v]) + seed[i + 1:]
                g = judge(d, f"subst@{i}")
                if g is not None and g is False:
                    flips += 1
            if flips:
                structural.add(i)
            judge(seed[:i] + seed[i + 1:], f"del@{i}")
            for v in (0x00, 0x01, 0x02, 0x30, 0x7F, 0x80, 0xFF):
                judge(seed[:i] + bytes([v]) + seed[i:], f"ins@{i}")
        for t in range(n):
            judge(seed[:t], f"trunc@{t}")
        for v in (0x00, 0x01, 0x80, 0xFF):
            judge(seed + bytes([v]), "ext")
        if depth2:
            hdr = [0, 1, 2, 3, 4, 5 + seed[3] - 1, 4 + seed[3], 5 + seed[3], 6 + seed[3]]
            hdr = sorted({i for i in hdr if 0 <= i < n})
            B = [0x00, 0x01, 0x02, 0x1F, 0x20, 0x21, 0x30, 0x7F, 0x80, 0x81, 0xFF]
            for i, j in itertools.combinations(hdr, 2):
                for vi in B + [seed[i] - 1 & 0xFF, seed[i] + 1 & 0xFF]:
                    for vj in B + [seed[j] - 1 & 0xFF, seed[j] + 1 & 0xFF]:
                        d = bytearray(seed)
                        d[i], d[j] = vi, vj
                        judge(bytes(d), f"subst2@{i},{j}")
                        # and with one byte removed/added after the edit
                        judge(bytes(d[:-1]), f"subst2@{i},{j}+trunc")
                        judge(bytes(d) + b"\x00", f"subst2@{i},{j}+ext")
    return st


def der(ctx):
    vals = [1, 0x7F, 0x80, 0xFF, 0x100, 0x7FFF, 0x8000, 1 << 247, (1 << 248) - 1, 1 << 248, (1 << 255) - 1, 1 << 255,
            N_K1 - 1, N_K1 // 2, N_K1 // 2 + 1]
    if ctx.quick:
        vals = [1, 0x80, 0x7FFF, (1 << 248) - 1, 1 << 255, N_K1 - 1]
    seeds = [der_ref(r, s) for r in vals for s in vals]
    st = ctx.pmap(_der_shard, [(sh, True) for sh in shard_round_robin(seeds, 64)])
    # hand-made lax encodings (long-form lengths, padding) - strict must refuse every one
    st.notes["seeds"] = len(seeds)
    return st


# ------------------------------------------------------------------ nonce reuse; bms
def _crack_shard(plist):
    from btclib.ecc import dsa

    st = Stats()
    for params in plist:
        p, a, b, G, n, h = params
        if n > 13:
            continue
        ec = make_curve(params)
        if ec is None:
            continue
        ck = curve_key(params)
        for q in range(1, n):
            for k in range(1, n):
                for c1 in range(n):
                    for c2 in range(n):
                        if c1 == c2:
                            continue
                        s1 = sign_ref(q, c1, k, n, G, p, a, False)
                        s2 = sign_ref(q, c2, k, n, G, p, a, False)
                        if s1 is None or s2 is None:
                            continue
                        st.evals += 1
                        sig1 = dsa.Sig(*s1, ec, check_validity=False)
                        sig2 = dsa.Sig(*s2, ec, check_validity=False)
                        try:
                            got = dsa.crack_prv_key_var_(digest_for(c1, ec.nlen), sig1, digest_for(c2, ec.nlen), sig2)
                        except lib_errors() as e:
                            # s1 == s2 (mod n) cannot be cracked: the difference has no inverse
                            if (s1[1] - s2[1]) % n == 0:
                                st.outcomes["uncrackable-equal-s"] += 1
                                continue
                            got = repr(e)[:80]
                        if got != (q, k):
                            # the pair (n-q.., n-k) is the same signatures for the negated nonce: x(K) = x(-K)
                            if isinstance(got, tuple) and sign_ref(got[0], c1, got[1], n, G, p, a, False) == s1 and sign_ref(got[0], c2, got[1], n, G, p, a, False) == s2:
                                st.outcomes["alternative-consistent-solution"] += 1
                                continue
                            st.violation("C02/crack/wrong-key", {"curve": ck, "q": q, "k": k, "c1": c1, "c2": c2}, got, (q, k))
                        else:
                            st.nontrivial += 1
    return st


def crack(ctx):
    params = [c for c in R.universe_params(ctx.pick(11, 13))]
    stride = ctx.pick(4, 1)
    return ctx.pmap(_crack_shard, shard_round_robin(params[ctx.seed % stride::stride], 64))


# ------------------------------------------------------------------------------------------------ held-key signers
def _signer_shard(arg):
    names, seed = arg
    from btclib.curves import CURVES, secp256k1
    from btclib.ecc import dsa

    st = Stats()
    errs = lib_errors()
    for name in names:
        ec = CURVES[name]
        p, a, n, G = ec.p, ec._a, ec.n, ec.G
        for serving in ((True, False) if ec == secp256k1 else (False,)):
            with backend(serving):
                for hfname in ("sha1", "sha256", "sha512", "sha3_256", "blake2s", "sha224"):
                    hf = getattr(hashlib, hfname)
                    for q in (1, n - 1, int.from_bytes(hashlib.sha512(b"sg%d" % seed).digest(), "big") % n or 1):
                        case0 = {"curve": name, "hf": hfname, "q": hex(q)[:14], "bindings": serving}
                        try:
                            signer = dsa.Signer(q, ec, hf)
                        except errs as e:
                            st.outcomes[("signer-refused", hfname)] += 1
                            continue
                        Q = R.mul(q, G, p, a)
                        for msg in (b"", b"sample", b"x" * 70):
                            mh = hf(msg).digest()
                            c = bits2int(mh, ec.nlen) % n
                            k, _ = rfc6979_ref(q, mh, n, hfname)
                            exp = sign_ref(q, c, k, n, G, p, a, True)
                            for spelling in ("sign", "sign_"):
                                st.evals += 1
                                if hfname != "sha256":
                                    st.nontrivial += 1
                                case = dict(case0, msg_len=len(msg), spelling=spelling)
                                try:
                                    der = signer.sign(msg, grind=False) if spelling == "sign" else signer.sign_(mh, grind=False)
                                    sig = dsa.Sig.parse(der) if ec == secp256k1 else None
                                except errs as e:
                                    st.violation("C02/signer/refuses-to-sign/" + spelling, case, repr(e)[:80], "a signature")
                                    continue
                                if sig is not None and (sig.r, sig.s) != exp:
                                    st.violation("C02/signer/not-rfc6979-ecdsa/" + spelling, case, (hex(sig.r)[:14], hex(sig.s)[:14]), (hex(exp[0])[:14], hex(exp[1])[:14]))
                                # the free functions give the same octets and accept them
                                try:
                                    free = dsa.sign(msg, q, None, True, ec, hf, grind=False) if spelling == "sign" else dsa.sign_(mh, q, None, True, ec, hf, grind=False)
                                    if free.serialize() != der:
                                        st.violation("C02/signer/differs-from-free-function/" + spelling, case, der.hex()[:24], free.serialize().hex()[:24])
                                    ok = dsa.verify(msg, Q, free, hf) if spelling == "sign" else dsa.verify_(mh, Q, free, hf)
                                    if ok is not True:
                                        st.violation("C02/signer/own-signature-rejected/" + spelling, case, ok, True)
                                except errs as e:
                                    st.violation("C02/signer/free-function-refuses/" + spelling, case, repr(e)[:80], "a signature")
                        signer.wipe()
    return st


def held_key_signers(ctx):
    from btclib.curves import CURVES

    names = sorted(CURVES)
    if ctx.quick:
        names = [nm for nm in names if nm in ("secp256k1", "secp256r1", "secp160r1", "secp112r2", "secp521r1", "brainpoolP256r1", "nistp192", "secp192k1")] or names[:6]
    return ctx.pmap(_signer_shard, [([nm], ctx.seed) for nm in names])


SUBS = [
    ("toy", toy),
    ("public_api", public_api),
    ("catalogue", catalogue),
    ("der", der),
    ("crack", crack),
    ("held_key_signers", held_key_signers),
]
