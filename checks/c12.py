"""C12 — taproot outputs commit to exactly their key and script tree.

E1: every binary tree shape with <= k leaves x every leaf labelling over 3 (version, script) labels x
boundary internal keys in every accepted spelling x both backends, against models/taproot_ref.py
(BIP341 transcription, gated on the BIP's wallet vectors); for every leaf the control block proves
it and EVERY single-bit alteration of control block / script / leaf version / output key does not."""
from __future__ import annotations

import hashlib
import itertools

from mc.core import Stats, backend, lib_errors, rebound, shard_round_robin
from models import ec_ref as R
from models import taproot_ref as T
from models.bip340_ref import G_K1 as G
from models.bip340_ref import N_K1 as N
from models.bip340_ref import P_K1 as P

PROPERTY = "C12"
LEVEL = "exploration"
RULE = ("all binary tree shapes with <= k leaves (Catalan) x all labelings over {(c0,OP_1),(c0,OP_2),(c2,OP_1)} + chains of "
        "depth 127/128/129, x internal keys {1,2,3,n-1,odd-y,seeded} x 6 spellings x both backends; output key, private key, "
        "every leaf's control block; every single-bit flip of control block, script, output key (all bits for trees <= 3 "
        "leaves, 64 spread bits above); off-curve / x>=p internal keys, scripted tweak >= n. Non-trivial = tree with >= 2 "
        "leaves, odd-y key, flipped bit, or refusal")
ASSUMPTIONS = ["models/taproot_ref.py is BIP341 (gated on the BIP's scriptPubKey and keyPathSpending vectors)", "trees with more than 5 leaves that are not chains are outside the bound"]
META = {"technique": "bounded-exhaustive enumeration of tree shapes, labelings, key spellings and single-bit alterations vs a gated BIP341 transcription, on both backends",
        "note": "Trusts models/taproot_ref.py and the reference ladder."}

LABELS = [(0xC0, b"\x51"), (0xC0, b"\x52"), (0xC2, b"\x51")]


def to_lib(t):
    from btclib.script import taproot as tr

    if isinstance(t, tuple):
        return [(t[0], tr.parse(t[1]))]
    return [to_lib(t[0]), to_lib(t[1])]


def key_spellings(q):
    """Every accepted spelling of an internal key (a bare 32-byte string is a PRIVATE key to btclib's Key type, so the
    x-only form is spelled 02||x; the private key itself is a spelling too)."""
    from btclib.curves.curve import PreparedPoint

    Pq = R.mul_fast(q, G, P, 0)
    x = Pq[0].to_bytes(32, "big")
    return Pq, [("02||x", b"\x02" + x), ("03||x", b"\x03" + x), ("04||x||y", b"\x04" + x + Pq[1].to_bytes(32, "big")), ("point", Pq),
                ("negated-point", (Pq[0], P - Pq[1])), ("hex", (b"\x02" + x).hex()), ("private-key-int", q), ("PreparedPoint", PreparedPoint(Pq))]


def _tree_shard(arg):
    trees, keys, serving, allbits = arg
    from btclib.script import taproot as tr

    st = Stats()
    errs = lib_errors()
    with backend(serving):
        for q in keys:
            Pq, spell = key_spellings(q)
            for tree in trees:
                st.evals += 1
                leaves, root = T.tree_helper(tree)
                exp = T.tweak_pubkey(Pq[0], root)
                ltree = to_lib(tree)
                case = {"q": hex(q), "tree": repr(tree)[:200], "bindings": serving}
                if len(leaves) > 1:
                    st.nontrivial += 1
                outs = set()
                for name, ik in spell:
                    try:
                        got = tr.output_pubkey(ik, ltree)
                    except errs as e:
                        st.violation("C12/output_pubkey/refused-spelling", dict(case, spelling=name), repr(e)[:80], "output key")
                        continue
                    outs.add(got)
                    if got != (exp[0].to_bytes(32, "big"), exp[1]):
                        st.violation("C12/output_pubkey/not-bip341", dict(case, spelling=name), (got[0].hex(), got[1]), (hex(exp[0]), exp[1]))
                qbytes = exp[0].to_bytes(32, "big")
                d = tr.output_prvkey(q, ltree)
                expd = T.tweak_seckey(q, root)
                if d != expd:
                    st.violation("C12/output_prvkey/not-bip341", case, hex(d), hex(expd))
                Dq = R.mul_fast(d, G, P, 0)
                if Dq[0] != exp[0] or (Dq[1] & 1) != exp[1]:
                    st.violation("C12/output_prvkey/does-not-open-output-key", case, hex(Dq[0]), hex(exp[0]))
                for li, ((v, s), path) in enumerate(leaves):
                    st.evals += 1
                    expcb = T.control_block(Pq[0], exp[1], v, path)
                    # the control block does not depend on how the internal key was spelled
                    for name, ik in spell[1:]:
                        st.evals += 1
                        st.nontrivial += 1
                        try:
                            sc_, cb_ = tr.input_script_sig(ik, ltree, li)
                        except errs as e:
                            st.violation("C12/control-block/refused-spelling", dict(case, leaf=li, spelling=name), repr(e)[:80], expcb.hex()[:40])
                            continue
                        if cb_ != expcb or tr.serialize(sc_) != s:
                            st.violation("C12/control-block/not-bip341/" + name, dict(case, leaf=li, spelling=name), cb_.hex()[:80], expcb.hex()[:80])
                    sc, cb = tr.input_script_sig(spell[0][1], ltree, li)
                    if cb != expcb or tr.serialize(sc) != s:
                        st.violation("C12/control-block/not-bip341", dict(case, leaf=li), cb.hex(), expcb.hex())
                        continue
                    if tr.check_output_pubkey(qbytes, s, cb) is not True:
                        st.violation("C12/control-block/own-proof-rejected", dict(case, leaf=li), False, True)
                    # every single-bit alteration
                    nb = 8 * len(cb)
                    bits = range(nb) if allbits else sorted(set(list(range(0, 12)) + list(range(8 * 33 - 4, min(nb, 8 * 33 + 4))) + [nb - 1, nb - 8] + list(range(16, nb, max(1, nb // 20)))))
                    for bit in bits:
                        st.evals += 1
                        st.nontrivial += 1
                        cb2 = bytearray(cb)
                        cb2[bit // 8] ^= 1 << (bit % 8)
                        cb2 = bytes(cb2)
                        # the model's verdict needs a reference tweak (a 256-bit ladder); it is computed for the first byte
                        # (leaf version and parity bit, where the outcome is decided by a rule) and taken as "no proof" for a
                        # flipped key or path bit, where only a SHA-256 collision could make it one
                        expv = T.verify_control(qbytes, s, cb2) if bit < 8 else False
                        try:
                            got = tr.check_output_pubkey(qbytes, s, cb2)
                        except errs:
                            got = "refused"
                        except Exception as e:  # noqa: BLE001
                            got = "foreign " + type(e).__name__
                        # "no longer verifies": False or a library refusal; the model says whether the flipped block is still a proof
                        ok = (got is True) if expv is True else (got is False or got == "refused")
                        st.outcomes[("cb-flip", str(got))] += 1
                        if not ok:
                            st.violation("C12/flip/control-block", dict(case, leaf=li, bit=bit), got, expv)
                    for bit in range(8 * len(s)):
                        st.evals += 1
                        s2 = bytearray(s)
                        s2[bit // 8] ^= 1 << (bit % 8)
                        try:
                            got = tr.check_output_pubkey(qbytes, bytes(s2), cb)
                        except errs:
                            got = "refused"
                        if got is True:
                            st.violation("C12/flip/script", dict(case, leaf=li, bit=bit), True, False)
                    for bit in (range(256) if allbits else range(0, 256, 17)):
                        st.evals += 1
                        q2 = bytearray(qbytes)
                        q2[bit // 8] ^= 1 << (bit % 8)
                        try:
                            got = tr.check_output_pubkey(bytes(q2), s, cb)
                        except errs:
                            got = "refused"
                        if got is True:
                            st.violation("C12/flip/output-key", dict(case, leaf=li, bit=bit), True, False)
    if trees:
        st.sample({"tree": repr(trees[-1])[:200], "keys": [hex(k)[:12] for k in keys], "bindings": serving})
    return st


def trees_upto(k):
    out = []
    for n in range(1, k + 1):
        for shp in T.shapes(n):
            for labs in itertools.product(range(len(LABELS)), repeat=n):
                out.append(T.label(shp, iter([LABELS[i] for i in labs])))
    return out


def chain(depth, left=True):
    """A degenerate tree of the given depth (depth+1 leaves)."""
    t = (0xC0, b"\x51")
    for i in range(depth):
        leaf = (0xC0, bytes([0x51 + (i % 16)]))
        t = [t, leaf] if left else [leaf, t]
    return t


def trees(ctx):
    kmax = ctx.pick(4, 5)
    all_trees = trees_upto(kmax)
    odd = next(k for k in range(2, 60) if R.mul_fast(k, G, P, 0)[1] % 2)
    even = next(k for k in range(2, 60) if R.mul_fast(k, G, P, 0)[1] % 2 == 0)
    keys = [1, odd, even, N - 1, int.from_bytes(hashlib.sha256(b"c12-%d" % ctx.seed).digest(), "big") % N or 1]
    small = [t for t in all_trees if len(T.tree_helper(t)[0]) <= 3]
    big = [t for t in all_trees if len(T.tree_helper(t)[0]) > 3]
    shards = []
    for serving in (True, False):
        for sh in shard_round_robin(small, 24):
            shards.append((sh, keys[:3], serving, serving or ctx.tier == "thorough"))
        for sh in shard_round_robin(big, 48):
            shards.append((sh, keys[1:3] if ctx.quick else keys, serving, False))
    st = ctx.pmap(_tree_shard, shards)
    st.notes.update({"max_leaves": kmax, "trees": len(all_trees)})
    return st


def chains(ctx):
    """Depth limit: 127 and 128 deep chains build and prove; 129 is refused (BIP341: control block <= 33 + 32*128)."""
    import sys

    from btclib.script import taproot as tr

    st = Stats()
    errs = lib_errors()
    sys.setrecursionlimit(max(sys.getrecursionlimit(), 3000))
    q = 3
    Pq = R.mul_fast(q, G, P, 0)
    for serving in (True, False):
        with backend(serving):
            for depth in (1, 127, 128, 129):
                for left in (True, False):
                    st.evals += 1
                    tree = chain(depth, left)
                    leaves, root = T.tree_helper(tree)
                    exp = T.tweak_pubkey(Pq[0], root)
                    case = {"depth": depth, "left": left, "bindings": serving}
                    try:
                        got = tr.output_pubkey(b"\x02" + Pq[0].to_bytes(32, "big"), to_lib(tree))
                    except errs:
                        got = "refused"
                    deepest = max(len(p) // 32 for _, p in leaves)
                    st.outcomes[(depth, got == "refused")] += 1
                    if deepest > 128:
                        # the deepest leaf cannot be spent (control block too long): refusing the tree, or building it and
                        # refusing that leaf's proof, both keep the commitment sound; accepting the over-long proof does not
                        st.nontrivial += 1
                        if got != "refused":
                            for li, ((v, s), path) in enumerate(leaves):
                                if len(path) // 32 > 128:
                                    try:
                                        sc, cb = tr.input_script_sig(b"\x02" + Pq[0].to_bytes(32, "big"), to_lib(tree), li)
                                        ok = tr.check_output_pubkey(got[0], s, cb)
                                    except errs:
                                        ok = "refused"
                                    if ok is True:
                                        st.violation("C12/depth/over-128-proof-accepted", dict(case, leaf=li), True, "refusal")
                        continue
                    if got == "refused" or got != (exp[0].to_bytes(32, "big"), exp[1]):
                        st.violation("C12/depth/output-key", case, got if isinstance(got, str) else got[0].hex(), hex(exp[0]))
                        continue
                    for li in (0, 1, len(leaves) - 1):
                        (v, s), path = leaves[li]
                        try:
                            sc, cb = tr.input_script_sig(b"\x02" + Pq[0].to_bytes(32, "big"), to_lib(tree), li)
                            ok = cb == T.control_block(Pq[0], exp[1], v, path) and tr.check_output_pubkey(got[0], s, cb) is True
                        except errs as e:
                            ok, cb = False, repr(e).encode()
                        if not ok:
                            st.violation("C12/depth/control-block", dict(case, leaf=li, leaf_depth=len(path) // 32), cb.hex()[:80], "BIP341 block that verifies")
    return st


def refusals(ctx):
    from btclib.script import taproot as tr

    st = Stats()
    errs = lib_errors()
    offx = next(x for x in range(1, 100) if T.lift_x(x) is None)
    tree = to_lib([LABELS[0], LABELS[1]])
    good = R.mul_fast(5, G, P, 0)[0].to_bytes(32, "big")
    good33 = b"\x02" + good
    for serving in (True, False):
        with backend(serving):
            for name, ik in (("02||off-curve-x", b"\x02" + offx.to_bytes(32, "big")), ("02||p", b"\x02" + P.to_bytes(32, "big")), ("03||2^256-1", b"\x03" + b"\xff" * 32),
                             ("04||off-curve", b"\x04" + offx.to_bytes(32, "big") + bytes(31) + b"\x01"), ("off-curve-point", (offx, 1)), ("34-bytes", bytes(34)),
                             ("infinity", (5, 0)), ("02||0", b"\x02" + bytes(32)), ("private-key-0", 0), ("private-key-n", N)):
                for t in (None, tree):
                    st.evals += 1
                    st.nontrivial += 1
                    try:
                        got = tr.output_pubkey(ik, t)
                        # x = 0 is not on secp256k1 (7 is not a square? it is refused by the model too)
                        st.violation("C12/refuse/invalid-internal-key-answered", {"key": name, "tree": t is not None, "bindings": serving}, got[0].hex(), "refusal")
                    except errs:
                        pass
                    except Exception as e:  # noqa: BLE001
                        st.violation("C12/refuse/foreign-exception", {"key": name, "bindings": serving}, repr(e)[:80], "library exception")
            # a tweak out of range: the environment (tagged_hash) answers n, n+1, 2^256-1 for the TapTweak tag
            real = tr.tagged_hash
            for tv in (N, N + 1, 2**256 - 1, N - 1):
                def fake(tag, m, *a, tv=tv, **kw):
                    if tag == b"TapTweak":
                        return tv.to_bytes(32, "big")
                    return real(tag, m, *a, **kw)
                with rebound(tr, "tagged_hash", fake):
                    for name, f in (("output_pubkey", lambda: tr.output_pubkey(good33, tree)), ("output_prvkey", lambda: tr.output_prvkey(5, tree)),
                                    ("check_output_pubkey", lambda: tr.check_output_pubkey(good, b"\x51", b"\xc0" + good))):
                        st.evals += 1
                        st.nontrivial += 1
                        try:
                            r = f()
                            outcome = "answered"
                        except errs:
                            outcome = "refused"
                        except Exception as e:  # noqa: BLE001
                            outcome = "foreign " + type(e).__name__
                        expo = "refused" if tv >= N else "answered"
                        if name == "check_output_pubkey" and tv >= N and outcome == "answered" and r is False:
                            outcome = "refused"  # False is a refusal for a predicate
                        st.outcomes[(name, tv >= N, outcome)] += 1
                        if outcome != expo:
                            st.violation("C12/refuse/tweak-out-of-range/" + name, {"tweak": hex(tv), "bindings": serving}, outcome, expo)
    return st


def descriptors_agree(ctx):
    """TrDescriptor's merkle root and BIP86 key-path outputs equal the model."""
    from btclib import bip44
    from btclib.descriptors import descriptors as D

    st = Stats()
    x = R.mul_fast(7, G, P, 0)[0].to_bytes(32, "big")
    for tree_s, tree in (("pk(%s)" % R.mul_fast(8, G, P, 0)[0].to_bytes(32, "big").hex(), None),):
        st.evals += 1
        d = D.parse(f"tr({x.hex()},{tree_s})")
        spk = d.script_pub_key(0).script if hasattr(d.script_pub_key(0), "script") else d.script_pub_key(0)
        leaf_script = b"\x20" + R.mul_fast(8, G, P, 0)[0].to_bytes(32, "big") + b"\xac"
        root = T.leaf_hash(0xC0, leaf_script)
        exp = T.tweak_pubkey(int.from_bytes(x, "big"), root)
        st.nontrivial += 1
        if bytes(spk) != b"\x51\x20" + exp[0].to_bytes(32, "big"):
            st.violation("C12/descriptor/tr-leaf-output", {"descriptor": str(d)[:80]}, bytes(spk).hex(), (b"\x51\x20" + exp[0].to_bytes(32, "big")).hex())
        mr = getattr(d, "taproot_merkle_root", None)
        if mr is not None:
            got = mr(0) if callable(mr) else mr
            if got != root:
                st.violation("C12/descriptor/merkle-root", {"descriptor": str(d)[:80]}, got.hex() if isinstance(got, bytes) else got, root.hex())
    st.evals += 1
    d = D.parse(f"tr({x.hex()})")
    spk = d.script_pub_key(0)
    spk = spk.script if hasattr(spk, "script") else spk
    exp = T.tweak_pubkey(int.from_bytes(x, "big"), b"")
    if bytes(spk) != b"\x51\x20" + exp[0].to_bytes(32, "big"):
        st.violation("C12/descriptor/tr-key-only-output", {}, bytes(spk).hex(), hex(exp[0]))
    st.nontrivial += 1
    return st


SUBS = [
    ("trees", trees),
    ("chains", chains),
    ("refusals", refusals),
    ("descriptors_agree", descriptors_agree),
]
