"""C19 — hostile input is refused with library exceptions only; predicates are total.

E1 within stated neighbourhoods: every binary parser of the registry on every string within edit
distance 1 of every seed (and on a set of generic hostile strings); every text parser on every
single-character substitution/insertion/deletion/truncation over an alphabet with NUL, non-ASCII,
case-folding traps and astral characters, plus deep nesting; every from_dict on every single-field
JSON mutation; every verify-style predicate on the product of boundary values of its declared types;
every object a parser accepted handed to every consumer.  Oracle: returns, or raises
BTClibValueError / BTClibTypeError / BTClibRuntimeError, within a watchdog."""
from __future__ import annotations

import base64
import copy
import hashlib
import io
import itertools
import json
import signal

from mc.core import Stats, lib_errors, shard_round_robin, backend
from checks import codec_common as CC

PROPERTY = "C19"
LEVEL = "exploration"
RULE = ("binary: edit-distance-1 neighbourhoods (B256 for seeds <= 160 bytes) of every seed of every registry parser + 40 generic "
        "hostile strings per parser; text: every single-character substitution/insertion over a 46-character alphabet, deletion, "
        "truncation, case change, doubling, 5000-deep nesting on seeds of 13 text parsers; JSON: every field of to_dict() of 12 "
        "classes deleted or replaced by each of 21 JSON values; predicates: product of boundary values; consumers: every accepted "
        "mutated transaction handed to sighash/engine/sizes/ids. Non-trivial = the input is not a valid encoding")
ASSUMPTIONS = ["inputs far from every seed and not among the generic hostile strings are outside the bound", "a 3 s watchdog stands for 'hang'"]
META = {"technique": "bounded-exhaustive edit-distance-1 / single-field mutation sweeps of every parser, from_dict and predicate against the exception contract, with a watchdog",
        "note": "Decides the property only inside the stated neighbourhoods of the seeds."}


class Hang(Exception):
    pass


def _alarm(*a):
    raise Hang()


def contract_call(st, key, f, x, case):
    """Call f(x) under the watchdog; anything that is not a return or a library exception is a violation."""
    st.evals += 1
    errs = lib_errors()
    signal.setitimer(signal.ITIMER_REAL, 3)
    try:
        r = f(x)
        st.outcomes["ok"] += 1
        return ("ok", r)
    except errs:
        st.outcomes["refused"] += 1
        return ("refused", None)
    except Hang:
        # the watchdog is wall-clock: re-ask alone with a longer fuse before calling it a hang (a loaded machine is not one)
        signal.setitimer(signal.ITIMER_REAL, 30)
        try:
            f(x)
        except Hang:
            st.violation(f"{key}/hang", case, "no answer within 30 s", "an answer")
            return ("hang", None)
        except Exception:  # noqa: BLE001 - judged by the first call's classes on the next sweep
            pass
        finally:
            signal.setitimer(signal.ITIMER_REAL, 0)
        return ("slow", None)
    except RecursionError:
        st.violation(f"{key}/RecursionError", case, "RecursionError", "library exception")
        return ("exc", None)
    except Exception as e:  # noqa: BLE001
        st.violation(f"{key}/{type(e).__name__}", case, repr(e)[:120], "library exception")
        return ("exc", None)
    finally:
        signal.setitimer(signal.ITIMER_REAL, 0)


GENERIC = [b"", b"\x00", b"\xff", b"\x00" * 4, b"\xff" * 9, b"\xfd", b"\xfe\xff", b"\xff" * 80, bytes(range(256)), b"\x01" * 33, b"\x30\x00", b"psbt\xff", b"psbt\xff\x00",
           b"\x00\x01" * 50, b"\xfd\xff\xff" + b"\x00" * 10, b"\xfe\xff\xff\xff\xff", b"\xff" + b"\xff" * 8 + b"\x00", b"\x02" + b"\xff" * 32, b"\x04" + bytes(64), b"\x01\x00\x00\x00\x00\x01"]


def _binary_shard(arg):
    name, idx, seed = arg
    signal.signal(signal.SIGALRM, _alarm)
    E = CC.registry(seed)
    e = E[name]
    st = Stats()
    if idx < 0:
        # does this parser take a stream at all?  (decided on its own valid seed, not assumed)
        takes_stream = False
        if e.seeds:
            try:
                e.parse(io.BytesIO(e.seeds[0]))
                takes_stream = True
            except Exception:  # noqa: BLE001
                takes_stream = False
        for g in GENERIC:
            contract_call(st, f"C19/binary/{name}", e.parse, g, {"parser": name, "data": g.hex()[:100]})
            if takes_stream:
                contract_call(st, f"C19/binary/{name}", e.parse, io.BytesIO(g), {"parser": name, "stream": g.hex()[:100]})
        st.nontrivial = st.evals
        return st
    data0 = e.seeds[idx]
    full = len(data0) <= 160
    for tag, data in CC.neighbourhood(data0, full):
        st.nontrivial += 1
        contract_call(st, f"C19/binary/{name}", e.parse, data, {"parser": name, "seed": data0.hex()[:100], "mutation": tag})
    st.sample({"parser": name, "seed": data0.hex()[:80]})
    return st


def binary(ctx):
    E = CC.registry(ctx.seed)
    shards = [(n, i, ctx.seed) for n, i in CC.shards_for(E, seed_cap=ctx.pick(3, 6))]
    shards += [(n, -1, ctx.seed) for n in E]
    st = ctx.pmap(_binary_shard, shards)
    st.notes["parsers"] = len(E)
    return st


# ------------------------------------------------------------------------------------------ text
CH = [" ", "!", "#", "'", "(", ")", "*", ",", "/", "0", "1", "9", ":", ";", "<", ">", "@", "A", "Z", "[", "]", "_", "a", "h", "q", "z", "{", "}", "~", "\x00", "\n", "é",
      "　", "�", "\U0001F600", "%", "&", "=", "?", "+", "-", ".", "K", "ı", "ſ", "ß"]


def text_samples(seed):
    from btclib import b32, b58, base58, bech32, bip21, bip322, descriptors
    from btclib.bip32.bip32 import BIP32KeyData, rootxprv_from_seed, xpub_from_xprv
    from btclib.curves import bytes_from_point, mult
    from btclib.descriptors import miniscript
    from btclib.ecc import bms, ecies
    from btclib.psbt.psbt import Psbt
    from btclib.tx_or_psbt import tx_or_psbt_from_any
    import sys
    if CC.REPO not in sys.path:
        sys.path.insert(0, CC.REPO)
    from tests import fuzz_test as F

    xprv = rootxprv_from_seed(bytes(16))
    xpub = xpub_from_xprv(xprv)
    kA = bytes_from_point(mult(2)).hex()
    S = {
        "base58.decode": [(base58.decode, b58.p2pkh(kA))],
        "b58.h160_from_address": [(b58.h160_from_address, b58.p2pkh(kA))],
        "b32.witness_from_address": [(b32.witness_from_address, b32.p2wpkh(kA)), (b32.witness_from_address, b32.p2tr(bytes(32))), (b32.witness_from_address, b32.p2wpkh(kA).upper())],
        "bech32.decode": [(bech32.decode, b32.p2wpkh(kA)), (bech32.decode, b32.p2wpkh(kA).upper())],
        "BIP32KeyData.b58decode": [(BIP32KeyData.b58decode, xprv), (BIP32KeyData.b58decode, xpub)],
        "descriptors.parse": [(descriptors.parse, descriptors.add_checksum(f"wpkh([deadbeef/84h/0h/0h]{xpub}/0/*)")),
                              (descriptors.parse, descriptors.add_checksum(f"tr({kA[2:]},{{pk({xpub}/1/*),multi_a(1,{xpub}/2/*,{kA[2:]})}})")),
                              (descriptors.parse, descriptors.add_checksum(f"wsh(and_v(v:pk({kA}),older(10)))")),
                              (descriptors.parse, descriptors.add_checksum(f"sh(sortedmulti(1,{kA},{xpub}/<0;1>/*))"))],
        "miniscript.parse": [(miniscript.parse, f"andor(pk({kA}),older(10),and_v(v:pkh({kA}),after(500000001)))"), (miniscript.parse, f"thresh(2,pk({kA}),s:pk({kA}),sln:older(12))")],
        "Psbt.b64decode": [(Psbt.b64decode, base64.b64encode(F.PSBT_BIN).decode())],
        "bip21.parse": [(bip21.Bip21.parse, f"bitcoin:{b32.p2wpkh(kA)}?amount=0.1&label=a%20b&req-x=1")],
        "descriptors.checksum": [(descriptors.checksum, f"wpkh({xpub}/0/*)")],
        "bms.Sig.b64decode": [(bms.Sig.b64decode, bms.sign(b"msg", 7).b64encode())],
        "tx_or_psbt_from_any": [(tx_or_psbt_from_any, F.TX_BIN.hex()), (tx_or_psbt_from_any, base64.b64encode(F.PSBT_BIN).decode()[:200])],
    }
    try:
        S["bip322.Sig.b64decode"] = [(bip322.Sig.b64decode, base64.b64encode(b"\x01\x40" + bytes(64)).decode())]
    except Exception:  # noqa: BLE001
        pass
    return S


def _text_shard(arg):
    name, idx, seed = arg
    signal.signal(signal.SIGALRM, _alarm)
    st = Stats()
    f, s = text_samples(seed)[name][idx]
    key = f"C19/text/{name}"

    def call(x, tag):
        st.nontrivial += 1
        contract_call(st, key, f, x, {"parser": name, "mutation": tag, "input": (x[:120] if isinstance(x, str) else repr(x)[:120])})

    stride = 1 if len(s) <= 400 else len(s) // 400
    for i in range(0, len(s) + 1, stride):
        call(s[:i], ("trunc", i))
        if i < len(s):
            call(s[:i] + s[i + 1:], ("del", i))
        for c in CH:
            if i < len(s):
                call(s[:i] + c + s[i + 1:], ("sub", i, c))
            call(s[:i] + c + s[i:], ("ins", i, c))
    for x, tag in ((s.upper(), "upper"), (s.swapcase(), "swapcase"), (s + s, "doubled"), ("(" * 5000 + s, "deep-prefix"), (s + ")" * 5000, "deep-suffix"),
                   ("", "empty"), (s.replace("1", "١"), "arabic-digits"), (" " + s + " ", "padded")):
        call(x, tag)
    st.sample({"parser": name, "seed": s[:80]})
    return st


def text(ctx):
    S = text_samples(ctx.seed)
    shards = [(n, i, ctx.seed) for n, lst in S.items() for i in range(len(lst))]
    st = ctx.pmap(_text_shard, shards)
    # nesting to the recursion limit
    signal.signal(signal.SIGALRM, _alarm)
    from btclib import descriptors
    from btclib.descriptors import miniscript
    from btclib.curves import bytes_from_point, mult

    kA = bytes_from_point(mult(2)).hex()
    for deep, f, nm in (("{" * 3000 + "pk(" + kA + ")" + "}" * 3000, descriptors.parse, "descriptors.parse"), ("and_v(" * 3000 + "1" + ")" * 3000, miniscript.parse, "miniscript.parse"),
                        ("tr(" + kA[2:] + "," + "{" * 200 + "pk(" + kA + ")" + "}" * 200 + ")", descriptors.parse, "descriptors.parse"), ("v:" * 5000 + "1", miniscript.parse, "miniscript.parse"),
                        ("t" * 20000 + ":1", miniscript.parse, "miniscript.parse"), ("sh(" * 10000 + "pk(" + kA + ")" + ")" * 10000, descriptors.parse, "descriptors.parse"),
                        ("wsh(" + "or_b(" * 4000 + "0" + ",0)" * 4000 + ")", descriptors.parse, "descriptors.parse")):
        st.nontrivial += 1
        contract_call(st, f"C19/text/{nm}/deep-nesting", f, deep, {"parser": nm, "input": deep[:40], "len": len(deep)})
    return st


# ------------------------------------------------------------------------------------------ JSON
def json_objects(seed):
    import sys
    if CC.REPO not in sys.path:
        sys.path.insert(0, CC.REPO)
    from tests import fuzz_test as F

    from btclib.bip32.key_origin import BIP32KeyOrigin
    from btclib.block.block import Block
    from btclib.block.block_header import BlockHeader
    from btclib.network import NETWORKS, Network
    from btclib.psbt.psbt import Psbt
    from btclib.psbt.psbt_in import PsbtIn
    from btclib.psbt.psbt_out import PsbtOut
    from btclib.script.witness import Witness
    from btclib.tx import OutPoint, Tx, TxIn, TxOut
    from models import psbt_map_ref as PM

    tx = Tx.parse(F.TX_BIN)
    blk = Block.parse(F.BLOCK_BIN)
    psbt = Psbt.parse(F.PSBT_BIN)
    out = [(Tx, tx), (TxIn, tx.vin[0]), (TxOut, tx.vout[0]), (OutPoint, tx.vin[0].prev_out), (Witness, tx.vin[0].script_witness), (BlockHeader, blk.header), (Block, blk), (Psbt, psbt),
           (PsbtIn, psbt.inputs[0]), (PsbtOut, psbt.outputs[0]), (BIP32KeyOrigin, BIP32KeyOrigin(b"\x01\x02\x03\x04", "m/1h/2")), (Network, NETWORKS["mainnet"])]
    # a taproot psbt (BIP371) and a v2 one (BIP370): fields the BIP174 sample does not populate
    vec = dict(PM.valid_vectors())
    for lab in ("bip371/valid psbts/0", "bip370/valid psbts/0", "bip373/valid psbts/0"):
        if lab in vec:
            try:
                p = Psbt.parse(vec[lab])
                out += [(Psbt, p), (PsbtIn, p.inputs[0]), (PsbtOut, p.outputs[0])]
            except lib_errors():
                pass
    return out


def _paths(o, pre=()):
    if isinstance(o, dict):
        for k, v in o.items():
            yield pre + (k,)
            yield from _paths(v, pre + (k,))
    elif isinstance(o, list):
        for i, v in enumerate(o[:2]):
            yield pre + (i,)
            yield from _paths(v, pre + (i,))


def _setp(o, path, val, delete=False):
    o = copy.deepcopy(o)
    cur = o
    for k in path[:-1]:
        cur = cur[k]
    if delete:
        del cur[path[-1]]
    else:
        cur[path[-1]] = val
    return o


def _json_shard(arg):
    oi, seed = arg
    signal.signal(signal.SIGALRM, _alarm)
    st = Stats()
    cls, obj = json_objects(seed)[oi]
    name = cls.__name__
    vals = [None, True, False, 0, -1, 1, 2**64, 2**31, 1.5, float("nan"), "", "zz", "00", "0x10", [], {}, [[]], [None], {"a": 1}, "é"]
    deepv = []
    for _ in range(500):
        deepv = [deepv]
    vals.append(deepv)
    try:
        d = json.loads(json.dumps(obj.to_dict()))
    except Exception as e:  # noqa: BLE001
        st.violation(f"C19/json/{name}.to_dict/{type(e).__name__}", {"class": name}, repr(e)[:100], "a dict")
        return st
    key = f"C19/json/{name}.from_dict"
    contract_call(st, key, cls.from_dict, d, {"class": name, "mutation": "none"})
    for v in vals:
        st.nontrivial += 1
        contract_call(st, key, cls.from_dict, v, {"class": name, "mutation": "whole", "value": repr(v)[:40]})
    for path in _paths(d):
        st.nontrivial += 1
        contract_call(st, key, cls.from_dict, _setp(d, path, None, delete=True), {"class": name, "path": path, "mutation": "delete"})
        for v in vals:
            st.nontrivial += 1
            contract_call(st, key, cls.from_dict, _setp(d, path, v), {"class": name, "path": path, "value": repr(v)[:40]})
    st.sample({"class": name, "fields": list(d)[:8] if isinstance(d, dict) else "list"})
    return st


def json_boundary(ctx):
    n = len(json_objects(ctx.seed))
    return ctx.pmap(_json_shard, [(i, ctx.seed) for i in range(n)])


# ------------------------------------------------------------------------------------------ predicates
def predicates(ctx):
    st = Stats()
    for serving in (True, False):
        with backend(serving):
            _predicates_once(ctx, st, serving)
    return st


def _predicates_once(ctx, st, serving):
    signal.signal(signal.SIGALRM, _alarm)
    from btclib import b32, b58
    from btclib.block import merkle_proof
    from btclib.block.block_filter import BasicBlockFilter
    from btclib.curves import mult
    from btclib.curves import secp256k1 as ec
    from btclib.ecc import bms, dleq, dsa, ssa
    from btclib.script import script_pub_key as spk
    from btclib.script.engine.script import dsa_verify
    from btclib.script.engine.tapscript import ssa_verify

    errs = lib_errors()
    n, p = ec.n, ec.p
    mh = hashlib.sha256(b"p").digest()
    sig = dsa.sign_(mh, 5)
    Q = mult(5)
    ssig = ssa.sign_(mh, 5, bytes(32))
    KEYS = [Q, (Q[0], p - Q[1]), (5, 0), (1, 1), (Q[0] + p, Q[1]), b"\x02" + Q[0].to_bytes(32, "big"), b"\x02" + bytes(32), b"\x04" + bytes(64), b"", b"\x00" * 33, "zz", Q[0], -1, 2**256]
    DSIGS = [sig, sig.serialize(), sig.serialize()[:-1], b"", b"\x30\x06\x02\x01\x00\x02\x01\x00", dsa.Sig(0, 1, check_validity=False), dsa.Sig(n, n, check_validity=False), dsa.Sig(-1, 2**300, check_validity=False), "00"]
    SSIGS = [ssig, ssig.serialize(), ssig.serialize()[:-1], b"", bytes(64), b"\xff" * 64, ssa.Sig(p, n, check_validity=False), ssa.Sig(-1, -1, check_validity=False), "00"]
    MSGS = [mh, b"", bytes(31), bytes(33), "00" * 32]

    def total(key, f, case):
        case = dict(case, bindings=serving)
        st.evals += 1
        st.nontrivial += 1
        signal.setitimer(signal.ITIMER_REAL, 3)
        try:
            r = f()
            if not isinstance(r, bool):
                st.violation(f"{key}/non-bool", case, repr(r)[:60], "bool")
            st.outcomes[(key.split("/")[-1], r)] += 1
        except (TypeError,) + errs as e:
            # a value outside the declared types may be refused with the library's TypeError; a declared-type value may not raise at all
            if case.get("declared", True):
                st.violation(f"{key}/raises-{type(e).__name__}", case, repr(e)[:100], "True or False")
            elif not isinstance(e, errs):
                st.violation(f"{key}/foreign-{type(e).__name__}", case, repr(e)[:100], "library exception")
        except Hang:
            st.violation(f"{key}/hang", case, "hang", "bool")
        except Exception as e:  # noqa: BLE001
            st.violation(f"{key}/{type(e).__name__}", case, repr(e)[:100], "True or False")
        finally:
            signal.setitimer(signal.ITIMER_REAL, 0)

    def declared_key(k):
        return isinstance(k, (tuple, bytes)) or (isinstance(k, int) and not isinstance(k, bool))

    for k, s, m in itertools.product(KEYS, DSIGS, MSGS[:3]):
        decl = isinstance(m, bytes) and len(m) == 32 and isinstance(k, (tuple, bytes)) and isinstance(s, (bytes, dsa.Sig))
        total("C19/predicate/dsa.verify_", lambda: dsa.verify_(m, k, s), {"key": repr(k)[:40], "sig": repr(s)[:40], "msg": repr(m)[:20], "declared": decl})
    for k, s, m in itertools.product(KEYS, SSIGS, MSGS):
        decl = isinstance(m, bytes) and isinstance(k, (tuple, bytes, int)) and not isinstance(k, bool) and isinstance(s, (bytes, ssa.Sig))
        total("C19/predicate/ssa.verify_", lambda: ssa.verify_(m, k, s), {"key": repr(k)[:40], "sig": repr(s)[:40], "msg": repr(m)[:20], "declared": decl})
    for k, s in itertools.product([x for x in KEYS if isinstance(x, bytes)], [x for x in DSIGS if isinstance(x, bytes)]):
        total("C19/predicate/engine.dsa_verify", lambda: dsa_verify(mh, k, s), {"key": k.hex()[:40], "sig": s.hex()[:40]})
    for k, s in itertools.product([Q[0].to_bytes(32, "big"), bytes(32), b"\xff" * 32, bytes(31), b""], [x for x in SSIGS if isinstance(x, bytes)]):
        total("C19/predicate/tapscript.ssa_verify", lambda: ssa_verify(mh, k, s), {"key": k.hex()[:40], "sig": s.hex()[:40]})
    # batch verification
    for sigs in ([ssig, ssig], [ssig, ssa.Sig(p, n, check_validity=False)], [ssa.Sig(-1, -1, check_validity=False)], []):
        total("C19/predicate/ssa.batch_verify_", lambda: ssa.batch_verify_([mh] * len(sigs), [Q[0]] * len(sigs), sigs), {"n": len(sigs), "declared": True})
    # message signatures
    addr = b58.p2pkh(b"\x02" + Q[0].to_bytes(32, "big") if Q[1] % 2 == 0 else b"\x03" + Q[0].to_bytes(32, "big"))
    msig = bms.sign(b"msg", 5)
    for a in (addr, b32.p2wpkh(b"\x02" + Q[0].to_bytes(32, "big")), "", "1" * 34, "bc1q", "é", addr.upper()):
        for s in (msig, msig.serialize(), msig.b64encode(), b"", "", "AAAA", bytes(65), b"\x1f" + bytes(64), b"\x00" + msig.serialize()[1:], b"\xff" + msig.serialize()[1:]):
            decl = isinstance(a, str)
            total("C19/predicate/bms.verify", lambda: bms.verify(b"msg", a, s), {"addr": a[:20], "sig": repr(s)[:40], "declared": decl})
    # merkle proofs
    h = hashlib.sha256(b"x").digest()
    for txid, branch, idx, root in itertools.product([h, bytes(32), b"", bytes(31)], [[], [h], [h, h], [b""], [bytes(31)]], [0, 1, 2, -1, 2**40], [h, bytes(32), b""]):
        total("C19/predicate/merkle_proof.verify", lambda: merkle_proof.verify(txid, branch, idx, root), {"txid": len(txid), "branch": [len(b) for b in branch], "index": idx, "root": len(root), "declared": True})
    # script classification
    for first, second, ln in itertools.product([0x00, 0x51, 0x60, 0x61, 0x76, 0xA9, 0x6A, 0x21, 0x41, 0xFF], [0x14, 0x20, 0x02, 0x28, 0x29, 0x00, 0x4C], [0, 1, 2, 4, 22, 23, 25, 34, 35, 42, 67]):
        script = (bytes([first, second]) + bytes(max(0, ln - 2)))[:ln]
        for nm in ("is_p2pk", "is_p2pkh", "is_p2sh", "is_p2wpkh", "is_p2wsh", "is_p2tr", "is_p2ms", "is_nulldata"):
            f = getattr(spk, nm, None)
            if f is not None:
                total(f"C19/predicate/{nm}", lambda: f(script), {"script": script.hex()[:20], "len": ln, "declared": True})
    # block filter
    # a valid filter (built by the library) asked about arbitrary elements
    from models.build import block_from, coinbase_tx, simple_tx
    blk = block_from([coinbase_tx(1, [b"\x51"]), simple_tx(1, [b"\x52", b"\x00\x14" + bytes(20)])], mine=False)
    flt = BasicBlockFilter.from_block(blk, [b"\x53"])
    for el in (b"", b"\x51", b"\x52", b"\x6a", bytes(10000), b"\xff" * 3):
        total("C19/predicate/BasicBlockFilter.match", lambda: flt.match(el), {"element": el.hex()[:20], "declared": True})
        total("C19/predicate/BasicBlockFilter.match_any", lambda: flt.match_any([el, b"\x51"]), {"element": el.hex()[:20], "declared": True})
    total("C19/predicate/BasicBlockFilter.match_any", lambda: flt.match_any([]), {"element": "none", "declared": True})
    # ---- well-formed inputs whose algebra lands on the point at infinity: a verdict, never an exception
    from models import ec_ref as RR
    from models.bip340_ref import G_K1, N_K1, P_K1
    from models.bip340_ref import challenge as ch340
    from models.bip340_ref import K1
    for c_int in (1, 2, 0xDEADBEEF, int.from_bytes(mh, "big") % n):
        m32 = c_int.to_bytes(32, "big")
        for r_, s_ in ((Q[0], 1), (Q[0], 2), (mult(3)[0], n - 1)):
            # ECDSA: Q' = -(c/r) G  =>  u1 G + u2 Q' = infinity
            k = (-c_int * pow(r_, -1, n)) % n
            if k == 0:
                continue
            Qinf = RR.mul_fast(k, G_K1, P_K1, 0)
            total("C19/predicate/dsa.verify_/infinity", lambda: dsa.verify_(m32, Qinf, dsa.Sig(r_, s_, check_validity=False)), {"c": hex(c_int)[:12], "r": hex(r_)[:12], "s": s_ if s_ < 10 else "n-1", "declared": True})
        # BIP340: s = e d  =>  s G - e P = infinity
        for d in (1, 5, n - 1):
            Pp = RR.mul_fast(d, G_K1, P_K1, 0)
            dd = d if Pp[1] % 2 == 0 else n - d
            for r_ in (Q[0], mult(7)[0]):
                e = ch340(r_, Pp[0], m32, K1)
                total("C19/predicate/ssa.verify_/infinity", lambda: ssa.verify_(m32, Pp[0], ssa.Sig(r_, e * dd % n, check_validity=False)), {"d": hex(d)[:10], "r": hex(r_)[:12], "declared": True})
                total("C19/predicate/tapscript.ssa_verify/infinity", lambda: ssa_verify(m32, Pp[0].to_bytes(32, "big"), r_.to_bytes(32, "big") + (e * dd % n).to_bytes(32, "big")), {"d": hex(d)[:10], "declared": True})
    # Bitcoin message signatures: a compact signature whose recovered key is the point at infinity (s K == c G)
    from btclib.hashes import magic_message
    for msg in (b"msg", b"", b"x" * 300):
        mm = magic_message(msg)
        real = bms.sign(msg, 5).dsa_sig
        c_int = None
        for cand in (int.from_bytes(hashlib.sha256(mm).digest(), "big") % n, int.from_bytes(mm, "big") % n):
            w = pow(real.s, -1, n)
            X = RR.add(RR.mul_fast(cand * w % n, G_K1, P_K1, 0), RR.mul_fast(real.r * w % n, Q, P_K1, 0), P_K1, 0)
            if X is not None and X[0] % n == real.r:
                c_int = cand     # the challenge the library's own signature satisfies: learnt, not assumed
        if not c_int:
            st.outcomes["bms-challenge-not-identified"] += 1
            continue
        K = RR.mul_fast(c_int, G_K1, P_K1, 0)
        for a in (addr, b32.p2wpkh(b"\x02" + Q[0].to_bytes(32, "big"))):
            for rf_base in (27, 31, 35, 39):
                rf = rf_base + (K[1] & 1)
                try:
                    crafted = bms.Sig(rf, dsa.Sig(K[0], 1))
                except errs:
                    st.outcomes["crafted-sig-not-constructible"] += 1
                    continue
                for spelling in (crafted, crafted.b64encode()):
                    total("C19/predicate/bms.verify/infinity", lambda: bms.verify(msg, a, spelling), {"msg_len": len(msg), "rf": rf, "addr": a[:8], "spelling": type(spelling).__name__, "declared": True})
    return st


# ------------------------------------------------------------------------------------------ consumers
def _consumer_shard(arg):
    si, seed = arg
    signal.signal(signal.SIGALRM, _alarm)
    from btclib.script import sig_hash
    from btclib.script.engine import verify_input
    from btclib.tx import Tx, TxOut

    E = CC.registry(seed)
    st = Stats()
    errs = lib_errors()
    seeds = E["Tx.parse"].seeds
    data0 = seeds[si]
    p2tr = TxOut(1000, b"\x51\x20" + bytes(range(32)), check_validity=False)
    p2wpkh = TxOut(1000, b"\x00\x14" + bytes(20), check_validity=False)
    p2pkh = TxOut(1000, b"\x76\xa9\x14" + bytes(20) + b"\x88\xac", check_validity=False)
    for tag, data in CC.neighbourhood(data0, len(data0) <= 160):
        for cv in (True, False):
            try:
                tx = Tx.parse(data, check_validity=cv)
            except errs:
                continue
            except Exception:  # noqa: BLE001 - binary sub-check reports it
                continue
            st.nontrivial += 1
            case = {"seed": data0.hex()[:60], "mutation": tag, "check_validity": cv}
            for nm, f in (("size", lambda t: (t.size, t.weight, t.vsize)), ("ids", lambda t: (t.id, t.hash)), ("to_dict", lambda t: t.to_dict(check_validity=False)),
                          ("serialize", lambda t: t.serialize(include_witness=True, check_validity=False))):
                contract_call(st, f"C19/consumer/{nm}", f, tx, case)
            for prev in (p2tr, p2wpkh, p2pkh):
                prevouts = [prev] * len(tx.vin)
                for i in range(min(2, len(tx.vin))):
                    for ht in (1, 0x83):
                        contract_call(st, "C19/consumer/sig_hash.from_tx", lambda t: sig_hash.from_tx(prevouts, t, i, ht), tx, dict(case, prev=prev.script_pub_key.script.hex()[:8], i=i, ht=ht))
                    contract_call(st, "C19/consumer/verify_input", lambda t: verify_input(prevouts, t, i), tx, dict(case, prev=prev.script_pub_key.script.hex()[:8], i=i))
    return st


def numeric_text(ctx):
    """Every entry point that reads a number out of text or JSON, handed hostile numerals: a value or the library's own
    exception, under three ambient decimal contexts."""
    import decimal

    from btclib import amount, bip21
    from btclib.fee import FeeRate
    from btclib.tx import TxOut

    signal.signal(signal.SIGALRM, _alarm)
    st = Stats()
    nums = ["0", "1", "-1", "21000000", "21000000.00000001", "20999999.99999999", "1e20", "1E20", "1e21", "1e30", "9" * 29, "9" * 400, "1e-9", "1e-30", "-1e20", "1E+400", "1e999999999", "1e-999999999", "0e999999999", "123e99999",
            "-1E-400", "0.1e1", "nan", "NaN", "-nan", "snan", "inf", "-Infinity", "", " ", "1,5", "0x10", "1_000", "١٢٣", "1e", "e1", ".", "1.", ".1", "+1", "--1", "1e+", "\u0661e2", "1" + "0" * 5000]
    entry = {
        "amount.valid_btc_amount": lambda x: amount.valid_btc_amount(x),
        "amount.sats_from_btc": lambda x: amount.sats_from_btc(x),
        "amount.valid_sats_amount": lambda x: amount.valid_sats_amount(x),
        "FeeRate.from_sats_per_vbyte": lambda x: FeeRate.from_sats_per_vbyte(x),
        "FeeRate.from_btc_per_kvbyte": lambda x: FeeRate.from_btc_per_kvbyte(x),
        "bip21.parse": lambda x: bip21.Bip21.parse("bitcoin:1BvBMSEYstWetqTFn5Au4m4GFg7xJaNVN2?amount=" + x) if hasattr(bip21, "Bip21") else bip21.parse("bitcoin:1BvBMSEYstWetqTFn5Au4m4GFg7xJaNVN2?amount=" + x),
        "TxOut.from_dict": lambda x: TxOut.from_dict({"value": x, "script_pub_key": {"script": "51"}} if False else _txout_dict(x)),
    }
    for prec in (28, 5, 60):
        with decimal.localcontext() as c:
            c.prec = prec
            for nm, f in entry.items():
                for x in nums:
                    st.nontrivial += 1
                    contract_call(st, "C19/numeric/" + nm, f, x, {"text": x[:30] + ("..." if len(x) > 30 else ""), "prec": prec})
                    for y in (_as_number(x),):
                        if y is not None and nm != "bip21.parse":
                            contract_call(st, "C19/numeric/" + nm, f, y, {"value": repr(y)[:30], "prec": prec})
    return st


def _as_number(x):
    try:
        return float(x)
    except (ValueError, OverflowError):
        return None


def _txout_dict(x):
    from btclib.tx import TxOut
    d = TxOut(1, b"\x51").to_dict()
    d["value"] = x
    return d


def _shape_shard(arg):
    """Every transaction shape (inputs x outputs) x spent script kind x input index x hash-type byte handed to the digest
    functions and the engine: a refusal is the library's own exception, whatever the index/count relation."""
    shapes, serving = arg
    signal.signal(signal.SIGALRM, _alarm)
    from btclib.script import sig_hash
    from btclib.script.engine import verify_input, verify_transaction
    from btclib.script.witness import Witness
    from btclib.tx import OutPoint, Tx, TxIn, TxOut

    st = Stats()
    prevs = {"p2tr": b"\x51\x20" + bytes(range(1, 33)), "p2wpkh": b"\x00\x14" + bytes(20), "p2pkh": b"\x76\xa9\x14" + bytes(20) + b"\x88\xac",
             "p2wsh": b"\x00\x20" + bytes(32), "p2sh": b"\xa9\x14" + bytes(20) + b"\x87", "bare": b"\x51"}
    HTS = [0, 1, 2, 3, 0x81, 0x82, 0x83, 4, 0x80, 0x84, 0xFF]
    with backend(serving):
        for nin, nout in shapes:
            for kind, spk in prevs.items():
                for ht in HTS:
                    sig = bytes(64) + (bytes([ht]) if ht else b"")
                    wit = {"p2tr": [sig], "p2wpkh": [bytes(71) + bytes([ht]), b"\x02" + bytes(32)], "p2wsh": [b"\x51"]}.get(kind, [])
                    vin = [TxIn(OutPoint(bytes([j + 1]) * 32, j), b"", 0xFFFFFFFD, Witness(wit), check_validity=False) for j in range(nin)]
                    vout = [TxOut(10 + j, b"\x51", check_validity=False) for j in range(nout)]
                    tx = Tx(2, 0, vin, vout, check_validity=False)
                    prevouts = [TxOut(1000, spk, check_validity=False)] * nin
                    for i in range(nin):  # an index outside the transaction is the caller's argument, not parsed data: outside C19
                        case = {"nin": nin, "nout": nout, "prev": kind, "i": i, "ht": ht, "bindings": serving}
                        st.nontrivial += 1
                        contract_call(st, "C19/shape/sig_hash.from_tx", lambda t: sig_hash.from_tx(prevouts, t, i, ht), tx, case)
                        contract_call(st, "C19/shape/sig_hash.taproot", lambda t: sig_hash.taproot(t, i, prevouts, ht, 0, b"", b""), tx, case)
                        contract_call(st, "C19/shape/sig_hash.taproot-ext", lambda t: sig_hash.taproot(t, i, prevouts, ht, 1, b"\x50\x01", bytes(37)), tx, case)
                        contract_call(st, "C19/shape/sig_hash.legacy", lambda t: sig_hash.legacy(spk, t, i, ht), tx, case)
                        contract_call(st, "C19/shape/sig_hash.segwit_v0", lambda t: sig_hash.segwit_v0(spk, t, i, ht, 1000), tx, case)
                        contract_call(st, "C19/shape/verify_input", lambda t: verify_input(prevouts, t, i), tx, case)
                    contract_call(st, "C19/shape/verify_transaction", lambda t: verify_transaction(prevouts, t), tx, {"nin": nin, "nout": nout, "prev": kind, "ht": ht, "bindings": serving})
    return st


def _opcode_shard(arg):
    """Every byte value as a script token, in every spend form, handed to the engine with a spend that genuinely commits to
    the script (a real control block / script hash): the engine returns or raises its own exception, on both arms."""
    firsts, serving = arg
    signal.signal(signal.SIGALRM, _alarm)
    from btclib.script.engine import verify_input
    from btclib.script.witness import Witness
    from btclib.tx import OutPoint, Tx, TxIn, TxOut
    from models import taproot_ref as TRm
    from models.bip32_ref import h160 as _h160

    st = Stats()
    nums = bytes.fromhex("50929b74c1a04954b78b4b6035e97a5e078a5a0f28ec96d547bfee9ace803ac0")
    with backend(serving):
        for b in firsts:
            for script in (bytes([b]), bytes([0x51, b]), bytes([b, 0x51]), bytes([0x00, 0x63, b, 0x68, 0x51]), bytes([b, b])):
                for form in ("tapscript", "p2wsh", "p2sh", "bare"):
                    if form == "tapscript":
                        lh = TRm.leaf_hash(0xC0, script)
                        qx, par = TRm.tweak_pubkey(int.from_bytes(nums, "big"), lh)
                        spk, ssig, wit = b"\x51\x20" + qx.to_bytes(32, "big"), b"", [script, bytes([0xC0 | par]) + nums]
                    elif form == "p2wsh":
                        spk, ssig, wit = b"\x00\x20" + hashlib.sha256(script).digest(), b"", [script]
                    elif form == "p2sh":
                        spk, ssig, wit = b"\xa9\x14" + _h160(script) + b"\x87", bytes([len(script)]) + script, []
                    else:
                        spk, ssig, wit = script, b"", []
                    tx = Tx(2, 0, [TxIn(OutPoint(b"\x07" * 32, 0), ssig, 0xFFFFFFFD, Witness(wit), check_validity=False)], [TxOut(1, b"\x51", check_validity=False)], check_validity=False)
                    prevouts = [TxOut(1000, spk, check_validity=False)]
                    st.nontrivial += 1
                    contract_call(st, "C19/opcode/verify_input/" + form, lambda t: verify_input(prevouts, t, 0), tx, {"script": script.hex(), "form": form, "bindings": serving})
    return st


def consumer_opcodes(ctx):
    return ctx.pmap(_opcode_shard, [(list(range(a, a + 16)), serving) for a in range(0, 256, 16) for serving in (True, False)])


def consumer_shapes(ctx):
    shapes = [(a, b) for a in (1, 2, 3) for b in (0, 1, 2, 3)]
    return ctx.pmap(_shape_shard, [([sh], serving) for sh in shapes for serving in (True, False)])


def consumers(ctx):
    E = CC.registry(ctx.seed)
    n = min(len(E["Tx.parse"].seeds), ctx.pick(2, 6))
    return ctx.pmap(_consumer_shard, [(i, ctx.seed) for i in range(n)])


SUBS = [
    ("binary", binary),
    ("text", text),
    ("json_boundary", json_boundary),
    ("predicates", predicates),
    ("consumers", consumers),
    ("numeric_text", numeric_text),
    ("consumer_shapes", consumer_shapes),
    ("consumer_opcodes", consumer_opcodes),
]
