"""C18 — sizes, fees and amounts are exact integer accounting.

E1: size identities at every CompactSize edge (transactions and blocks); fee and unit conversions against exact rational
arithmetic over a lattice and under every ambient decimal context of a small alphabet (the context is an environment
answer the library does not own); E2: the C10 role pipelines extended by the funding role (build_psbt) — estimate >=
signed weight, conservation, rate honoured on the final virtual size, no dust change, refusal exactly when short —
with the output value walked across every threshold of the funding decision."""
from __future__ import annotations

import decimal
import hashlib
import itertools
from fractions import Fraction

from mc.core import Stats, backend, lib_errors, shard_round_robin
from checks import psbt_common as PC

PROPERTY = "C18"
LEVEL = "model_checking"
RULE = ("evals = size identities (one per transaction/block shape), fee/amount conversions (one per (value, context)), funding pipelines "
        "(states = pipelines run through build_psbt -> sign -> finalize -> extract; transitions = role steps); non-trivial = a length "
        "crossing a CompactSize boundary, a witness, a non-default decimal context, a fee with a remainder, a change decision at a threshold")
ASSUMPTIONS = ["decimal contexts {prec 28 default, prec 6, prec 60} x rounding {HALF_EVEN, DOWN, UP}", "fee lattice rate <= 3000 sat/kvB x vsize <= 400 (thorough: 6000 x 1000) plus large edges",
               "multisig m-of-n for m in {1,2,3,15,16}", "taproot script-path inputs have no library sizer and are outside the estimate clause"]
META = {"engine": "E1 enumeration + E2 role pipelines with the funding role",
        "technique": "model checking: bounded-exhaustive enumeration against exact rational arithmetic, with the ambient decimal context enumerated as an environment answer; explicit-state exploration of funding pipelines with output values walked across each decision threshold",
        "note": "Trusts Fraction arithmetic, the BIP141 weight definition and Core's dust formula transcribed in this file."}

MAX_SATS = 21_000_000 * 10**8


# ------------------------------------------------------------------------------------------------ sizes
def _cs(n):
    return 1 if n < 0xFD else 3 if n <= 0xFFFF else 5 if n <= 0xFFFFFFFF else 9


def tx_sizes(ctx):
    from btclib.script.witness import Witness
    from btclib.tx import OutPoint, Tx, TxIn, TxOut

    st = Stats()
    errs = lib_errors()
    LENS = [0, 1, 0xFC, 0xFD, 0xFE, 0xFFFF, 0x10000]
    for nin, nout in ((1, 1), (2, 0), (0, 1), (0xFC, 1), (0xFD, 2), (1, 0xFD), (1, 0xFC)):
        for sl, wl, wc in itertools.product(LENS, [0, 1, 0xFC, 0xFD, 0x10000], [0, 1, 0xFC, 0xFD]):
            st.evals += 1
            if sl >= 0xFD or wl >= 0xFD or wc >= 0xFD or nin >= 0xFD or nout >= 0xFD:
                st.nontrivial += 1
            vin = [TxIn(OutPoint(bytes([1]) * 32, i), bytes(sl if i == 0 else 0), 0, Witness([bytes(wl)] * wc if i == 0 else []), check_validity=False) for i in range(nin)]
            vout = [TxOut(1, bytes(sl if i == 0 else 1), check_validity=False) for i in range(nout)]
            tx = Tx(2, 0, vin, vout, check_validity=False)
            full = tx.serialize(True, check_validity=False)
            stripped = tx.serialize(False, check_validity=False)
            case = {"nin": nin, "nout": nout, "script_len": sl, "wit_item_len": wl, "wit_items": wc}
            # independent size of the serialization
            has_wit = wc > 0 and nin > 0
            exp_stripped = 4 + _cs(nin) + sum(36 + _cs(len(i.script_sig)) + len(i.script_sig) + 4 for i in vin) + _cs(nout) + sum(8 + _cs(len(o.script_pub_key.script)) + len(o.script_pub_key.script) for o in vout) + 4
            exp_full = exp_stripped + ((2 + sum(_cs(len(i.script_witness.stack)) + sum(_cs(len(e)) + len(e) for e in i.script_witness.stack) for i in vin)) if has_wit else 0)
            if len(stripped) != exp_stripped or len(full) != exp_full:
                st.violation("C18/tx/serialization-length", case, (len(stripped), len(full)), (exp_stripped, exp_full))
            if tx.size != len(full):
                st.violation("C18/tx/size", case, tx.size, len(full))
            if tx.weight != 3 * len(stripped) + len(full):
                st.violation("C18/tx/weight", case, tx.weight, 3 * len(stripped) + len(full))
            if tx.vsize != -(-(3 * len(stripped) + len(full)) // 4):
                st.violation("C18/tx/vsize", case, tx.vsize, -(-(3 * len(stripped) + len(full)) // 4))
            if tx.id != hashlib.sha256(hashlib.sha256(stripped).digest()).digest()[::-1]:
                st.violation("C18/tx/id", case, "differs", "hash256 of the stripped serialization")
            st.outcomes[(has_wit, _cs(sl), _cs(wl), _cs(wc))] += 1
            if nin and nout:
                try:
                    back = Tx.parse(full, check_validity=False)
                    if back != tx or back.size != tx.size or back.weight != tx.weight:
                        st.violation("C18/tx/roundtrip", case, "differs", "equal")
                except errs as e:
                    st.violation("C18/tx/parse-refuses-own", case, repr(e)[:60], "parsed")
    return st


def block_sizes(ctx):
    from btclib.block import Block
    from models import build as MB

    st = Stats()
    for ntx in (1, 2, 3, 0xFC, 0xFD, 0xFE):
        for witness in (False, True):
            for big in (0, 0xFD, 0x10000):
                st.evals += 1
                body = [MB.simple_tx(i, [b"\x51" * max(1, big if i == 1 else 1)], witness=witness) for i in range(1, ntx)]
                cb = MB.coinbase_tx(1, [b"\x51"], bytes(32) if witness else None, bytes(32) if witness else None)
                blk = MB.block_from([cb] + body, mine=False)
                full = blk.serialize(include_witness=True, check_validity=False) if _takes_witness(blk) else blk.serialize(check_validity=False)
                stripped = 80 + _cs(ntx) + sum(len(t.serialize(False, check_validity=False)) for t in blk.transactions)
                case = {"ntx": ntx, "witness": witness, "big_script": big}
                if ntx >= 0xFD or witness:
                    st.nontrivial += 1
                if blk.size != len(full):
                    st.violation("C18/block/size", case, blk.size, len(full))
                if len(full) != 80 + _cs(ntx) + sum(len(t.serialize(True, check_validity=False)) for t in blk.transactions):
                    st.violation("C18/block/serialization-length", case, len(full), "header + count + transactions")
                if blk.stripped_size != stripped:
                    st.violation("C18/block/stripped-size", case, blk.stripped_size, stripped)
                if blk.weight != 3 * stripped + len(full):
                    st.violation("C18/block/weight", case, blk.weight, 3 * stripped + len(full))
                if blk.vsize != -(-(3 * stripped + len(full)) // 4):
                    st.violation("C18/block/vsize", case, blk.vsize, -(-(3 * stripped + len(full)) // 4))
                st.outcomes[(witness, _cs(ntx), _cs(big))] += 1
    return st


def _takes_witness(blk):
    import inspect
    return "include_witness" in inspect.signature(blk.serialize).parameters


# ------------------------------------------------------------------------------------------------ fees and amounts
CONTEXTS = [(28, decimal.ROUND_HALF_EVEN), (6, decimal.ROUND_HALF_EVEN), (6, decimal.ROUND_DOWN), (60, decimal.ROUND_UP), (3, decimal.ROUND_UP)]


def _dec_str(fr: Fraction, places):
    """Exact decimal string of a fraction with at most `places` decimals (the fraction is k / 10^places)."""
    n = fr * 10**places
    assert n.denominator == 1
    n = n.numerator
    s = str(abs(n)).rjust(places + 1, "0")
    return ("-" if n < 0 else "") + (s[:-places] + "." + s[-places:] if places else s)


def _fee_shard(arg):
    rates, vmax, ctxs = arg
    from btclib.fee import FeeRate, fee_from_vsize

    st = Stats()
    errs = lib_errors()
    for prec, rounding in ctxs:
        with decimal.localcontext() as c:
            c.prec = prec
            c.rounding = rounding
            for r in rates:
                try:
                    fr = FeeRate(sats_per_kvbyte=r)
                except errs as e:
                    st.violation("C18/fee/rate-refused", {"rate": r}, repr(e)[:60], "a rate")
                    continue
                for v in list(range(0, vmax + 1)) + [999, 1000, 1001, 99_999, 100_000, 400_000, 1_000_000]:
                    st.evals += 1
                    exp = -((-r * v) // 1000)
                    if (r * v) % 1000:
                        st.nontrivial += 1
                    got = fee_from_vsize(v, fr)
                    if got != exp or type(got) is not int:
                        st.violation("C18/fee/not-the-exact-ceiling", {"rate": r, "vsize": v, "prec": prec}, got, exp)
                # unit round trip: sat/vB text with three decimals <-> sat/kvB
                st.evals += 1
                q = _dec_str(Fraction(r, 1000), 3)
                for spelling in (q, decimal.Decimal(q), q.rstrip("0").rstrip(".") or "0"):
                    try:
                        back = FeeRate.from_sats_per_vbyte(spelling).sats_per_kvbyte
                    except errs as e:
                        back = "refused " + repr(e)[:40]
                    except Exception as e:  # noqa: BLE001
                        back = "foreign " + type(e).__name__
                    if back != r:
                        st.violation("C18/fee/sat-per-vbyte-conversion-not-exact", {"quote": str(spelling), "prec": prec, "rounding": rounding}, back, r)
                try:
                    txt = fr.sats_per_vbyte
                    if Fraction(str(txt)) != Fraction(r, 1000):
                        st.violation("C18/fee/sats_per_vbyte-not-exact", {"rate": r, "prec": prec}, str(txt), q)
                except Exception as e:  # noqa: BLE001
                    st.violation("C18/fee/sats_per_vbyte-raises", {"rate": r, "prec": prec}, repr(e)[:60], q)
                st.outcomes[(prec, "rate")] += 1
    return st


def fees(ctx):
    from btclib.fee import FeeRate

    rmax, vmax = ctx.pick((3000, 400), (6000, 1000))
    rates = list(range(0, rmax + 1)) + [10**6, 10**9 + 7, 12345678901234567891]
    shards = []
    for cx in CONTEXTS:
        quick_r = rates if cx[0] == 28 else rates[:: 7] + rates[-3:]
        for sh in shard_round_robin(quick_r, 16):
            shards.append((sh, vmax if cx[0] == 28 else 50, [cx]))
    st = ctx.pmap(_fee_shard, shards)
    errs = lib_errors()
    # quotes finer than a millisatoshi, long quotes, non-numbers: refused or exact, under every context
    for prec, rounding in CONTEXTS:
        with decimal.localcontext() as c:
            c.prec = prec
            c.rounding = rounding
            quotes = ["12.345", "12.3456", "0.001", "0.0001", "1e-3", "1e-4", "1E3", "123456789012345678901234567.891", "1.0000000000000000000000000000001",
                      "1.00000000000000000000000000000000000000000000000000000000000000001", "0.0010000000000000000000000000000000000001", "nan", "inf", "-1", "-0.001", "", "1,5", 1.1, 1.5, 2, "  3 ",
                      "99999999999999999999999999999999999.999", "0.9995", "0.99949999999999999999999999999999999999"]
            for q in quotes:
                st.evals += 1
                st.nontrivial += 1
                try:
                    exact = Fraction(repr(q) if isinstance(q, float) else str(q).strip())
                except (ValueError, ZeroDivisionError):
                    exact = None
                exp = None
                if exact is not None and exact >= 0 and (exact * 1000).denominator == 1:
                    exp = int(exact * 1000)
                try:
                    got = FeeRate.from_sats_per_vbyte(q).sats_per_kvbyte
                except errs:
                    got = None
                except Exception as e:  # noqa: BLE001
                    got = "foreign " + type(e).__name__
                if got != exp:
                    st.violation("C18/fee/quote-not-exact-or-refused", {"quote": str(q), "prec": prec, "rounding": rounding}, got, exp)
                # BTC/kvB quotes: exact at 8 decimals
                exp_b = None
                if exact is not None and 0 <= exact <= 21_000_000 and (exact * 10**8).denominator == 1:
                    exp_b = int(exact * 10**8)
                try:
                    got_b = FeeRate.from_btc_per_kvbyte(q).sats_per_kvbyte
                except errs:
                    got_b = None
                except Exception as e:  # noqa: BLE001
                    got_b = "foreign " + type(e).__name__
                if got_b != exp_b:
                    st.violation("C18/fee/btc-per-kvbyte-quote-not-exact-or-refused", {"quote": str(q), "prec": prec, "rounding": rounding}, got_b, exp_b)
    return st


def _amount_shard(arg):
    values, ctxs = arg
    from btclib.amount import btc_from_sats, sats_from_btc, valid_btc_amount, valid_sats_amount

    st = Stats()
    errs = lib_errors()
    for prec, rounding in ctxs:
        with decimal.localcontext() as c:
            c.prec = prec
            c.rounding = rounding
            for s in values:
                st.evals += 1
                inside = 0 <= s <= MAX_SATS
                case = {"sats": s, "prec": prec, "rounding": rounding}
                if prec != 28:
                    st.nontrivial += 1
                # sats -> btc
                try:
                    b = btc_from_sats(s)
                    got = Fraction(str(b))
                except errs:
                    got = None
                except Exception as e:  # noqa: BLE001
                    got = "foreign " + type(e).__name__
                exp = Fraction(s, 10**8) if inside else None
                if got != exp:
                    st.violation("C18/amount/btc_from_sats-not-exact", case, str(got), str(exp))
                # btc text -> sats
                txt = _dec_str(Fraction(s, 10**8), 8)
                for spelling in (txt, decimal.Decimal(txt)):
                    try:
                        got2 = sats_from_btc(spelling)
                    except errs:
                        got2 = None
                    except Exception as e:  # noqa: BLE001
                        got2 = "foreign " + type(e).__name__
                    if got2 != (s if inside else None):
                        st.violation("C18/amount/sats_from_btc-not-exact", dict(case, text=txt), got2, s if inside else None)
                try:
                    got3 = valid_sats_amount(s)
                except errs:
                    got3 = None
                if got3 != (s if inside else None):
                    st.violation("C18/amount/valid_sats_amount", case, got3, s if inside else None)
                # a ninth decimal is refused
                if inside and s < MAX_SATS:
                    try:
                        got4 = sats_from_btc(txt + "1")
                    except errs:
                        got4 = None
                    except Exception as e:  # noqa: BLE001
                        got4 = "foreign " + type(e).__name__
                    if got4 is not None:
                        st.violation("C18/amount/fraction-of-a-satoshi-accepted", dict(case, text=txt + "1"), got4, None)
    return st


def amounts(ctx):
    vals = set(range(-2, ctx.pick(3000, 20000)))
    for e in range(0, 16):
        for d in (-1, 0, 1):
            vals.add(10**e + d)
            vals.add(9 * 10**e + d)
    for d in range(-3, 4):
        vals.add(MAX_SATS + d)
        vals.add(2**63 + d)
        vals.add(2**53 + d)
    vals |= {123456789, 1234567890123456, 2099999997690000, 99999999, 100000001, 12345678_87654321 % MAX_SATS}
    vals = sorted(vals)
    shards = []
    for cx in CONTEXTS:
        for sh in shard_round_robin(vals, 8):
            shards.append((sh, [cx]))
    st = ctx.pmap(_amount_shard, shards)
    st.notes["values"] = len(vals)
    st.notes["contexts"] = CONTEXTS
    return st


# ------------------------------------------------------------------------------------------------ estimate and funding
ESTIMABLE = ["pkh", "wpkh", "sh-wpkh", "multi-bare", "sh-multi", "wsh-multi", "sh-wsh-sortedmulti", "wsh-multi-2signers", "tr-key", "wsh-older", "wsh-after-recovery"]
for _m, _n in ((1, 1), (1, 3), (3, 3), (15, 15), (16, 16), (1, 16), (15, 16), (2, 16)):
    PC.register(f"wsh-multi-{_m}-{_n}", lambda _m=_m, _n=_n: "wsh(multi(%d,%s))" % (_m, ",".join(PC.key(0, 48, 20 + j) for j in range(_n))), "v0")
    ESTIMABLE.append(f"wsh-multi-{_m}-{_n}")
for _m, _n in ((1, 1), (3, 5), (15, 15)):
    PC.register(f"sh-multi-{_m}-{_n}", lambda _m=_m, _n=_n: "sh(multi(%d,%s))" % (_m, ",".join(PC.key(0, 45, 20 + j) for j in range(_n))), "legacy")
    ESTIMABLE.append(f"sh-multi-{_m}-{_n}")
for _m, _n in ((2, 3), (3, 3), (16, 16)):
    PC.register(f"multi-bare-{_m}-{_n}", lambda _m=_m, _n=_n: "multi(%d,%s)" % (_m, ",".join(PC.key(0, 45, 40 + j) for j in range(_n))), "legacy")
    ESTIMABLE.append(f"multi-bare-{_m}-{_n}")


def ref_dust(spk: bytes) -> int:
    """Core's GetDustThreshold at 3000 sat/kvB."""
    if spk[:1] == b"\x6a" or len(spk) > 10000:
        return 0
    segwit = len(spk) >= 4 and len(spk) <= 42 and (spk[0] == 0 or 0x51 <= spk[0] <= 0x60) and spk[1] == len(spk) - 2
    size = 8 + _cs(len(spk)) + len(spk) + (32 + 4 + 1 + 107 // 4 + 4 if segwit else 32 + 4 + 1 + 107 + 4)
    return -((-3000 * size) // 1000)


def _ceil_fee(rate, vsize):
    return -((-rate * vsize) // 1000)


TAP_SCRIPT_KINDS = ["tr-leaf", "tr-key+leaf", "tr-multi_a", "tr-miniscript"]


def _tap_estimate_shard(combos):
    """Taproot script-path inputs: the library may refuse to estimate (no sizer speaks for them), but an estimate it does
    give -- with every sizer it ships, and with the psbt carrying or lacking the optional BIP371 fields -- is an upper bound."""
    from btclib.descriptors.descriptors import miniscript_sizer
    from btclib.script.engine import verify_transaction

    st = Stats()
    errs = lib_errors()
    for kind, hname, strip, serving in combos:
        case = {"kind": kind, "hash_type": hname, "stripped": strip, "bindings": serving}
        with backend(serving):
            st.evals += 1
            st.states += 1
            try:
                base, prevouts = PC.build((kind, "wpkh"), PC.HT[hname], seq=5, lock=0, in_value=1_000_000)
                pin = base.inputs[0]
                if "merkle_root" in strip:
                    pin.taproot_merkle_root = b""
                if "internal_key" in strip:
                    pin.taproot_internal_key = b""
                if "key_paths" in strip:
                    pin.taproot_hd_key_paths.clear()
            except errs as e:
                st.outcomes[("build-refused", repr(e)[:40])] += 1
                continue
            estimates = {}
            for nm, sizer in (("none", None), ("miniscript_sizer", miniscript_sizer)):
                try:
                    estimates[nm] = base.weight_estimate(sizer=sizer)
                except errs:
                    estimates[nm] = None
            try:
                signed = PC.sign_all(base, (kind, "wpkh"))
                final, tx = PC.finish(signed, (kind, "wpkh"))
                verify_transaction(prevouts, tx)
            except errs as e:
                st.outcomes[("pipeline-refused", kind, tuple(strip))] += 1
                continue
            st.transitions += 5
            st.nontrivial += 1
            for nm, est in estimates.items():
                st.outcomes[("estimate", nm, est is not None)] += 1
                if est is not None and est < tx.weight:
                    st.violation("C18/estimate/below-signed-weight/" + kind, dict(case, sizer=nm), est, tx.weight)
    return st


def tap_estimates(ctx):
    combos = []
    strips = [(), ("merkle_root",), ("internal_key",), ("merkle_root", "internal_key"), ("merkle_root", "internal_key", "key_paths")]
    for serving in (True, False):
        for kind in TAP_SCRIPT_KINDS:
            for hname in ("DEFAULT", "ALL"):
                for strip in strips:
                    combos.append((kind, hname, strip, serving))
    return ctx.pmap(_tap_estimate_shard, shard_round_robin(combos, 32))


def _funding_shard(combos):
    from btclib.descriptors.descriptors import miniscript_sizer
    from btclib.fee import FeeRate
    from btclib.script.engine import verify_transaction
    from btclib.tx import TxOut
    from btclib.tx_builder import build_psbt

    st = Stats()
    errs = lib_errors()
    for mix, hname, rate, change_kind, serving, variant in combos:
        ht = PC.HT[hname]
        case0 = {"mix": mix, "hash_type": hname, "rate": rate, "change": change_kind, "bindings": serving, "variant": variant}
        with backend(serving):
            try:
                base, prevouts = PC.build(mix, ht, seq=5, lock=500 + variant, in_value=10_000_000)
            except errs as e:
                st.violation("C18/funding/build-refused", case0, repr(e)[:80], "psbt")
                continue
            # (a) the estimate is an upper bound of the signed weight
            st.evals += 1
            st.states += 1
            try:
                est = base.weight_estimate(sizer=miniscript_sizer)
                signed = PC.sign_all(base, mix)
                final, tx = PC.finish(signed, mix)
                verify_transaction(prevouts, tx)
            except errs as e:
                st.violation("C18/estimate/pipeline-refused/" + "+".join(sorted(set(mix))), case0, repr(e)[:100], "signed transaction")
                continue
            st.transitions += 5
            st.nontrivial += 1
            if est < tx.weight:
                st.violation("C18/estimate/below-signed-weight/" + "+".join(sorted(set(mix))), case0, est, tx.weight)
            st.outcomes[("slack", min(est - tx.weight, 40) // 4)] += 1
            if variant:
                continue
            # (b) funding: walk the paid value across every threshold of the decision
            total_in = sum(po.value for po in prevouts)
            change_spk = None if change_kind is None else PC.descriptor(change_kind).script_pub_key(99).script
            pay_spk = PC.descriptor("wpkh").script_pub_key(7)
            fr = FeeRate(sats_per_kvbyte=rate)
            inputs = base.inputs

            def fund(value):
                return build_psbt([_copy_in(i) for i in inputs], [TxOut(value, pay_spk)], fr, change_spk, lock_time=500, sizer=miniscript_sizer)

            try:
                probe = fund(1000)
            except errs as e:
                st.violation("C18/funding/probe-refused", case0, repr(e)[:100], "funded psbt")
                continue
            v_with = probe.psbt.vsize_estimate(miniscript_sizer)
            fee_with = _ceil_fee(rate, v_with)
            dust = ref_dust(change_spk) if change_spk is not None else 0
            # thresholds: change == dust (+-1); remainder == fee without change (+-1)
            cands = {1000, total_in - fee_with - dust - 1, total_in - fee_with - dust, total_in - fee_with - dust + 1, total_in - fee_with, total_in - fee_with + 1}
            # the no-change size: learnt from a funding that has no change
            try:
                nochange = build_psbt([_copy_in(i) for i in inputs], [TxOut(1000, pay_spk)], fr, None, lock_time=500, sizer=miniscript_sizer)
                v_without = nochange.psbt.vsize_estimate(miniscript_sizer)
            except errs as e:
                st.violation("C18/funding/probe-refused", case0, repr(e)[:100], "funded psbt")
                continue
            fee_without = _ceil_fee(rate, v_without)
            cands |= {total_in - fee_without - 1, total_in - fee_without, total_in - fee_without + 1, total_in, total_in + 1}
            for value in sorted(v for v in cands if v >= 546):
                st.evals += 1
                st.states += 1
                case = dict(case0, pay=value, total_in=total_in)
                try:
                    f = fund(value)
                except errs as e:
                    # refusal is right only when the inputs cannot cover outputs + fee at the no-change size
                    if total_in - value >= fee_without:
                        st.violation("C18/funding/refused-though-covered", case, repr(e)[:80], f"funded: remainder {total_in - value} >= fee {fee_without}")
                    st.outcomes["refused"] += 1
                    continue
                outs = [o.amount for o in f.psbt.outputs]
                if total_in != sum(outs) + f.fee:
                    st.violation("C18/funding/value-not-conserved", case, {"in": total_in, "out": sum(outs), "fee": f.fee}, "in == out + fee")
                if f.change_index is not None:
                    ch = f.psbt.outputs[f.change_index].amount
                    if ch < dust or ch != f.change:
                        st.violation("C18/funding/dust-change-created", case, ch, f">= {dust}")
                    if f.psbt.outputs[f.change_index].script_pub_key != change_spk:
                        st.violation("C18/funding/change-to-another-script", case, "differs", "the change script")
                    st.outcomes["change"] += 1
                else:
                    st.outcomes["no-change"] += 1
                    # dropping the change is right only if it would have been dust (or there is no change script)
                    if change_spk is not None and total_in - value - fee_with >= dust:
                        st.violation("C18/funding/change-dropped-though-not-dust", case, f.fee, f"change {total_in - value - fee_with} >= dust {dust}")
                if outs[0] != value:
                    st.violation("C18/funding/payment-altered", case, outs[0], value)
                # sign the funded psbt: the rate holds on the FINAL virtual size
                try:
                    fp = f.psbt
                    for i in range(len(mix)):
                        if ht is not None:
                            fp.inputs[i].sig_hash_type = ht
                    signed = PC.sign_all(fp, mix)
                    final, tx = PC.finish(signed, mix)
                    verify_transaction(prevouts, tx)
                except errs as e:
                    st.violation("C18/funding/funded-psbt-does-not-sign", case, repr(e)[:100], "signed transaction")
                    continue
                st.transitions += 6
                st.nontrivial += 1
                paid = total_in - sum(o.value for o in tx.vout)
                if paid != f.fee:
                    st.violation("C18/funding/fee-differs-from-reported", case, paid, f.fee)
                if paid < _ceil_fee(rate, tx.vsize):
                    st.violation("C18/funding/pays-below-the-rate-on-final-vsize", case, {"paid": paid, "vsize": tx.vsize}, _ceil_fee(rate, tx.vsize))
    return st


def _copy_in(psbt_in):
    import copy
    return copy.deepcopy(psbt_in)


def funding(ctx):
    combos = []
    rates = [0, 1, 999, 1000, 1001, 2500, 10_000, 123_457]
    for serving in (True, False):
        for k in ESTIMABLE:
            for hname in (["ALL", "SINGLE|ACP", "DEFAULT"] if PC.digest_class(k) == "tap" else ["ALL", "NONE|ACP"]):
                for variant in range(ctx.pick(6, 24)):  # different digests -> different DER lengths
                    if variant and hname != "ALL":
                        continue
                    for rate in (rates if variant == 0 and hname == "ALL" else [1001]):
                        for change_kind in ((None, "wpkh", "pkh", "tr-key", "wsh-multi") if rate in (1001, 10_000) and variant == 0 else ("wpkh",)):
                            if serving is False and (variant > 1 or rate not in (1001,)):
                                continue
                            combos.append(((k,), hname, rate, change_kind, serving, variant))
        pairs = [("pkh", "wpkh"), ("wpkh", "tr-key"), ("sh-multi", "wsh-multi"), ("wsh-multi-16-16", "pkh"), ("tr-key", "tr-key"), ("sh-wpkh", "wsh-older"), ("multi-bare", "sh-wsh-sortedmulti")]
        for mix in pairs:
            for rate in (1001, 2500):
                combos.append((mix, "ALL", rate, "wpkh", serving, 0))
    st = ctx.pmap(_funding_shard, shard_round_robin(combos, 96))
    st.notes["combos"] = len(combos)
    st.notes["kinds"] = ESTIMABLE
    return st


def dust(ctx):
    """dust_threshold equals Core's formula for every standard script size and rate."""
    from btclib.fee import FeeRate, dust_threshold

    st = Stats()
    scripts = {"p2pkh": b"\x76\xa9\x14" + bytes(20) + b"\x88\xac", "p2sh": b"\xa9\x14" + bytes(20) + b"\x87", "p2wpkh": b"\x00\x14" + bytes(20), "p2wsh": b"\x00\x20" + bytes(32),
               "p2tr": b"\x51\x20" + bytes(32), "p2a": b"\x51\x02\x4e\x73", "op_return": b"\x6a\x04abcd", "bare-op_return": b"\x6a", "empty": b"", "p2pk": b"\x21" + b"\x02" * 33 + b"\xac",
               "wit-v16-40": b"\x60\x28" + bytes(40), "not-witness-41": b"\x00\x29" + bytes(41), "long-252": b"\x51" * 252, "long-253": b"\x51" * 253, "long-10000": b"\x51" * 10000, "long-10001": b"\x51" * 10001}
    known = {"p2pkh": 546, "p2sh": 540, "p2wpkh": 294, "p2wsh": 330, "p2tr": 330, "op_return": 0, "bare-op_return": 0}
    for name, spk in scripts.items():
        st.evals += 1
        got = dust_threshold(spk)
        if got != ref_dust(spk) or (name in known and got != known[name]):
            st.violation("C18/dust/threshold", {"script": name}, got, ref_dust(spk))
        for rate in (0, 1, 999, 1000, 3000, 3001, 12345):
            st.evals += 1
            st.nontrivial += 1
            got = dust_threshold(spk, FeeRate(sats_per_kvbyte=rate))
            exp = 0 if ref_dust(spk) == 0 else -((-rate * (ref_dust(spk) // 3)) // 1000)
            if got != exp:
                st.violation("C18/dust/threshold-at-rate", {"script": name, "rate": rate}, got, exp)
    return st


SUBS = [("tx_sizes", tx_sizes), ("block_sizes", block_sizes), ("fees", fees), ("amounts", amounts), ("dust", dust), ("funding", funding), ("tap_estimates", tap_estimates)]
