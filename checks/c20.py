"""C20 — nonces sign once, wiped signers stay dead, answers do not depend on history.

  a. secret nonce (E2): every sequence (depth <= 4) over {sign with a good session, a session that
     raises before the read, the wrong key, read the bytes, sign through a second session} on ONE
     real bytearray: at most one call ever returns a signature made with that nonce, and after it the
     first 64 bytes are zero.
  b. signer life cycles (E2): every public signing method of dsa.Signer / ssa.Signer (both backends,
     and a toy curve for the Python arm) and SoftwareSigner x {before, after} wipe/close/__exit__,
     every sequence to depth 3/4: once dead, nothing signs.
  c. wallet ledger (E4 + E2): specs/WalletLedger.tla explored by TLC (every reachable state), EVERY
     edge replayed on real wallets of three kinds; plus BFS over call histories incl. refused calls.
  d. history independence (E2): every ordered sequence (depth <= 2/3) of cache-touching calls followed
     by each probe: the probe's answer equals its answer in a fresh interpreter; the backend switched
     back and forth is part of the alphabet.
  e. schedules (E3): 2 threads x cache-colliding / flag-toggling bodies under the cooperative
     scheduler of mc/sched.py, preemption bound 0..2, scheduling points from the ownership audit."""
from __future__ import annotations

import hashlib
import itertools
import json
import os
import re
import subprocess
import sys

from mc.core import Stats, backend, lib_errors, shard_round_robin

PROPERTY = "C20"
LEVEL = "model_checking"
RULE = ("states = call histories replayed on fresh real objects (nonce bytearray, signer, wallet) with canonical observable state; "
        "transitions = one real API call, compared with the reference model's step; wallet: every state and edge of the TLC "
        "state graph of specs/WalletLedger.tla replayed on BIP32KeyWallet/DescriptorWallet/ScriptWallet; schedules: every "
        "interleaving with <= 2 preemptions of 2 threads at the audited shared-state access lines. Non-trivial = the history "
        "contains a kill/consume event, a refused call, a backend switch, or the schedule has a preemption")
ASSUMPTIONS = ["CPython's GIL makes a traced line the atomic step; C-level races inside the bindings and free-threaded builds are out of scope",
               "more than 2-3 threads / 2 preemptions and histories beyond the depth bound are outside the bound",
               "specs/WalletLedger.tla states the intended ledger (its invariants are the property's clauses, checked by TLC)"]
META = {
    "engine": "E4 (TLC + edge replay) for the wallet ledger, E2 for nonce/signer life cycles and history independence, E3 cooperative scheduler for interleavings",
    "technique": "model checking: TLA+ model explored by TLC with every edge replayed on the implementation; explicit-state BFS over call histories; preemption-bounded exhaustive schedule exploration of real threads",
    "note": "Trusts the TLA+ ledger spec, CPython's line-granularity atomicity under the GIL, and the ownership audit's container reachability (one level deep).",
}

N = 0xFFFFFFFFFFFFFFFFFFFFFFFFFFFFFFFEBAAEDCE6AF48A03BBFD25E8CD0364141


# ============================================================================================ a. secret nonce
def nonce_once(ctx):
    from btclib.ecc import musig2

    st = Stats()
    errs = lib_errors()
    q1, q2 = 3, 4
    pk1, pk2 = musig2.individual_pub_key(q1), musig2.individual_pub_key(q2)

    def session():
        sn1, pn1 = musig2.nonce_gen_(bytes(32), q1, pk1)
        sn2, pn2 = musig2.nonce_gen_(b"\x01" * 32, q2, pk2)
        agg = musig2.nonce_agg([pn1, pn2])
        good = musig2.SessionContext(agg, [pk1, pk2], [], [], bytes(32))
        good2 = musig2.SessionContext(agg, [pk1, pk2], [], [], b"\x07" * 32)
        badctx = musig2.SessionContext(bytes(66), [pk1, b"\x02" + bytes(32)], [], [], bytes(32))
        return sn1, good, good2, badctx, pn1

    OPS = {
        "sign-good": lambda sn, g, g2, b: musig2.sign(sn, q1, g),
        "sign-other-message": lambda sn, g, g2, b: musig2.sign(sn, q1, g2),
        "sign-bad-session": lambda sn, g, g2, b: musig2.sign(sn, q1, b),
        "sign-wrong-key": lambda sn, g, g2, b: musig2.sign(sn, q2, g),
        "read": lambda sn, g, g2, b: bytes(sn),
    }
    depth = ctx.pick(4, 5)
    seen = set()
    for d in range(1, depth + 1):
        for seq in itertools.product(OPS, repeat=d):
            sn, g, g2, b, pn1 = session()
            orig = bytes(sn)
            sigs = []
            model_consumed = False
            for op in seq:
                st.transitions += 1
                st.evals += 1
                try:
                    r = OPS[op](sn, g, g2, b)
                    ok = True
                except errs:
                    ok = False
                except Exception as e:  # noqa: BLE001
                    st.violation("C20/nonce/foreign-exception", {"sequence": seq, "op": op}, repr(e)[:80], "library exception")
                    ok = False
                # model: sign-good / sign-other-message succeed iff not consumed; wrong-key consumes and refuses; bad-session never consumes
                if op in ("sign-good", "sign-other-message"):
                    exp_ok = not model_consumed
                    if exp_ok:
                        model_consumed = True
                elif op == "sign-wrong-key":
                    exp_ok = False
                    model_consumed = True
                elif op == "sign-bad-session":
                    exp_ok = False
                else:
                    exp_ok = True
                if op != "read" and ok:
                    sigs.append((op, r))
                if ok != exp_ok:
                    key = "C20/nonce/signed-again" if ok and op != "read" else "C20/nonce/refused-while-fresh"
                    st.violation(key, {"sequence": seq, "op": op}, ok, exp_ok)
                zero = bytes(sn[:64]) == bytes(64)
                if zero != model_consumed:
                    st.violation("C20/nonce/zeroing", {"sequence": seq, "after": op}, "zeroed" if zero else "intact", "zeroed" if model_consumed else "intact")
                seen.add((model_consumed, len(sigs)))
            if len(sigs) > 1:
                st.violation("C20/nonce/two-signatures-one-nonce", {"sequence": seq}, [s[0] for s in sigs], "at most one")
            if any(o != "read" for o in seq):
                st.nontrivial += 1
            # a signature that was returned verifies (it was made with the nonce, not with zeros)
            for op, r in sigs[:1]:
                ctxv = g if op == "sign-good" else g2
                if not musig2.partial_sig_verify_(r, pn1, pk1, ctxv):
                    st.violation("C20/nonce/returned-signature-invalid", {"sequence": seq}, "invalid", "valid")
            st.outcomes[len(sigs)] += 1
    st.states = len(seen)
    st.notes["depth"] = depth
    st.sample({"ops": list(OPS), "depth": depth})
    return st


# ============================================================================================ b. signer life cycles
def _toy_curve():
    from btclib.curves import Curve

    return Curve(23, 5, 1, (0, 1), 31, 1, False)


def signer_lifecycles(ctx):
    from btclib.bip32 import derive, rootxprv_from_seed
    from btclib.bip32.bip32 import BIP32KeyData, fingerprint, xpub_from_xprv_
    from btclib.bip32.key_origin import BIP32KeyOrigin
    from btclib.ecc import dsa, ssa
    from btclib.psbt_signer import SoftwareSigner

    st = Stats()
    errs = lib_errors()
    mh = hashlib.sha256(b"m").digest()
    toy = _toy_curve()
    x = rootxprv_from_seed(b"\x01" * 16)
    pub = xpub_from_xprv_(BIP32KeyData.b58decode(derive(x, "m/0"))).key
    org = BIP32KeyOrigin(fingerprint(x), "m/0")

    def some(r):
        if r is None:
            raise errs[0]("declined")
        return r

    depth = ctx.pick(3, 4)
    seen = set()

    from btclib.curves import curve as _curve

    def lifecycle(name, make, ops, kills, expect=None, flips=False):
        alphabet = list(ops) + list(kills) + (["flip-backend"] if flips else [])
        for d in range(1, depth + 1):
            for seq in itertools.product(alphabet, repeat=d):
                was = _curve.is_libsecp256k1_serving()
                try:
                    _one_sequence(name, make, ops, kills, expect, seq)
                finally:
                    _curve.set_libsecp256k1_serving(serving=was)

    def _one_sequence(name, make, ops, kills, expect, seq):
                obj = make()
                dead = False
                for op in seq:
                    if op == "flip-backend":
                        # the backend switched under a live object: what it answers afterwards is what it answered before
                        _curve.set_libsecp256k1_serving(serving=not _curve.is_libsecp256k1_serving())
                        st.transitions += 1
                        continue
                    st.transitions += 1
                    st.evals += 1
                    if op in kills:
                        try:
                            kills[op](obj)
                        except errs:
                            pass
                        dead = True
                        continue
                    try:
                        r = ops[op](obj)
                        ok = r is not None
                        if ok and expect and op in expect and bytes(r) != expect[op]:
                            st.violation(f"C20/signer-lifecycle/{name}.{op}@answer-depends-on-history", {"sequence": seq, "op": op}, bytes(r).hex()[:24], expect[op].hex()[:24])
                    except errs:
                        ok = False
                    except Exception as e:  # noqa: BLE001
                        st.violation(f"C20/signer-lifecycle/{name}.{op}@foreign-exception", {"sequence": seq}, repr(e)[:80], "library exception")
                        ok = False
                    if dead and ok:
                        st.violation(f"C20/signer-lifecycle/{name}.{op}@dead", {"sequence": seq, "op": op}, "answered", "refused")
                    if not dead and not ok:
                        st.violation(f"C20/signer-lifecycle/{name}.{op}@live-refuses", {"sequence": seq, "op": op}, "refused", "answered")
                    seen.add((name, dead, op))
                if any(o in kills for o in seq):
                    st.nontrivial += 1
                st.outcomes[(name, dead)] += 1

    exp_dsa = {"sign_": dsa.sign_(mh, 5).serialize(), "sign": dsa.sign(b"x", 5).serialize()}
    exp_ssa = {"sign_": ssa.sign_(mh, 5, bytes(32)).serialize(), "sign": ssa.sign(b"x", 5, bytes(32)).serialize()}
    for serving in (True, False):
        with backend(serving):
            lifecycle(f"dsa.Signer[bindings={serving}]", lambda: dsa.Signer(5), {"sign_": lambda s: s.sign_(mh), "sign": lambda s: s.sign(b"x")},
                      {"wipe": lambda s: s.wipe(), "__exit__": lambda s: s.__exit__(None, None, None)}, exp_dsa, flips=True)
            lifecycle(f"ssa.Signer[bindings={serving}]", lambda: ssa.Signer(5), {"sign_": lambda s: s.sign_(mh, bytes(32)), "sign": lambda s: s.sign(b"x", bytes(32))},
                      {"wipe": lambda s: s.wipe(), "__exit__": lambda s: s.__exit__(None, None, None)}, exp_ssa, flips=True)
    lifecycle("dsa.Signer[toy-curve]", lambda: dsa.Signer(5, toy), {"sign_": lambda s: s.sign_(mh)}, {"wipe": lambda s: s.wipe()})
    lifecycle("ssa.Signer[toy-curve]", lambda: ssa.Signer(5, toy), {"sign_": lambda s: s.sign_(mh, bytes(32))}, {"wipe": lambda s: s.wipe()})
    lifecycle("SoftwareSigner", lambda: SoftwareSigner(x), {
        "sign_ecdsa": lambda s: some(s.sign_ecdsa(pub, org, mh)),
        "sign_schnorr": lambda s: some(s.sign_schnorr(pub[1:], org, mh, b"")),
        "sign_schnorr_script_path": lambda s: some(s.sign_schnorr_script_path(pub[1:], org, mh, bytes(32))),
        "sign_message": lambda s: s.sign_message(b"hello", "m/0"),
        "xpub": lambda s: s.xpub("m/0"),
    }, {"close": lambda s: s.close()})
    st.states = len(seen)
    st.notes["depth"] = depth
    return st


# ============================================================================================ c. wallet ledger
def _wallets():
    """{kind: factory} — three RangedWallet kinds over the same account."""
    from btclib.bip32 import derive, rootxprv_from_seed, xpub_from_xprv
    from btclib.wallet import BIP32KeyWallet, DescriptorWallet

    xprv = rootxprv_from_seed(b"\x07" * 16)
    acct = xpub_from_xprv(derive(xprv, "m/84h/0h/0h"))
    out = {
        "BIP32KeyWallet": lambda: BIP32KeyWallet(xprv, "m/84h/0h/0h"),
        "DescriptorWallet[multipath]": lambda: DescriptorWallet.from_descriptor(f"wpkh({acct}/<0;1>/*)"),
    }
    try:
        out["DescriptorWallet[tr]"] = lambda: DescriptorWallet.from_descriptor(f"tr({acct}/<0;1>/*)")
        out["DescriptorWallet[tr]"]()
    except Exception:  # noqa: BLE001
        out.pop("DescriptorWallet[tr]", None)
    return out


def _observe(w):
    handed = [(w.address_info(a).branch, w.address_info(a).index) for a in w.addresses]
    return handed, {b: w._next_index.get(b, 0) for b in (0, 1)}


def _parse_state(lbl):
    handed = [(int(a), int(b)) for a, b in re.findall(r"<<(\d+), (\d+)>>", lbl.split("next")[0])]
    nxt = {int(a): int(b) for a, b in re.findall(r"(\d+) :> (\d+)", lbl)}
    return handed, nxt


def _apply(w, label, errs):
    m = re.match(r"Addr\((\d+),\s*(\d+)\)", label)
    if m:
        return [("address", w.address(int(m.group(1)), int(m.group(2))))]
    m = re.match(r"NextAddr\((\d+)\)", label)
    if m:
        return [("next_address", w.next_address(int(m.group(1))))]
    if label.startswith("Refused"):
        out = []
        for nm, f in (("branch2", lambda: w.address(2, 0)), ("branch-1", lambda: w.address(-1, 0)), ("index-1", lambda: w.address(0, -1)), ("next-branch2", lambda: w.next_address(2))):
            try:
                f()
                out.append((nm, "ACCEPTED"))
            except errs:
                out.append((nm, "refused"))
        return out
    if label.startswith("Query"):
        w.position_of(w.script_pub_key(1, 2), 3)
        _ = "bc1qxxxx" in w
        _ = w.addresses
        try:
            w.address_info("bc1qw508d6qejxtdg4y5r3zarvary0c5xw7kv8f3t4")
        except errs:
            pass
        return []
    raise ValueError(label)


def _ledger_shard(arg):
    kind, edge_idx, graph_blob = arg
    errs = lib_errors()
    st = Stats()
    nodes, edges, paths = graph_blob
    make = _wallets()[kind]
    for ei in edge_idx:
        s, t, l = edges[ei]
        if l == "Next":
            continue
        w = make()
        for step in paths[s]:
            if step != "Next":
                _apply(w, step, errs)
        if _observe(w) != _parse_state(nodes[s]):
            st.violation(f"C20/wallet/{kind}/state-differs-from-model", {"path": paths[s], "state": nodes[s][:120]}, _observe(w), _parse_state(nodes[s]))
            continue
        before = _observe(w)
        res = _apply(w, l, errs)
        st.traces += 1
        st.transitions += 1
        st.evals += 1
        after = _observe(w)
        exp = _parse_state(nodes[t])
        if after != exp:
            act = l.split("(")[0]
            st.violation(f"C20/wallet/{kind}/{act}-edge-differs-from-model", {"path": paths[s], "action": l}, after, exp)
        for nm, r in res:
            if r == "ACCEPTED":
                st.violation(f"C20/wallet/{kind}/invalid-position-accepted", {"path": paths[s], "call": nm}, "accepted", "refused")
        if l.startswith(("Refused", "Query")):
            st.nontrivial += 1
            if after != before:
                st.violation(f"C20/wallet/{kind}/refused-or-query-call-mutates", {"path": paths[s], "action": l}, after, before)
        if l.startswith("NextAddr"):
            # the clause itself, independently of the model: the index handed out is the lowest above all handed out on the branch
            b = int(re.match(r"NextAddr\((\d+)\)", l).group(1))
            prev = [i for bb, i in before[0] if bb == b]
            info = w.address_info(res[0][1])
            if info.index != (max(prev) + 1 if prev else 0) or info.branch != b:
                st.violation(f"C20/wallet/{kind}/next-address-not-lowest-above-all", {"path": paths[s], "branch": b}, info.index, (max(prev) + 1 if prev else 0))
        if len(set(w.addresses)) != len(w.addresses):
            st.violation(f"C20/wallet/{kind}/address-recorded-twice", {"path": paths[s], "action": l}, w.addresses, "each once")
    return st


def wallet_ledger(ctx):
    from mc.tlc import run_tlc

    g = run_tlc("WalletLedger.tla", constants={"MaxI": ctx.pick(2, 2)})
    st = Stats()
    st.states = len(g.nodes)
    st.notes["tlc"] = g.stats
    st.notes["tlc_edges"] = len(g.edges)
    blob = (g.nodes, g.edges, g.path)
    kinds = list(_wallets())
    shards = []
    for k in kinds:
        for sh in shard_round_robin(range(len(g.edges)), 24):
            shards.append((k, sh, blob))
    st.merge(ctx.pmap(_ledger_shard, shards))
    st.states = len(g.nodes)
    st.notes["wallet_kinds"] = kinds
    st.sample({"tlc_states": len(g.nodes), "tlc_edges": len(g.edges), "edge": list(g.edges[0])})
    return st


# ============================================================================================ d. history independence
PROBE_SRC = r'''
import hashlib, json, sys
sys.path.insert(0, %r)
def probes():
    from btclib.curves import mult, secp256k1, CURVES, double_mult_var
    from btclib.curves.curve import PreparedPoint, set_libsecp256k1_serving
    from btclib.ecc import dsa, ssa, pedersen, ellswift, musig2
    from btclib.bip32 import bip32
    from btclib.mnemonic import bip39, electrum
    from btclib import b58
    mh = hashlib.sha256(b"h").digest()
    r1 = CURVES["secp256r1"]
    root = bip32.rootxprv_from_seed(bytes(range(16)))
    P = {}
    P["mult-G"] = lambda: mult(0xdeadbeef)
    P["mult-Q"] = lambda: mult(77, mult(5))
    P["mult-r1"] = lambda: mult(0xabcdef, None, r1)
    P["prepared"] = lambda: PreparedPoint(mult(5)).mult(99)
    P["double"] = lambda: double_mult_var(3, mult(5), 7, secp256k1.G)
    P["dsa-verify"] = lambda: dsa.verify_(mh, mult(9), dsa.sign_(mh, 9))
    P["dsa-sign-r1"] = lambda: dsa.sign_(mh, 9, ec=r1).serialize().hex()
    P["ssa-sign"] = lambda: ssa.sign_(mh, 9, bytes(32)).serialize().hex()
    P["xpub-derive"] = lambda: bip32.derive(root, "m/0/1")
    P["wordlist-en"] = lambda: bip39.mnemonic_from_entropy(bytes(16), "en")
    P["wordlist-it"] = lambda: bip39.mnemonic_from_entropy(bytes(16), "it")
    P["electrum-old"] = lambda: electrum.old_mnemonic_from_hex_seed("00" * 16) if hasattr(electrum, "old_mnemonic_from_hex_seed") else None
    P["pedersen-H"] = lambda: pedersen.second_generator(secp256k1)
    P["ellswift"] = lambda: ellswift.decode_var(bytes(range(64)))
    P["address"] = lambda: b58.p2pkh(mult(11))
    from btclib.curves import Curve
    toy_a0 = Curve(13, 0, 2, (1, 4), 19, 1, False)
    toy_a7 = Curve(13, 7, 6, (1, 1), 11, 1, False)
    P["ellswift-toy-a0"] = lambda: ellswift.decode_var(bytes([3, 5]), toy_a0)
    P["ellswift-toy-a7"] = lambda: ellswift.decode_var(bytes([3, 5]), toy_a7)
    P["mult-toy"] = lambda: mult(5, None, toy_a7)
    def musig():
        q1, q2 = 3, 4
        pk1, pk2 = musig2.individual_pub_key(q1), musig2.individual_pub_key(q2)
        sn1, pn1 = musig2.nonce_gen_(bytes(32), q1, pk1); sn2, pn2 = musig2.nonce_gen_(b"\x01"*32, q2, pk2)
        c = musig2.SessionContext(musig2.nonce_agg([pn1, pn2]), [pk1, pk2], [], [], bytes(32))
        a = musig2.sign(sn1, q1, c); b = musig2.sign(sn2, q2, c)
        return musig2.partial_sig_agg([a, b], c).serialize().hex()
    P["musig-session"] = musig
    return P
def run(names):
    from btclib.curves.curve import set_libsecp256k1_serving
    P = probes(); out = []
    for n in names:
        if n == "backend-off": set_libsecp256k1_serving(serving=False); out.append(None); continue
        if n == "backend-on": set_libsecp256k1_serving(serving=True); out.append(None); continue
        try: out.append(repr(P[n]()))
        except Exception as e: out.append("EXC " + type(e).__name__)
    return out
'''


def _fresh_answers(names):
    """Each probe's answer in a fresh interpreter process, nothing else computed before it."""
    repo = os.environ.get("VERIF_REPO", "/repo")
    code = (PROBE_SRC % repo) + "\nimport json\nprint(json.dumps({n: run([n])[0] for n in %r}))\n" % (names,)
    out = {}
    # one fresh process per probe: nothing computed before it
    for n in names:
        c = (PROBE_SRC % repo) + "\nprint(json.dumps(run([%r])[0]))\n" % n
        r = subprocess.run([sys.executable, "-c", c], capture_output=True, text=True, timeout=300, env=dict(os.environ, PYTHONHASHSEED="0"))
        if r.returncode != 0:
            raise RuntimeError("probe process failed: " + r.stderr[-500:])
        out[n] = json.loads(r.stdout.strip().splitlines()[-1])
    return out


def _history_shard(arg):
    seqs, fresh, repo = arg
    ns = {}
    exec(PROBE_SRC % repo, ns)  # noqa: S102 - the probe table, shared verbatim with the fresh processes
    st = Stats()
    from btclib.curves.curve import set_libsecp256k1_serving

    for seq in seqs:
        set_libsecp256k1_serving(serving=True)
        got = ns["run"](list(seq))
        serving = True
        for i, (nm, g) in enumerate(zip(seq, got)):
            st.transitions += 1
            if nm.startswith("backend-"):
                serving = nm == "backend-on"
                continue
            st.evals += 1
            if g != fresh[nm]:
                st.violation(f"C20/history/{nm}", {"history": seq[:i], "probe": nm, "bindings_serving": serving}, g, fresh[nm])
        if any(n.startswith("backend-") for n in seq):
            st.nontrivial += 1
        st.states += 1
    set_libsecp256k1_serving(serving=True)
    return st


def history_independence(ctx):
    names = ["mult-G", "mult-Q", "mult-r1", "prepared", "double", "dsa-verify", "dsa-sign-r1", "ssa-sign", "xpub-derive", "wordlist-en", "wordlist-it", "electrum-old", "pedersen-H",
             "ellswift", "address", "musig-session", "ellswift-toy-a0", "ellswift-toy-a7", "mult-toy"]
    fresh = _fresh_answers(names)
    alpha = names + ["backend-off", "backend-on"]
    depth = ctx.pick(2, 3)
    seqs = [s for d in range(1, depth + 1) for s in itertools.product(alpha, repeat=d) if not s[-1].startswith("backend-")]
    repo = os.environ.get("VERIF_REPO", "/repo")
    st = ctx.pmap(_history_shard, [(sh, fresh, repo) for sh in shard_round_robin(seqs, 64)])
    st.notes.update({"depth": depth, "probes": len(names), "fresh_process_answers": len(fresh)})
    # the base58 key cache at and past its 2048 bound: the first key's answer after 2100 other keys
    from btclib.bip32 import bip32
    root = bip32.rootxprv_from_seed(bytes(range(16)))
    first = bip32.derive(root, "m/0/1")
    for i in range(2100):
        bip32.BIP32KeyData.b58decode(bip32.derive(root, [i + 10]))
    st.evals += 1
    if bip32.derive(root, "m/0/1") != first or repr(first) != fresh["xpub-derive"]:
        st.violation("C20/history/base58-cache-eviction", {"keys_decoded": 2100}, "differs", "same")
    return st


# ============================================================================================ e. schedules
def _schedule_harnesses():
    """[(name, setup, [body, ...], extra_flagged_functions)] — bodies forced onto the same lazily built state."""
    from btclib import number_theory as nt
    from btclib.bip32 import bip32
    from btclib.curves import CURVES, mult, secp256k1
    from btclib.curves import curve as curve_mod
    from btclib.curves import curve_group as cg
    from btclib.curves.curve import set_libsecp256k1_serving
    from btclib.ecc import dsa, ellswift, pedersen

    toy = _toy_curve()
    r1 = CURVES["secp256r1"]
    mh = hashlib.sha256(b"s").digest()
    root = bip32.rootxprv_from_seed(bytes(range(16)))
    xk = bip32.derive(root, "m/0")
    H = []

    def clear_caches():
        for mod in (cg, bip32, pedersen):
            for v in vars(mod).values():
                if hasattr(v, "cache_clear"):
                    v.cache_clear()
        getattr(ellswift, "_CONSTANTS", {}).clear()

    H.append(("batch-inverse", clear_caches, [lambda: nt.mod_inv_batch_var([3, 5, 7], 101), lambda: nt.mod_inv_batch_var([2, 9, 11, 13], 101)], [nt.mod_inv_batch_var]))
    H.append(("toy-mult-shared-tables", clear_caches, [lambda: mult(7, toy.G, toy), lambda: mult(11, toy.G, toy)], [cg._cached_fixed_base_multiples.__wrapped__, cg._mult_fixed_base]))
    H.append(("toy-double-mult", clear_caches, [lambda: __import__("btclib").curves.double_mult_var(3, toy.G, 5, mult(2, toy.G, toy), toy), lambda: mult(9, toy.G, toy)],
              [cg._cached_odd_multiples_aff.__wrapped__]))
    H.append(("base58-key-cache", clear_caches, [lambda: bip32.derive(xk, "m/1"), lambda: bip32.derive(xk, "m/2")], [bip32._cached_base58_decode.__wrapped__]))
    H.append(("pedersen-second-generator", clear_caches, [lambda: pedersen.second_generator(toy), lambda: pedersen.second_generator(toy)], [pedersen.second_generator.__wrapped__]))
    H.append(("ellswift-constants", clear_caches, [lambda: ellswift.decode_var(bytes(range(64))), lambda: ellswift.decode_var(bytes(64))], [ellswift._constants]))

    def toggler():
        set_libsecp256k1_serving(serving=False)
        set_libsecp256k1_serving(serving=True)
        return "toggled"

    def reset_flag():
        clear_caches()
        set_libsecp256k1_serving(serving=True)

    H.append(("backend-toggle-vs-mult", reset_flag, [lambda: mult(0xDEADBEEF), toggler], [curve_mod._libsecp256k1_serves, curve_mod.set_libsecp256k1_serving, curve_mod._mult_checked]))
    H.append(("backend-toggle-vs-verify", reset_flag, [lambda: dsa.verify_(mh, mult(9), dsa.sign_(mh, 9)), toggler], [curve_mod._libsecp256k1_serves, curve_mod.set_libsecp256k1_serving]))
    return H


def schedules(ctx):
    from mc import sched

    st = Stats()
    sys.setswitchinterval(1000)
    bound_small, bound_big = ctx.pick((1, 2), (2, 2))
    for name, setup, bodies, extra in _schedule_harnesses():
        # sequential answers (each body alone, after setup)
        seq = []
        for b in bodies:
            setup()
            try:
                seq.append(("ok", b()))
            except Exception as e:  # noqa: BLE001
                seq.append(("exc", type(e).__name__, str(e)[:80]))
        # ownership audit: which frames alias module-level mutable state while the bodies run alone
        shared = sched.shared_container_ids()
        flagged = {}
        for b in bodies:
            setup()
            flagged.update(sched.audit(b, shared))
        codes = set(flagged) | {f.__code__ for f in extra if hasattr(f, "__code__")}
        st.notes.setdefault("audited_shared_frames", {})[name] = sorted({f"{c.co_name} <- {w}" for c, w in flagged.items()})[:12]

        def make(bodies=bodies, codes=codes, setup=setup):
            setup()
            return sched.Sched(bodies, codes)

        def check(res, seq=seq):
            return all(r == s for r, s in zip(res, seq))

        # harnesses with few scheduling points go to the larger bound
        probe = make()
        choices, points, _ = probe.execute([])
        bound = bound_big if len(points) <= 60 else bound_small
        n, fails, capped = sched.explore(make, bound, check, limit=ctx.pick(4000, 40000))
        st.evals += n
        st.states += n
        st.transitions += n * max(1, len(points))
        if len(points) > 2:
            st.nontrivial += n
        st.outcomes[(name, "fail" if fails else "ok")] += 1
        st.notes.setdefault("schedules", {})[name] = {"executions": n, "scheduling_points_default_run": len(points), "preemption_bound": bound, "capped": capped}
        if capped:
            st.caps.append(f"{name}: schedule cap hit at {n} executions (bound {bound})")
        if fails:
            ch, res = fails[0]
            # determinism: the failing schedule must reproduce identically twice before it is reported
            r1 = make().execute(ch)[2]
            r2 = make().execute(ch)[2]
            if r1 != r2 or r1 != res:
                from mc.core import HarnessError
                raise HarnessError(f"schedule of {name} does not replay deterministically")
            st.violation(f"C20/schedules/{name}", {"schedule": ch, "preemption_bound": bound, "failing_schedules": len(fails)}, res, seq)
        setup()
    st.sample({"harnesses": [h[0] for h in _schedule_harnesses()]})
    return st


SUBS = [
    ("nonce_once", nonce_once),
    ("signer_lifecycles", signer_lifecycles),
    ("wallet_ledger", wallet_ledger),
    ("history_independence", history_independence),
    ("schedules", schedules),
]
