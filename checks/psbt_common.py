"""Shared driver for C10 / C11 / C18: the descriptor alphabet and the role pipeline
(create -> update -> sign (per signer) -> combine -> finalize -> extract) on real objects."""
from __future__ import annotations

import functools

NUMS = "50929b74c1a04954b78b4b6035e97a5e078a5a0f28ec96d547bfee9ace803ac0"
HT = {"ALL": 1, "NONE": 2, "SINGLE": 3, "ALL|ACP": 0x81, "NONE|ACP": 0x82, "SINGLE|ACP": 0x83, "DEFAULT": None}


@functools.lru_cache(maxsize=None)
def signers():
    from btclib.bip32 import rootxprv_from_seed
    from btclib.psbt_signer import SoftwareSigner

    return SoftwareSigner(rootxprv_from_seed(b"\x05" * 32)), SoftwareSigner(rootxprv_from_seed(b"\xa7" * 32))


def key(s, purpose, branch):
    sg = signers()[s]
    fp = sg.master_fingerprint.hex()
    return f"[{fp}/{purpose}h/0h/0h]{sg.xpub(f'm/{purpose}h/0h/0h')}/{branch}/*"


@functools.lru_cache(maxsize=None)
def kinds():
    k = key
    return {
        # name: (descriptor, digest class, signers needed in order, spending condition: (min lock, relative))
        "pkh": f"pkh({k(0, 44, 0)})",
        "wpkh": f"wpkh({k(0, 84, 0)})",
        "sh-wpkh": f"sh(wpkh({k(0, 49, 0)}))",
        "multi-bare": f"multi(1,{k(0, 45, 4)},{k(0, 45, 5)})",
        "sh-multi": f"sh(multi(2,{k(0, 45, 0)},{k(0, 45, 1)}))",
        "wsh-multi": f"wsh(multi(2,{k(0, 48, 0)},{k(0, 48, 1)},{k(0, 48, 5)}))",
        "sh-wsh-sortedmulti": f"sh(wsh(sortedmulti(1,{k(0, 48, 2)},{k(0, 48, 3)})))",
        "wsh-multi-2signers": f"wsh(multi(2,{k(0, 48, 6)},{k(1, 48, 6)}))",
        "tr-key": f"tr({k(0, 86, 0)})",
        "tr-leaf": f"tr({NUMS},pk({k(0, 86, 1)}))",
        "tr-key+leaf": f"tr({k(0, 86, 2)},pk({k(0, 86, 3)}))",
        "tr-multi_a": f"tr({NUMS},multi_a(2,{k(0, 86, 4)},{k(0, 86, 5)},{k(0, 86, 6)}))",
        "tr-tree": f"tr({k(1, 86, 7)},{{pk({k(1, 86, 8)}),{{pk({k(0, 86, 9)}),multi_a(1,{k(1, 86, 10)},{k(1, 86, 11)})}}}})",
        "tr-miniscript": f"tr({NUMS},and_v(v:pk({k(0, 86, 12)}),older(5)))",
        "wsh-older": f"wsh(and_v(v:pk({k(0, 48, 4)}),older(5)))",
        "wsh-after-recovery": f"wsh(or_d(pk({k(1, 48, 7)}),and_v(v:pk({k(0, 48, 7)}),after(500))))",
    }


DIGEST_CLASS = {"pkh": "legacy", "multi-bare": "legacy", "sh-multi": "legacy", "wpkh": "v0", "sh-wpkh": "v0", "wsh-multi": "v0",
                "sh-wsh-sortedmulti": "v0", "wsh-multi-2signers": "v0", "wsh-older": "v0", "wsh-after-recovery": "v0",
                "tr-key": "tap", "tr-leaf": "tap", "tr-key+leaf": "tap", "tr-multi_a": "tap", "tr-tree": "tap", "tr-miniscript": "tap"}
NEEDS_S2 = {"wsh-multi-2signers"}


def spendable(kind, version, lock, seq):
    """The spending condition of the kind under (tx version, lock time, own sequence), by BIP65/68/112."""
    if kind in ("wsh-older", "tr-miniscript"):
        return version >= 2 and not seq & (1 << 31) and not seq & (1 << 22) and (seq & 0xFFFF) >= 5
    if kind == "wsh-after-recovery":
        return 500 <= lock < 500_000_000 and seq != 0xFFFFFFFF
    return True


EXTRA = {}


def register(name, make, cls):
    """Another kind (lazy descriptor text), for checks that need more shapes than the C10 alphabet."""
    EXTRA[name] = make
    DIGEST_CLASS[name] = cls


def digest_class(kind):
    return DIGEST_CLASS[kind]


@functools.lru_cache(maxsize=None)
def descriptor(kind):
    from btclib.descriptors import add_checksum, parse

    text = kinds()[kind] if kind in kinds() else EXTRA[kind]()
    return parse(add_checksum(text))


def build(mix, ht, seq=5, lock=0, version=2, v2=False, per_input_ht=None, seqs=None, in_value=100_000, required=None):
    """-> (psbt, prevouts).  One input per kind of `mix`, one wpkh output per input."""
    from btclib.psbt.psbt import Psbt
    from btclib.tx import OutPoint, Tx, TxIn, TxOut

    descs = [descriptor(k) for k in mix]
    prev, vin = [], []
    for i, d in enumerate(descs):
        po = TxOut(in_value + i, d.script_pub_key(i))
        ptx = Tx(vin=[TxIn(OutPoint(bytes([i + 1]) * 32, 0))], vout=[TxOut(1, b"\x51"), po])
        prev.append((ptx, po))
        vin.append(TxIn(OutPoint(ptx.id, 1), sequence=(seqs[i] if seqs else seq)))
    vout = [TxOut(50_000, descriptor("wpkh").script_pub_key(7 + i)) for i in range(len(mix))]
    psbt = Psbt.from_tx(Tx(version, lock, vin, vout))
    for i, (d, (ptx, po)) in enumerate(zip(descs, prev)):
        psbt.inputs[i].non_witness_utxo = ptx
        if DIGEST_CLASS[mix[i]] != "legacy":
            psbt.inputs[i].witness_utxo = po
        psbt = d.update_psbt_input(psbt, i, i)
        h = per_input_ht[i] if per_input_ht else ht
        if h is not None:
            psbt.inputs[i].sig_hash_type = h
    if v2:
        psbt = psbt.to_v2()
        # BIP370: an input may require a lock time (time-based and/or height-based); the transaction's is computed from them
        for i, (t, h) in enumerate(required or []):
            if t is not None:
                psbt.inputs[i].required_time_lock_time = t
            if h is not None:
                psbt.inputs[i].required_height_lock_time = h
        if required:
            psbt.assert_valid()
    return psbt, [po for _, po in prev]


def sign_all(psbt, mix, order=(0, 1)):
    """Each signer answers the same request; the answers are combined in `order`."""
    from btclib.psbt.psbt import combine
    from btclib.psbt_signer import request_signatures

    s = signers()
    if not any(k in NEEDS_S2 or k == "tr-tree" for k in mix):
        return request_signatures(s[0], psbt)
    answers = [request_signatures(s[j], psbt) for j in order]
    return combine(answers)


def solver_for(mix):
    """An InputSolver: taproot leaves that are not a single key are the descriptor's to satisfy (Descriptor.satisfy),
    everything else is the stock finalizer's or miniscript_solver's."""
    from btclib.descriptors.descriptors import miniscript_solver
    from btclib.descriptors.miniscript import SpendContext

    def solver(psbt, vin_i):
        kind = mix[vin_i]
        if not kind.startswith(("tr-multi_a", "tr-miniscript", "tr-tree")):
            return miniscript_solver(psbt, vin_i)
        pin = psbt.inputs[vin_i]
        sigs = {}
        if pin.taproot_key_spend_signature:
            sigs[pin.taproot_internal_key] = pin.taproot_key_spend_signature
        for k, sig in pin.taproot_script_spend_signatures.items():
            sigs[k[:32]] = sig
        tx = psbt.tx
        spend = SpendContext(locktime=tx.lock_time, sequence=tx.vin[vin_i].sequence, version=tx.version)
        return descriptor(kind).satisfy(sigs, vin_i, None, spend)
    return solver


def finish(signed, mix=None):
    from btclib.descriptors.descriptors import miniscript_solver
    from btclib.psbt.psbt import extract_tx, finalize

    final = finalize(signed, solver=solver_for(mix) if mix else miniscript_solver)
    return final, extract_tx(final)
