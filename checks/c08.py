"""C08 — the script engine gives Bitcoin Core's verdict on every script and spend.

Oracle: models/script_ref.py, a transcription of Core's interpreter.cpp gated on all 1228 runnable
vectors of Core's script_tests.json (error names included).
  a. E2 over the signature-free interpreter state space: every token sequence of depth 1..3 over
     narrowing alphabets x initial stacks x flag sets x {base, witness v0, tapscript}; the real
     engine's final stack / refusal compared with the model's on every transition.
  b. E1 over signature opcodes with real signatures (made by the reference signer): signature,
     public-key, dummy, FindAndDelete and code-separator alphabets, k-of-n orders, sigops budget.
  c. E1 over spend forms through the public verify_input: bare, P2PKH, P2SH, P2WPKH, P2WSH,
     P2SH-wrapped, taproot key/script path, annex, unknown witness versions; on both backends.
  d. Core's own vectors run on both backends of the library.
  e. generated programs at the 201-op / 520-byte / 1000-element / 10000-byte / nesting limits."""
from __future__ import annotations

import hashlib
import itertools

from mc.core import Stats, backend, lib_errors, shard_round_robin
from models import bip340_ref as B
from models import ec_ref as R
from models import script_ref as M
from models import sighash_ref as S
from models import taproot_ref as T

PROPERTY = "C08"
LEVEL = "model_checking"
RULE = ("states = (stack, altstack, condition stack, op count) of the model reached by token sequences of depth <= 3 (4 thorough) "
        "from 6 initial stacks; transitions = one token executed by the real engine under 6 flag sets x 3 script versions and "
        "compared (final stack or refusal); plus E1 products for signature opcodes (signature x key x flag alphabets with "
        "reference-made signatures), spend forms through verify_input on both backends, Core's 1228 vectors on both "
        "backends, and generated limit programs. Non-trivial = at least one side refuses, or a signature is checked")
ASSUMPTIONS = ["models/script_ref.py is Core's interpreter (gated on script_tests.json with expected error names)",
               "programs longer than the depth bound that are not one of the generated limit families are outside the bound"]
META = {
    "engine": "E2 explicit-state search over the interpreter + E1 products, vs a gated transcription of Core's interpreter.cpp",
    "technique": "explicit-state model checking of the script interpreter against a transcription of Bitcoin Core's EvalScript/VerifyScript; conformance of the model established on Core's script_tests.json",
    "note": "Trusts the transcription (1228 Core vectors incl. error names), the reference ladder, BIP340 and sighash models.",
}

N = B.N_K1
TXD = {"version": 2, "locktime": 100, "ins": [(b"\x11" * 32, 0, b"", 5)], "outs": [(1, b"\x51")]}


def lib_tx(txd, witness=None):
    from btclib.script.witness import Witness
    from btclib.tx import OutPoint, Tx, TxIn, TxOut

    vin = [TxIn(OutPoint(i[0], i[1], check_validity=False), i[2], i[3], Witness(witness[j] if witness else []), check_validity=False) for j, i in enumerate(txd["ins"])]
    vout = [TxOut(o[0], o[1], check_validity=False) for o in txd["outs"]]
    return Tx(txd["version"], txd["locktime"], vin, vout, check_validity=False)


def lib_flags(names):
    from btclib.script.engine.flags import NO_FLAGS, ScriptFlag

    fl = NO_FLAGS
    for f in names:
        fl |= ScriptFlag[f]
    return fl


# --------------------------------------------------------------------------------------------- a. sig-free state space
SIGOPS = {0xAC, 0xAD, 0xAE, 0xAF, 0xBA}
D = [b"", b"\x00", b"\x01", b"\x02", b"\x80", b"\x81", b"\x7f", b"\xff", b"\x00\x80", b"\xff\x7f", b"\x00\x00", b"\x00\x00\x00\x80", b"\x01\x00\x00\x00\x00", bytes(520), bytes(521)]


def pushf(d, form=None):
    if form == "p1":
        return b"\x4c" + bytes([len(d)]) + d
    if form == "p2":
        return b"\x4d" + len(d).to_bytes(2, "little") + d
    if form == "p4":
        return b"\x4e" + len(d).to_bytes(4, "little") + d
    return bytes([len(d)]) + d


T0 = ([bytes([o]) for o in range(0x4F, 0x100) if o not in SIGOPS] + [b"\x00"] + [pushf(d) if len(d) < 76 else pushf(d, "p2") for d in D]
      + [pushf(d, f) for d in D[:8] for f in ("p1", "p2", "p4")] + [b"\x05\x01", b"\x4c", b"\x4d\x01", b"\x4e\x01\x00\x00"])
T1 = [bytes([o]) for o in list(range(0x4F, 0xBB)) if o not in SIGOPS] + [b"\x00"] + [pushf(d) for d in D[:12]] + [pushf(b"\x01", "p1")]
T2 = ([bytes([o]) for o in (0x00, 0x51, 0x52, 0x4F, 0x61, 0x63, 0x64, 0x65, 0x67, 0x68, 0x69, 0x6A, 0x6B, 0x6C, 0x6D, 0x6E, 0x73, 0x74, 0x75, 0x76, 0x79, 0x7A, 0x7B, 0x7C, 0x7E, 0x82,
                                0x87, 0x88, 0x8B, 0x91, 0x93, 0x9A, 0x9D, 0xA5, 0xA8, 0xAB, 0xB0, 0xB1, 0xB2, 0xBB, 0xFF)] + [pushf(b"\x80"), pushf(b"\x02"), pushf(b"\x00")])
T3 = [bytes([o]) for o in (0x00, 0x51, 0x63, 0x64, 0x67, 0x68, 0x69, 0x6B, 0x6C, 0x73, 0x74, 0x75, 0x76, 0x7A, 0x87, 0x8B, 0x93, 0xA8, 0xB1, 0xB2, 0xBB, 0xFF)] + [pushf(b"\x80"), pushf(b"\x02")]
STACKS = [[], [b"\x01"], [b""], [b"\x02", b"\x01"], [b"\x01", b""], [b"\x01"] * 6]
FLAGSETS = [(), ("MINIMALDATA",), ("MINIMALIF",), ("DISCOURAGE_UPGRADABLE_NOPS",), ("CHECKLOCKTIMEVERIFY", "CHECKSEQUENCEVERIFY"),
            ("MINIMALDATA", "MINIMALIF", "DISCOURAGE_UPGRADABLE_NOPS", "CHECKLOCKTIMEVERIFY", "CHECKSEQUENCEVERIFY", "CONST_SCRIPTCODE", "DISCOURAGE_OP_SUCCESS")]


def model_run(script, stack, flags, sigv):
    st = list(stack)
    chk = M.NoSigChecker(TXD, 0)
    try:
        if sigv == 2:
            M.execute_witness_script(st, script, set(flags), M.TAPSCRIPT, chk, _exdata())
            return ("ok", None)
        M.eval_script(st, script, set(flags), chk, M.BASE if sigv == 0 else M.WITNESS_V0)
        return ("ok", tuple(st))
    except M.Err as e:
        return ("err", e.args[0])


def _exdata():
    ex = M.ExecData()
    ex.budget = 1000
    ex.tapleaf_hash = bytes(32)
    return ex


def _sigfree_shard(arg):
    programs = arg
    from btclib.exceptions import BTClibValueError
    from btclib.script.engine.script import verify_script
    from btclib.script.engine.tapscript import verify_script_path_vc0
    from btclib.tx import TxOut

    st = Stats()
    tx = lib_tx(TXD)
    prev = [TxOut(10, b"\x51", check_validity=False)]
    fls = [(f, lib_flags(f)) for f in FLAGSETS]
    seen = set()
    for prog in programs:
        script = b"".join(prog)
        for stk in STACKS:
            for fnames, fl in fls:
                for sigv in (0, 1, 2):
                    st.evals += 1
                    st.transitions += 1
                    m = model_run(script, stk, fnames, sigv)
                    s2 = list(stk)
                    try:
                        if sigv == 2:
                            verify_script_path_vc0(script, s2, prev, tx, 0, b"", 1000, fl)
                            i = ("ok", None)
                        else:
                            verify_script(script, s2, 10, tx, 0, fl, sigv == 1, False)
                            i = ("ok", tuple(s2))
                    except BTClibValueError as e:
                        i = ("err", str(e)[:60])
                    except Exception as e:  # noqa: BLE001
                        i = ("EXC", type(e).__name__ + ": " + str(e)[:60])
                    if m[0] == "ok":
                        seen.add((sigv, m[1]))
                    else:
                        st.nontrivial += 1
                    same = (m[0] == "ok" and i[0] == "ok" and m[1] == i[1]) or (m[0] == "err" and i[0] == "err")
                    if not same:
                        ver = ("base", "witness_v0", "tapscript")[sigv]
                        if i[0] == "EXC":
                            key = f"C08/sigfree/{ver}/foreign-exception"
                        elif m[0] == "err" and i[0] == "ok":
                            key = f"C08/sigfree/{ver}/accepts-what-core-rejects/{m[1]}"
                        elif m[0] == "ok" and i[0] == "err":
                            tok = "0xff" if b"\xff" in script and "unknown op code: 0xff" in i[1] else "other"
                            key = f"C08/sigfree/{ver}/rejects-what-core-accepts/{tok}"
                        else:
                            key = f"C08/sigfree/{ver}/final-stack-differs"
                        st.violation(key, {"script": script.hex(), "stack": [x.hex() for x in stk], "flags": fnames, "version": ver}, i, m)
    st.states = len(seen)
    if programs:
        st.sample({"program": [t.hex() for t in programs[0]], "stacks": len(STACKS), "flag_sets": len(FLAGSETS)})
    return st


def sigfree(ctx):
    progs = [(t,) for t in T0] + list(itertools.product(T1, repeat=2)) + list(itertools.product(T2, repeat=3))
    if not ctx.quick:
        progs += list(itertools.product(T3, repeat=4))
    st = ctx.pmap(_sigfree_shard, shard_round_robin(progs, 256))
    st.notes.update({"programs": len(progs), "alphabets": [len(T0), len(T1), len(T2), len(T3)]})
    return st


# --------------------------------------------------------------------------------------------- reference signing
def ref_ecdsa_sign(d, digest, k=None):
    z = int.from_bytes(digest, "big")
    k = k or (int.from_bytes(hashlib.sha256(b"k" + digest + d.to_bytes(32, "big")).digest(), "big") % N or 1)
    K = R.mul_fast(k, B.G_K1, B.P_K1, 0)
    r = K[0] % N
    s = pow(k, -1, N) * (z + r * d) % N
    return r, s


def der(r, s):
    def enc(x):
        b = x.to_bytes((x.bit_length() + 7) // 8 or 1, "big")
        if b[0] & 0x80:
            b = b"\x00" + b
        return b"\x02" + bytes([len(b)]) + b
    body = enc(r) + enc(s)
    return b"\x30" + bytes([len(body)]) + body


def pubkey(d, form="c"):
    Q = R.mul_fast(d, B.G_K1, B.P_K1, 0)
    x, y = Q[0].to_bytes(32, "big"), Q[1].to_bytes(32, "big")
    if form == "c":
        return bytes([2 + (Q[1] & 1)]) + x
    if form == "u":
        return b"\x04" + x + y
    if form == "h":
        return bytes([6 + (Q[1] & 1)]) + x + y
    if form == "x":
        return x
    raise ValueError


def h160(b):
    return hashlib.new("ripemd160", hashlib.sha256(b).digest()).digest()


def judge_spend(st, key, txd, idx, prevs, witness, flags, case, arms=(True, False)):
    """Model verdict vs verify_input on the given backends."""
    from btclib.exceptions import BTClibValueError
    from btclib.script.engine import verify_input
    from btclib.tx import TxOut

    chk = M.Checker(txd, idx, prevs[idx][0], prevs)
    try:
        M.verify_script(txd["ins"][idx][2], prevs[idx][1], witness[idx] if witness else [], set(flags), chk)
        m = "OK"
    except M.Err as e:
        m = e.args[0]
    tx = lib_tx(txd, witness)
    prevouts = [TxOut(a, s, check_validity=False) for a, s in prevs]
    for serving in arms:
        st.evals += 1
        with backend(serving):
            try:
                verify_input(prevouts, tx, idx, list(flags))
                got = "OK"
            except BTClibValueError as e:
                got = "refused"
                msg = str(e)[:80]
            except Exception as e:  # noqa: BLE001
                got = "foreign " + type(e).__name__
                msg = str(e)[:80]
        if m != "OK":
            st.nontrivial += 1
        st.outcomes[(key.split("/")[1], m == "OK")] += 1
        if got.startswith("foreign"):
            st.violation(f"{key}/foreign-exception", dict(case, bindings=serving), got + ": " + msg, m)
        elif (got == "OK") != (m == "OK"):
            tag = str(case.get("sig") or case.get("script") or case.get("program") or case.get("spk") or "")
            kind = f"accepts-what-core-rejects/{m}" if got == "OK" else f"rejects-what-core-accepts/{tag}"
            st.violation(f"{key}/{kind}", dict(case, bindings=serving, flags=sorted(flags)), got if got == "OK" else got + ": " + msg, m)
    return m


STD = ["P2SH", "STRICTENC", "DERSIG", "LOW_S", "NULLDUMMY", "MINIMALDATA", "DISCOURAGE_UPGRADABLE_NOPS", "CLEANSTACK", "CHECKLOCKTIMEVERIFY", "CHECKSEQUENCEVERIFY", "WITNESS",
       "DISCOURAGE_UPGRADABLE_WITNESS_PROGRAM", "MINIMALIF", "NULLFAIL", "WITNESS_PUBKEYTYPE", "CONST_SCRIPTCODE", "TAPROOT", "DISCOURAGE_UPGRADABLE_TAPROOT_VERSION",
       "DISCOURAGE_OP_SUCCESS", "DISCOURAGE_UPGRADABLE_PUBKEYTYPE"]
CONSENSUS = ["P2SH", "DERSIG", "NULLDUMMY", "CHECKLOCKTIMEVERIFY", "CHECKSEQUENCEVERIFY", "WITNESS", "TAPROOT"]


def flag_sets(relevant):
    """NONE, consensus, standard, each relevant flag alone / on top of consensus / removed from standard."""
    out = [[], list(CONSENSUS), list(STD)]
    for f in relevant:
        out.append(_close([f]))
        out.append(_close(CONSENSUS + [f]))
        out.append([x for x in STD if x != f])
    seen = []
    for fs in out:
        fs = sorted(set(_close(fs)))
        if fs not in seen:
            seen.append(fs)
    return seen


def _close(fs):
    fs = set(fs)
    if "CLEANSTACK" in fs:
        fs |= {"P2SH", "WITNESS"}
    if "WITNESS" in fs or "TAPROOT" in fs:
        fs |= {"P2SH", "WITNESS"} if "TAPROOT" in fs else {"P2SH"}
    return sorted(fs)


def _sig_variants(d, digest_for):
    """Signature alphabet for key d: (name, bytes-with-hashtype)."""
    out = []
    for ht in (1, 2, 3, 0x81, 0x83, 0, 4, 0x80, 0xFF):
        r, s = ref_ecdsa_sign(d, digest_for(ht))
        if s > N // 2:
            s = N - s
        out.append((f"valid-ht{ht:02x}", der(r, s) + bytes([ht])))
    r, s = ref_ecdsa_sign(d, digest_for(1))
    lo = s if s <= N // 2 else N - s
    hi = N - lo
    good = der(r, lo)
    out += [("high-s", der(r, hi) + b"\x01"),
            ("lax-padded-r", b"\x30" + bytes([len(good) - 2 + 1]) + b"\x02" + bytes([good[3] + 1]) + b"\x00" + good[4:] + b"\x01"),
            ("lax-long-form-len", b"\x30\x81" + bytes([len(good) - 2]) + good[2:] + b"\x01"),
            ("trailing-garbage", good + b"\x00" + b"\x01"),
            ("wrong-sighash-digest", der(*[(x if i == 0 else (x if x <= N // 2 else N - x)) for i, x in enumerate(ref_ecdsa_sign(d, digest_for(2)))]) + b"\x01"),
            ("empty", b""), ("one-byte", b"\x01"), ("truncated", good[:-2] + b"\x01"), ("no-hashtype", good)]
    return out


def _sigops_shard(arg):
    which, seed = arg
    st = Stats()
    d1, d2, d3 = 5, 7, 11
    txd = {"version": 2, "locktime": 0, "ins": [(b"\x22" * 32, 1, b"", 0xFFFFFFFE)], "outs": [(900, b"\x51"), (50, b"\x00\x14" + bytes(20))]}
    amount = 1000
    if which == "p2pk":
        for form in ("c", "u", "h"):
            pk = pubkey(d1, form)
            spk = M.push(pk) + b"\xac"
            for name, sig in _sig_variants(d1, lambda ht: S.legacy(txd, 0, spk, ht)):
                t = dict(txd, ins=[(txd["ins"][0][0], 1, M.push(sig), 0xFFFFFFFE)])
                for fs in flag_sets(["STRICTENC", "DERSIG", "LOW_S", "NULLFAIL"]):
                    judge_spend(st, "C08/sigops/p2pk", t, 0, [(amount, spk)], None, fs, {"key_form": form, "sig": name})
        # other key encodings with a valid signature for d1
        pkc = pubkey(d1)
        for kname, pk in (("empty", b""), ("32-bytes", pkc[1:]), ("34-bytes", pkc + b"\x00"), ("wrong-prefix-05", b"\x05" + pkc[1:]), ("hybrid-wrong-parity", bytes([pubkey(d1, "h")[0] ^ 1]) + pubkey(d1, "h")[1:]),
                          ("off-curve", b"\x02" + (5).to_bytes(32, "big"))):
            spk = M.push(pk) + b"\xac"
            r, s = ref_ecdsa_sign(d1, S.legacy(txd, 0, spk, 1))
            sig = der(r, min(s, N - s)) + b"\x01"
            for sname, sg in (("valid-shape", sig), ("empty", b"")):
                t = dict(txd, ins=[(txd["ins"][0][0], 1, M.push(sg), 0xFFFFFFFE)])
                # CHECKSIG NOT so that a failed check can still succeed as a script
                for tail, tname in ((b"", "checksig"), (b"\x91", "checksig-not")):
                    for fs in flag_sets(["STRICTENC", "NULLFAIL"]):
                        judge_spend(st, "C08/sigops/p2pk-keyenc", t, 0, [(amount, spk + tail)], None, fs, {"key": kname, "sig": sname, "tail": tname})
    elif which == "p2wpkh":
        for form in ("c", "u"):
            pk = pubkey(d1, form)
            spk = b"\x00\x14" + h160(pk)
            code = b"\x76\xa9\x14" + h160(pk) + b"\x88\xac"
            for name, sig in _sig_variants(d1, lambda ht: S.segwit_v0(txd, 0, code, ht, amount)):
                for fs in flag_sets(["WITNESS_PUBKEYTYPE", "LOW_S", "NULLFAIL", "STRICTENC"]):
                    judge_spend(st, "C08/sigops/p2wpkh", txd, 0, [(amount, spk)], [[sig, pk]], fs, {"key_form": form, "sig": name})
    elif which == "multisig":
        keys = [pubkey(d) for d in (d1, d2, d3)]
        ds = [d1, d2, d3]
        for k, n in ((1, 1), (1, 2), (2, 2), (2, 3), (3, 3), (0, 1), (1, 3)):
            spk = bytes([0x50 + k]) + b"".join(M.push(x) for x in keys[:n]) + bytes([0x50 + n]) + b"\xae" if k else b"\x00" + b"".join(M.push(x) for x in keys[:n]) + bytes([0x50 + n]) + b"\xae"
            sigs = []
            for d in ds[:n]:
                r, s = ref_ecdsa_sign(d, S.legacy(txd, 0, spk, 1))
                sigs.append(der(r, min(s, N - s)) + b"\x01")
            for order in itertools.permutations(range(n), k):
                for dummy in (b"\x00", b"\x01\x00", b"\x51"):
                    ss = dummy + b"".join(M.push(sigs[i]) for i in order)
                    t = dict(txd, ins=[(txd["ins"][0][0], 1, ss, 0xFFFFFFFE)])
                    for fs in flag_sets(["NULLDUMMY", "NULLFAIL", "SIGPUSHONLY"]):
                        judge_spend(st, "C08/sigops/multisig", t, 0, [(amount, spk)], None, fs, {"k": k, "n": n, "order": order, "dummy": dummy.hex()}, arms=(True,))
            # FindAndDelete removes EVERY signature of the set from the script code, not only the one under check: a script
            # that carries a push of the second signature (dropped) is signed for with both pushes removed
            if (k, n) == (2, 2):
                base_ms = spk
                stripped = b"\x75" + base_ms
                fsigs = []
                for d in ds[:2]:
                    r, s_ = ref_ecdsa_sign(d, S.legacy(txd, 0, stripped, 1))
                    fsigs.append(der(r, min(s_, N - s_)) + b"\x01")
                for which_in, nm_in in ((1, "second-sig-in-script"), (0, "first-sig-in-script")):
                    full = M.push(fsigs[which_in]) + stripped
                    ss = b"\x00" + M.push(fsigs[0]) + M.push(fsigs[1])
                    t = dict(txd, ins=[(txd["ins"][0][0], 1, ss, 0xFFFFFFFE)])
                    for fs in flag_sets(["CONST_SCRIPTCODE", "NULLFAIL"]):
                        judge_spend(st, "C08/sigops/multisig-findanddelete", t, 0, [(amount, full)], None, fs, {"sig": nm_in, "k": k, "n": n}, arms=(True, False))
            # one signature empty / wrong
            if k >= 1 and n >= 2:
                for bad in (b"", sigs[0][:-2] + b"\x01"):
                    ss = b"\x00" + M.push(bad) + b"".join(M.push(sigs[i]) for i in range(1, k))
                    t = dict(txd, ins=[(txd["ins"][0][0], 1, ss, 0xFFFFFFFE)])
                    for tail in (b"", b"\x91"):
                        for fs in flag_sets(["NULLFAIL", "DERSIG"]):
                            judge_spend(st, "C08/sigops/multisig-bad-sig", t, 0, [(amount, spk + tail)], None, fs, {"k": k, "n": n, "bad": bad.hex()[:10], "tail": tail.hex()}, arms=(True,))
    elif which == "findanddelete":
        pk = pubkey(d1)
        # the signature appears in the script being signed for: FindAndDelete removes it (legacy), CONST_SCRIPTCODE refuses
        base = M.push(pk) + b"\xac"
        r, s = ref_ecdsa_sign(d1, S.legacy(txd, 0, base, 1))
        sig = der(r, min(s, N - s)) + b"\x01"
        for spk, nm in ((M.push(sig) + b"\x75" + base, "sig-pushed-in-script"), (b"\xab" + base, "codeseparator-first"), (b"\x51\x75\xab" + base, "codeseparator-middle"),
                        (base + b"\xab", "codeseparator-after")):
            for sname, digest_script in (("signed-for-whole", spk), ("signed-for-stripped", M.find_and_delete(spk, M.push(sig))[0]), ("signed-for-after-codesep", spk[spk.find(b"\xab") + 1:] if b"\xab" in spk else spk)):
                r2, s2 = ref_ecdsa_sign(d1, S.legacy(txd, 0, digest_script, 1))
                sg = der(r2, min(s2, N - s2)) + b"\x01"
                t = dict(txd, ins=[(txd["ins"][0][0], 1, M.push(sg), 0xFFFFFFFE)])
                for fs in flag_sets(["CONST_SCRIPTCODE"]):
                    judge_spend(st, "C08/sigops/scriptcode", t, 0, [(amount, spk)], None, fs, {"script": nm, "signature": sname})
    elif which == "tapscript":
        xk = pubkey(d1, "x")
        for script, nm in ((M.push(xk) + b"\xac", "checksig"), (M.push(xk) + b"\xad\x51", "checksigverify"), (b"\x00" + M.push(xk) + b"\xba\x51\x87", "checksigadd-eq-1"),
                           (M.push(xk) + b"\xac\x91", "checksig-not"), (M.push(xk + b"\x01") + b"\xac", "33-byte-key"), (M.push(b"") + b"\xac", "empty-key"),
                           (b"\x51" + M.push(xk) + b"\x51\xae", "checkmultisig"), (b"\x6e" + M.push(xk) + b"\xad" + M.push(xk) + b"\xac", "two-checks")):
            internal = R.mul_fast(9, B.G_K1, B.P_K1, 0)[0]
            leaf = (0xC0, script)
            leaves, root = T.tree_helper(leaf)
            out = T.tweak_pubkey(internal, root)
            spk = b"\x51\x20" + out[0].to_bytes(32, "big")
            cb = T.control_block(internal, out[1], 0xC0, b"")
            prevs = [(amount, spk)]
            lh = T.leaf_hash(0xC0, script)
            for ht in (0, 1, 3, 0x83):
                digest = S.taproot(txd, 0, prevs, ht, b"", S.tapleaf_ext(lh))
                r, s = B.sign(d1, digest, bytes(32), B.K1)
                sig64 = r.to_bytes(32, "big") + s.to_bytes(32, "big")
                variants = [("valid", sig64 if ht == 0 else sig64 + bytes([ht])), ("empty", b""), ("bad-s", sig64[:63] + bytes([sig64[63] ^ 1]) + (bytes([ht]) if ht else b"")),
                            ("65-with-00", sig64 + b"\x00"), ("63-bytes", sig64[:63]), ("66-bytes", sig64 + b"\x01\x01")]
                for sname, sg in variants:
                    for extra in ([], [b"x" * 60]):
                        wit_items = ([sg, sg] if nm == "two-checks" else [sg])
                        wit = [wit_items + [script, cb] + ([] if not extra else [])]
                        for fs in flag_sets(["DISCOURAGE_UPGRADABLE_PUBKEYTYPE", "TAPROOT"]):
                            judge_spend(st, "C08/sigops/tapscript", txd, 0, prevs, wit, fs, {"script": nm, "sig": sname, "ht": ht})
        # the sigops budget spent exactly, one short and one over: k x (2DUP CHECKSIGVERIFY) then CHECKSIG on one signature,
        # the witness padded with a dropped item so that 50 + witness_size - 50*(k+1) is -1, 0, +1 ... to the byte
        for kk in (2, 3, 4):
            for delta in (-2, -1, 0, 1):
                for padlen in range(0, 400):
                    script = (b"\x75" if padlen else b"") + M.push(xk) + b"\x6e\xad" * kk + b"\xac"
                    internal = R.mul_fast(9, B.G_K1, B.P_K1, 0)[0]
                    leaves, root = T.tree_helper((0xC0, script))
                    out = T.tweak_pubkey(internal, root)
                    cb = T.control_block(internal, out[1], 0xC0, b"")
                    items = [bytes(64)] + ([bytes(padlen - 1)] if padlen else []) + [script, cb]
                    budget = 50 + M.ser_witness_size(items)
                    if budget - 50 * (kk + 1) == delta:
                        break
                else:
                    continue
                spk = b"\x51\x20" + out[0].to_bytes(32, "big")
                prevs = [(amount, spk)]
                digest = S.taproot(txd, 0, prevs, 0, b"", S.tapleaf_ext(T.leaf_hash(0xC0, script)))
                r, s_ = B.sign(d1, digest, bytes(32), B.K1)
                sig64 = r.to_bytes(32, "big") + s_.to_bytes(32, "big")
                items[0] = sig64
                for fs in flag_sets(["TAPROOT"]):
                    judge_spend(st, "C08/sigops/tapscript-budget", txd, 0, prevs, [items], fs, {"sig": f"budget-minus-cost={delta}", "checks": kk + 1, "padding": padlen})
    st.sample({"family": which})
    return st


def sigops(ctx):
    fams = ["p2pk", "p2wpkh", "multisig", "findanddelete", "tapscript"]
    return ctx.pmap(_sigops_shard, [(f, ctx.seed) for f in fams])


# --------------------------------------------------------------------------------------------- c. spend forms
def _spend_shard(arg):
    which, seed = arg
    st = Stats()
    d1 = 13
    pk = pubkey(d1)
    amount = 5000
    txd = {"version": 2, "locktime": 0, "ins": [(b"\x33" * 32, 0, b"", 0xFFFFFFFF)], "outs": [(4000, b"\x51")]}
    fsets = flag_sets(["P2SH", "WITNESS", "CLEANSTACK", "MINIMALIF", "TAPROOT", "DISCOURAGE_UPGRADABLE_WITNESS_PROGRAM", "SIGPUSHONLY", "MINIMALDATA"])

    def with_sig(t, v):
        return dict(t, ins=[(t["ins"][0][0], 0, v, 0xFFFFFFFF)])

    if which == "p2sh-wrapped":
        wpkh = b"\x00\x14" + h160(pk)
        spk = b"\xa9\x14" + h160(wpkh) + b"\x87"
        code = b"\x76\xa9\x14" + h160(pk) + b"\x88\xac"
        r, s = ref_ecdsa_sign(d1, S.segwit_v0(txd, 0, code, 1, amount))
        sig = der(r, min(s, N - s)) + b"\x01"
        for nm, ssig in (("exact-push", M.push(wpkh)), ("pushdata1", b"\x4c" + bytes([len(wpkh)]) + wpkh), ("extra-push-before", b"\x51" + M.push(wpkh)), ("extra-empty-push-before", b"\x00" + M.push(wpkh)),
                         ("empty", b""), ("nop-before", b"\x61" + M.push(wpkh)), ("two-copies", M.push(wpkh) + M.push(wpkh))):
            for wname, wit in (("good", [sig, pk]), ("empty", []), ("three-items", [b"", sig, pk]), ("swapped", [pk, sig])):
                for fs in fsets:
                    judge_spend(st, "C08/spend/p2sh-p2wpkh", with_sig(txd, ssig), 0, [(amount, spk)], [wit], fs, {"script_sig": nm, "witness": wname})
        ws = b"\x51"
        wsh = b"\x00\x20" + hashlib.sha256(ws).digest()
        spk2 = b"\xa9\x14" + h160(wsh) + b"\x87"
        for nm, ssig in (("exact-push", M.push(wsh)), ("extra-push-before", b"\x51" + M.push(wsh)), ("pushdata1", b"\x4c" + bytes([len(wsh)]) + wsh)):
            for wname, wit in (("good", [ws]), ("extra-item", [b"\x01", ws]), ("wrong-script", [b"\x52"]), ("empty", [])):
                for fs in fsets:
                    judge_spend(st, "C08/spend/p2sh-p2wsh", with_sig(txd, ssig), 0, [(amount, spk2)], [wit], fs, {"script_sig": nm, "witness": wname})
    elif which == "p2wsh":
        for ws, nm in ((b"\x51", "true"), (b"\x00", "false"), (b"\x51\x51", "two-items"), (b"", "empty-script"), (b"\x63\x51\x68", "if-consumes-arg"), (b"\x75\x51", "drop-true"), (b"\x6a", "op_return"),
                       (b"\x51\x63\x51\x67\x00\x68", "if-else"), (b"\xbb", "unknown-opcode"), (b"\x00\x63\xbb\x68\x51", "unknown-in-dead-branch"), (b"\x4c", "truncated-push")):
            spk = b"\x00\x20" + hashlib.sha256(ws).digest()
            for wname, items in (("none", []), ("one-true", [b"\x01"]), ("one-empty", [b""]), ("02", [b"\x02"]), ("two", [b"\x01", b"\x01"]), ("521-bytes", [bytes(521)])):
                for ssig, sname in ((b"", "empty-scriptsig"), (b"\x51", "non-empty-scriptsig")):
                    for fs in fsets:
                        judge_spend(st, "C08/spend/p2wsh", with_sig(txd, ssig), 0, [(amount, spk)], [items + [ws]], fs, {"witness_script": nm, "witness": wname, "script_sig": sname})
        # witness for a non-witness output; witness program of wrong length; unknown versions; P2A
        for spk, nm in ((b"\x51", "bare-true"), (b"\x00\x15" + bytes(21), "v0-21-bytes"), (b"\x52\x02\x01\x02", "v2-2-bytes"), (b"\x51\x02\x4e\x73", "p2a"), (b"\x60\x28" + bytes(40), "v16-40-bytes"),
                        (b"\x51\x20" + bytes(32), "v1-32-zero-key"), (b"\x51\x21" + bytes(33), "v1-33-bytes"), (b"\x00\x14" + bytes(20), "p2wpkh-no-witness")):
            for wit in ([], [b"\x01"], [b"", b""]):
                for fs in fsets:
                    judge_spend(st, "C08/spend/witness-program-forms", txd, 0, [(amount, spk)], [wit], fs, {"spk": nm, "witness_items": len(wit)})
    elif which == "legacy":
        redeem = b"\x51"
        for spk, nm, ssigs in ((b"\x51", "bare-true", [b"", b"\x51", b"\x61"]), (b"\xa9\x14" + h160(redeem) + b"\x87", "p2sh-true", [M.push(redeem), b"\x51" + M.push(redeem), b"\x61" + M.push(redeem), b""]),
                               (b"\xa9\x14" + h160(b"\x00") + b"\x87", "p2sh-false", [M.push(b"\x00")]), (b"\x76\xa9\x14" + h160(pk) + b"\x88\xac", "p2pkh", ["SIG"]), (b"\x6a", "nulldata", [b"\x51"]),
                               (b"\x63\x51\x68", "if-from-scriptsig", [b"\x51", b"\x00", b""])):
            for ssig in ssigs:
                t = txd
                if ssig == "SIG":
                    r, s = ref_ecdsa_sign(d1, S.legacy(txd, 0, spk, 1))
                    ssig = M.push(der(r, min(s, N - s)) + b"\x01") + M.push(pk)
                for fs in fsets:
                    judge_spend(st, "C08/spend/legacy", with_sig(t, ssig), 0, [(amount, spk)], None, fs, {"spk": nm, "script_sig": ssig.hex()[:20]})
    elif which == "taproot":
        internal = R.mul_fast(21, B.G_K1, B.P_K1, 0)[0]
        scripts = [(b"\x51", "true"), (b"\x00", "false"), (b"\x50", "op_success80"), (b"\xff", "0xff-alone"), (b"\x00\x63\xff\x68\x51", "0xff-in-dead-branch"), (b"\xff\x50", "0xff-before-op_success"),
                   (b"\x50\xff", "0xff-after-op_success"), (b"\x65\x50", "verif-before-op_success"), (b"\x51\x51", "two-items"), (b"\x4c", "truncated-push"), (b"\x4c\x50", "op_success-inside-truncated-push")]
        for script, nm in scripts:
            for leafver in (0xC0, 0xC2):
                leaf = (leafver, script)
                leaves, root = T.tree_helper([leaf, (0xC0, b"\x52")])
                out = T.tweak_pubkey(internal, root)
                spk = b"\x51\x20" + out[0].to_bytes(32, "big")
                cb = T.control_block(internal, out[1], leafver, leaves[0][1])
                for wname, wit in (("script-path", [script, cb]), ("with-annex", [script, cb, b"\x50\x01"]), ("extra-stack-item", [b"\x01", script, cb]), ("wrong-parity", [script, bytes([cb[0] ^ 1]) + cb[1:]]),
                                   ("short-control", [script, cb[:-1]]), ("no-path", [script, cb[:33]]), ("empty-witness", []), ("key-path-garbage", [bytes(64)]), ("key-path-65-00", [bytes(64) + b"\x00"])):
                    for fs in flag_sets(["TAPROOT", "DISCOURAGE_OP_SUCCESS", "DISCOURAGE_UPGRADABLE_TAPROOT_VERSION", "CLEANSTACK"]):
                        judge_spend(st, "C08/spend/taproot", txd, 0, [(amount, spk)], [wit], fs, {"script": nm, "leaf_version": hex(leafver), "witness": wname})
        # key path with a real signature, annex present/absent
        dk = 23
        xk = R.mul_fast(dk, B.G_K1, B.P_K1, 0)
        out = T.tweak_pubkey(xk[0], b"")
        dtw = T.tweak_seckey(dk, b"")
        spk = b"\x51\x20" + out[0].to_bytes(32, "big")
        for annex in (None, b"\x50", b"\x50\xaa\xbb"):
            for ht in (0, 1, 2, 3, 0x81, 0x83, 4, 0x80):
                digest = S.taproot(txd, 0, [(amount, spk)], ht if ht in (0, 1, 2, 3, 0x81, 0x82, 0x83) else 1, annex or b"")
                r, s = B.sign(dtw, digest, bytes(32), B.K1)
                sg = r.to_bytes(32, "big") + s.to_bytes(32, "big") + (bytes([ht]) if ht else b"")
                wit = [sg] + ([annex] if annex else [])
                for fs in flag_sets(["TAPROOT"]):
                    judge_spend(st, "C08/spend/taproot-keypath", txd, 0, [(amount, spk)], [wit], fs, {"annex": annex.hex() if annex else None, "ht": ht})
    st.sample({"family": which})
    return st


def spend_forms(ctx):
    return ctx.pmap(_spend_shard, [(f, ctx.seed) for f in ("p2sh-wrapped", "p2wsh", "legacy", "taproot")])


# --------------------------------------------------------------------------------------------- d. Core's vectors, both arms
# --------------------------------------------------------------------------------------------- time locks: the lattice
def _num(n):
    """Minimal CScriptNum encoding."""
    if n == 0:
        return b""
    neg, a = n < 0, abs(n)
    out = bytearray()
    while a:
        out.append(a & 0xFF)
        a >>= 8
    if out[-1] & 0x80:
        out.append(0x80 if neg else 0)
    elif neg:
        out[-1] |= 0x80
    return bytes(out)


SEQ_EDGES = [0, 1, 2, 3, 5, 0xFFFF, 0x10000, 0x10003, 0x1FFFF, 0xF0003, 0xFFFFF, 0x3FFFFF, 0x400000, 0x400001, 0x400003, 0x40FFFF, 0x410003, 0x4FFFFF, 0x7FFFFFFF,
             0x80000000, 0x80000001, 0x80400003, 0xFFFFFFFE, 0xFFFFFFFF]
LOCK_EDGES = [0, 1, 100, 499_999_999, 500_000_000, 500_000_001, 0x7FFFFFFF, 0x80000000, 0xFFFFFFFF]


def _timelock_shard(arg):
    cases = arg
    st = Stats()
    for op, operand, version, lock, seq, form in cases:
        script = pushf(_num(operand)) + bytes([op, 0x75, 0x51])   # <n> CLTV|CSV DROP 1
        txd = {"version": version, "locktime": lock, "ins": [(b"\x55" * 32, 0, b"", seq)], "outs": [(1, b"\x51")]}
        case = {"op": "CLTV" if op == 0xB1 else "CSV", "operand": operand, "version": version, "lock": lock, "seq": hex(seq), "form": form, "script": script.hex()}
        if form == "bare":
            prevs, wit = [(1000, script)], None
        elif form == "p2wsh":
            prevs, wit = [(1000, b"\x00\x20" + hashlib.sha256(script).digest())], [[script]]
        else:
            lh = T.leaf_hash(0xC0, script)
            nums = bytes.fromhex("50929b74c1a04954b78b4b6035e97a5e078a5a0f28ec96d547bfee9ace803ac0")
            qx, par = T.tweak_pubkey(int.from_bytes(nums, "big"), lh)
            prevs, wit = [(1000, b"\x51\x20" + qx.to_bytes(32, "big"))], [[script, bytes([0xC0 | par]) + nums]]
        for flags in (STD, CONSENSUS, [f for f in CONSENSUS if f not in ("CHECKLOCKTIMEVERIFY", "CHECKSEQUENCEVERIFY")]):
            judge_spend(st, "C08/timelock/" + case["op"], txd, 0, prevs, wit, flags, case)
    return st


def timelocks(ctx):
    cases = []
    operands_seq = SEQ_EDGES + [-1, 1 << 32, (1 << 39) - 1, 1 << 39]
    for form in ("bare", "p2wsh", "tapscript"):
        for version in (1, 2):
            for operand in operands_seq:
                for seq in SEQ_EDGES:
                    if form != "bare" and ctx.quick and (SEQ_EDGES.index(seq) + operands_seq.index(operand)) % 2:
                        continue
                    cases.append((0xB2, operand, version, 0, seq, form))
        operands_lock = LOCK_EDGES + [-1, 1 << 32, (1 << 39) - 1, 1 << 39]
        for operand in operands_lock:
            for lock in LOCK_EDGES:
                for seq in (0, 0xFFFFFFFE, 0xFFFFFFFF):
                    cases.append((0xB1, operand, 2, lock, seq, form))
    st = ctx.pmap(_timelock_shard, shard_round_robin(cases, 64))
    st.notes["cases"] = len(cases)
    return st


def _core_shard(arg):
    idxs = arg
    from btclib.exceptions import BTClibValueError
    from btclib.script.engine import verify_input
    from btclib.tx import TxOut

    st = Stats()
    vs = [v for v in M.load_core_script_tests() if v[0] != "placeholder"]
    for i in idxs:
        wit, amount, ssig, spk, flags, expected, comment, row = vs[i]
        flags = _close(flags)
        credit, spend = M.core_vector_txs(ssig, spk, amount)
        tx = lib_tx(spend, [wit])
        prev = [TxOut(amount, spk, check_validity=False)]
        for serving in (True, False):
            st.evals += 1
            with backend(serving):
                try:
                    verify_input(prev, tx, 0, flags)
                    got = "OK"
                except BTClibValueError as e:
                    got = "refused"
                except Exception as e:  # noqa: BLE001
                    got = "foreign " + type(e).__name__ + " " + str(e)[:50]
            if expected != "OK":
                st.nontrivial += 1
            st.outcomes[(expected == "OK", got if got in ("OK", "refused") else "foreign")] += 1
            if got.startswith("foreign"):
                st.violation("C08/core-vectors/foreign-exception", {"vector": row, "bindings": serving}, got, expected)
            elif (got == "OK") != (expected == "OK"):
                st.violation("C08/core-vectors/" + ("accepts-what-core-rejects/" + expected if got == "OK" else "rejects-what-core-accepts"), {"vector": row, "bindings": serving}, got, expected)
    return st


def core_vectors(ctx):
    n = len([v for v in M.load_core_script_tests() if v[0] != "placeholder"])
    st = ctx.pmap(_core_shard, shard_round_robin(range(n), 64))
    st.notes["vectors"] = n
    return st


# --------------------------------------------------------------------------------------------- e. limits
def limits(ctx):
    st = Stats()
    amount = 1000
    txd = {"version": 2, "locktime": 0, "ins": [(b"\x44" * 32, 0, b"", 0xFFFFFFFF)], "outs": [(1, b"\x51")]}
    progs = []
    for n in (200, 201, 202):
        progs.append((f"{n}-nops", b"\x61" * n + b"\x51"))
        progs.append((f"{n}-ops-in-dead-branch", b"\x00\x63" + b"\x61" * (n - 2) + b"\x68\x51"))
    for n in (999, 1000, 1001):
        progs.append((f"{n}-stack-elements", b"\x51" * n + b"\x6d" * ((n - 1) // 2) + (b"" if n % 2 else b"\x75")))
        progs.append((f"{n}-alt+main", b"\x51" * n + b"\x6b" * 10 + b"\x6c" * 10 + b"\x6d" * ((n - 1) // 2) + (b"" if n % 2 else b"\x75")))
    for n in (9999, 10000, 10001):
        progs.append((f"{n}-byte-script", (b"\x4d\x08\x02" + bytes(520) + b"\x75") * (n // 524) + b"\x61" * 0 + b"\x51" + b"\x00\x75" * ((n - (n // 524) * 524 - 1) // 2) + (b"\x61" if (n - (n // 524) * 524 - 1) % 2 else b"")))
    for n in (520, 521):
        progs.append((f"push-{n}", b"\x4d" + n.to_bytes(2, "little") + bytes(n) + b"\x75\x51"))
    for n in (99, 100, 101, 200):
        progs.append((f"{n}-nested-ifs", b"\x51\x63" * n + b"\x68" * n + b"\x51"))
    progs.append(("unbalanced-if", b"\x51\x63\x51"))
    progs.append(("else-without-if", b"\x67\x51"))
    progs.append(("endif-without-if", b"\x68\x51"))
    for nm, script in progs:
        exp_len = len(script)
        for form in ("bare", "p2wsh", "tapscript"):
            if form == "bare":
                for fs in ([], list(STD)):
                    judge_spend(st, "C08/limits/bare", txd, 0, [(amount, script)], None, _close(fs), {"program": nm, "len": exp_len}, arms=(True,))
            elif form == "p2wsh":
                spk = b"\x00\x20" + hashlib.sha256(script).digest()
                for fs in (list(CONSENSUS), list(STD)):
                    judge_spend(st, "C08/limits/p2wsh", txd, 0, [(amount, spk)], [[script]], _close(fs), {"program": nm, "len": exp_len}, arms=(True,))
            else:
                internal = R.mul_fast(31, B.G_K1, B.P_K1, 0)[0]
                leaves, root = T.tree_helper((0xC0, script))
                out = T.tweak_pubkey(internal, root)
                spk = b"\x51\x20" + out[0].to_bytes(32, "big")
                cb = T.control_block(internal, out[1], 0xC0, b"")
                for fs in (list(CONSENSUS), list(STD)):
                    judge_spend(st, "C08/limits/tapscript", txd, 0, [(amount, spk)], [[script, cb]], _close(fs), {"program": nm, "len": exp_len}, arms=(True,))
    return st


SUBS = [
    ("core_vectors", core_vectors),
    ("sigfree", sigfree),
    ("sigops", sigops),
    ("spend_forms", spend_forms),
    ("timelocks", timelocks),
    ("limits", limits),
]
