---- MODULE MuSigSession ----
(* Message orderings of one honest MuSig2 session with K signers: each signer generates a nonce, the
   public nonces are aggregated once all exist, each signer signs (any order), any signer's partial
   signature may be verified once it exists, the aggregate is formed once all have signed.
   TLC enumerates every reachable state; checks/c16.py replays EVERY edge with the real btclib.ecc.musig2. *)
EXTENDS Naturals, FiniteSets
CONSTANTS K
S == 1..K
VARIABLES nonced, agg, signed, verified, done
vars == <<nonced, agg, signed, verified, done>>
Init == nonced = {} /\ agg = FALSE /\ signed = {} /\ verified = {} /\ done = FALSE
NonceGen(i) == i \notin nonced /\ nonced' = nonced \cup {i} /\ UNCHANGED <<agg, signed, verified, done>>
NonceAgg == ~agg /\ nonced = S /\ agg' = TRUE /\ UNCHANGED <<nonced, signed, verified, done>>
Sign(i) == agg /\ i \notin signed /\ signed' = signed \cup {i} /\ UNCHANGED <<nonced, agg, verified, done>>
Verify(i) == i \in signed /\ i \notin verified /\ verified' = verified \cup {i} /\ UNCHANGED <<nonced, agg, signed, done>>
Aggregate == ~done /\ signed = S /\ done' = TRUE /\ UNCHANGED <<nonced, agg, signed, verified>>
Next == (\E i \in S: NonceGen(i) \/ Sign(i) \/ Verify(i)) \/ NonceAgg \/ Aggregate
Order == (agg => nonced = S) /\ (signed # {} => agg) /\ (done => signed = S) /\ verified \subseteq signed
Spec == Init /\ [][Next]_vars
====
