CONSTANTS B = {0, 1}
MaxI = 2
INIT Init
NEXT Next
INVARIANT AboveAll
INVARIANT Once
INVARIANT Tight
