CONSTANTS
K = 3
INIT Init
NEXT Next
INVARIANT Order
