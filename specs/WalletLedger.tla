---- MODULE WalletLedger ----
(* The ledger of btclib.wallet.RangedWallet: next_address(b) hands out the lowest index above every index
   handed out on b; `addresses` records each address once, in first-hand-out order; a refused call changes
   nothing.  TLC enumerates every reachable state; mc/tlc.py replays EVERY edge on a real wallet. *)
EXTENDS Naturals, Sequences
CONSTANTS B, MaxI
VARIABLES next, handed
vars == <<next, handed>>
Init == next = [b \in B |-> 0] /\ handed = <<>>
Record(b, i) == IF \E k \in 1..Len(handed): handed[k] = <<b, i>> THEN handed ELSE Append(handed, <<b, i>>)
Addr(b, i) == /\ next' = [next EXCEPT ![b] = IF i + 1 > next[b] THEN i + 1 ELSE next[b]]
              /\ handed' = Record(b, i)
NextAddr(b) == /\ next[b] <= MaxI
               /\ next' = [next EXCEPT ![b] = next[b] + 1]
               /\ handed' = Record(b, next[b])
(* calls the wallet must refuse, and pure queries: the state does not move *)
Refused(k) == /\ k \in {"branch2", "branch-1", "index-1"} /\ UNCHANGED vars
Query(k) == /\ k \in {"position_of", "contains", "addresses"} /\ UNCHANGED vars
Next == \/ \E b \in B: (\E i \in 0..MaxI: Addr(b, i)) \/ NextAddr(b)
        \/ \E k \in {"branch2", "branch-1", "index-1"}: Refused(k)
        \/ \E k \in {"position_of", "contains", "addresses"}: Query(k)
(* the property, as invariants of the model *)
AboveAll == \A b \in B: \A k \in 1..Len(handed): handed[k][1] = b => handed[k][2] < next[b]
Once == \A j, k \in 1..Len(handed): j # k => handed[j] # handed[k]
Tight == \A b \in B: next[b] = 0 \/ \E k \in 1..Len(handed): handed[k] = <<b, next[b] - 1>>
Spec == Init /\ [][Next]_vars
====
